(* Translation validation for C12: the MiniPy syntax of Genotypes.index, Phenotypes.index and of the index part of
   Phenotypes.append, REGENERATED FROM /repo's CURRENT SOURCE on every run (HVG.Gen_Index, written by
   harness/pytrans.py), denotes exactly the cache semantics of C12_Model - a cache is the snapshot of the ID list it was
   built from, membership = membership in the snapshot, position = lastpos - for ALL ID lists (with and without
   duplicates), all flag combinations, all earlier cache states, both axes, both classes.
   Compiled per run against the generated module; not part of the static build. *)
From HV Require Import Prelude GenoTable MiniPy MiniPyFacts C13_Model C12_Model C12_Proofs.
From HVG Require Import Gen_Index TVM_C12.
From Coq Require Import String.
Open Scope string_scope.
Open Scope list_scope.
Open Scope Z_scope.

(* ================= dictionaries with string-token keys, at the level of Z keys ================= *)

Definition encd (dz : list (Z * val)) : list (val * val) := map (fun p => (VStr (fst p), snd p)) dz.

Fixpoint putZ (dz : list (Z * val)) (x : Z) (v : val) : list (Z * val) :=
  match dz with
  | [] => [(x, v)]
  | (y, w) :: r => if y =? x then (y, v) :: r else (y, w) :: putZ r x v
  end.
Fixpoint zipZ (ids : list Z) (vs : list val) (dz : list (Z * val)) : list (Z * val) :=
  match ids, vs with
  | x :: r, v :: vr => zipZ r vr (putZ dz x v)
  | _, _ => dz
  end.
Fixpoint getZ (dz : list (Z * val)) (x : Z) : option val :=
  match dz with
  | [] => None
  | (y, w) :: r => if y =? x then Some w else getZ r x
  end.
Definition memk (x : Z) (dz : list (Z * val)) : bool := existsb (fun p => fst p =? x) dz.

Lemma dict_put_enc dz x v : dict_put (encd dz) (VStr x) v = encd (putZ dz x v).
Proof.
  induction dz as [|[y w] r IH]; [reflexivity|].
  cbn [encd map fst snd dict_put putZ py_eq as_num]. destruct (y =? x); [reflexivity|].
  cbn [map fst snd]. f_equal. exact IH.
Qed.

Lemma dict_zip_enc ids : forall vs dz, dict_zip (map VStr ids) vs (encd dz) = encd (zipZ ids vs dz).
Proof.
  induction ids as [|x r IH]; intros vs dz; [reflexivity|].
  destruct vs as [|v vr]; [reflexivity|]. cbn [map dict_zip zipZ]. rewrite dict_put_enc. apply IH.
Qed.

Lemma snap_dict_enc s : snap_dict s = encd (zipZ s (range_list (List.length s) 0) []).
Proof. unfold snap_dict. exact (dict_zip_enc s _ []). Qed.

Lemma len_putZ dz x v : List.length (putZ dz x v) = (List.length dz + if memk x dz then 0 else 1)%nat.
Proof.
  induction dz as [|[y w] r IH]; [reflexivity|].
  cbn [putZ memk existsb fst]. destruct (y =? x); cbn [orb List.length]; [lia|].
  fold (memk x r). rewrite IH. lia.
Qed.

Lemma memk_putZ dz x v y : memk y (putZ dz x v) = memk y dz || (x =? y).
Proof.
  induction dz as [|[z w] r IH]; [cbn; rewrite orb_false_r; reflexivity|].
  cbn [putZ memk existsb fst]. destruct (z =? x) eqn:E.
  - cbn [existsb fst]. apply Z.eqb_eq in E. subst z. fold (memk y r).
    destruct (x =? y); cbn; [reflexivity|rewrite orb_false_r; reflexivity].
  - cbn [existsb fst]. fold (memk y (putZ r x v)) (memk y r). rewrite IH. rewrite orb_assoc. reflexivity.
Qed.

Lemma getZ_putZ dz x v y : getZ (putZ dz x v) y = if x =? y then Some v else getZ dz y.
Proof.
  induction dz as [|[z w] r IH]; [reflexivity|].
  cbn [putZ getZ]. destruct (z =? x) eqn:E.
  - apply Z.eqb_eq in E. subst z. cbn [getZ]. destruct (x =? y); reflexivity.
  - cbn [getZ]. destruct (z =? y) eqn:E2.
    + apply Z.eqb_eq in E2. subst z. rewrite Z.eqb_sym in E. rewrite E. reflexivity.
    + exact IH.
Qed.

Lemma len_zipZ_le ids : forall vs dz, (List.length (zipZ ids vs dz) <= List.length dz + List.length ids)%nat.
Proof.
  induction ids as [|x r IH]; intros vs dz; [cbn; lia|].
  destruct vs as [|v vr]; [cbn; lia|]. cbn [zipZ List.length].
  specialize (IH vr (putZ dz x v)). rewrite len_putZ in IH. destruct (memk x dz); lia.
Qed.

Lemma forallb_notmem x r : forallb (fun y => negb (x =? y)) r = negb (memZ x r).
Proof.
  induction r as [|y r IH]; [reflexivity|]. cbn [forallb memZ]. rewrite IH, negb_orb. reflexivity.
Qed.

Lemma len_zipZ_eq ids : forall vs dz, List.length vs = List.length ids ->
  (List.length (zipZ ids vs dz) =? List.length dz + List.length ids)%nat
  = nodupZ ids && forallb (fun x => negb (memk x dz)) ids.
Proof.
  induction ids as [|x r IH]; intros vs dz Hl.
  - cbn. rewrite Nat.add_0_r. apply Nat.eqb_refl.
  - destruct vs as [|v vr]; [discriminate|]. cbn [zipZ]. cbn [List.length] in Hl |- *.
    assert (Hl' : List.length vr = List.length r) by lia.
    cbn [nodupZ forallb]. destruct (memk x dz) eqn:M.
    + cbn [negb andb]. rewrite andb_false_r.
      pose proof (len_zipZ_le r vr (putZ dz x v)) as L. rewrite len_putZ, M in L.
      apply Nat.eqb_neq. lia.
    + replace (List.length dz + S (List.length r))%nat with (List.length (putZ dz x v) + List.length r)%nat
        by (rewrite len_putZ, M; lia).
      rewrite (IH vr (putZ dz x v) Hl'). cbn [negb andb].
      assert (E : forallb (fun y => negb (memk y (putZ dz x v))) r
                  = forallb (fun y => negb (memk y dz)) r && negb (memZ x r)).
      { rewrite <- forallb_notmem. clear. induction r as [|y r IH]; [reflexivity|].
        cbn [forallb]. rewrite IH, memk_putZ, negb_orb.
        destruct (memk y dz), (x =? y), (forallb (fun y0 => negb (memk y0 dz)) r),
          (forallb (fun y0 => negb (x =? y0)) r); reflexivity. }
      rewrite E. destruct (memZ x r), (nodupZ r), (forallb (fun y => negb (memk y dz)) r); reflexivity.
Qed.

Lemma range_list_length n : forall from, List.length (range_list n from) = n.
Proof. induction n as [|n IH]; intro from; cbn; [reflexivity|]. rewrite IH. reflexivity. Qed.

(* len(dict(zip(ids, range(len(ids))))) < len(ids)  exactly when an ID occurs twice *)
Lemma snap_dict_short ids :
  (lenZ (snap_dict ids) <? lenZ (map VStr ids)) = negb (nodupZ ids).
Proof.
  rewrite snap_dict_enc. unfold encd, lenZ. rewrite !map_length.
  pose proof (len_zipZ_le ids (range_list (List.length ids) 0) []) as L.
  pose proof (len_zipZ_eq ids (range_list (List.length ids) 0) [] (range_list_length _ _)) as E.
  cbn [List.length Nat.add] in L, E.
  assert (F : forallb (fun x => negb (memk x [])) ids = true) by (clear; induction ids; auto).
  rewrite F, andb_true_r in E.
  destruct (nodupZ ids); cbn [negb].
  - apply Nat.eqb_eq in E. rewrite E. apply Z.ltb_irrefl.
  - apply Nat.eqb_neq in E. apply Z.ltb_lt. lia.
Qed.

(* look-ups *)
Lemma index_encd dz x : index_sem (VDict (encd dz)) (VStr x) = match getZ dz x with Some v => Ok v | None => Err 3 end.
Proof.
  unfold index_sem. induction dz as [|[y w] r IH]; [reflexivity|].
  cbn [encd map fst snd getZ py_eq as_num]. destruct (y =? x); [reflexivity|exact IH].
Qed.

Lemma keyin_encd dz x : existsb (fun p => py_eq (fst p) (VStr x)) (encd dz) = memk x dz.
Proof.
  induction dz as [|[y w] r IH]; [reflexivity|].
  cbn [encd map fst snd existsb memk py_eq as_num]. f_equal. exact IH.
Qed.

Lemma getZ_zip_range ids : forall from dz x,
  getZ (zipZ ids (range_list (List.length ids) from) dz) x
  = match lastpos x ids with Some n => Some (VInt (from + Z.of_nat n)) | None => getZ dz x end.
Proof.
  induction ids as [|y r IH]; intros from dz x; [reflexivity|].
  cbn [List.length range_list zipZ lastpos]. rewrite IH.
  destruct (lastpos x r) as [n|]; cbv beta iota.
  - f_equal. f_equal. lia.
  - rewrite getZ_putZ. rewrite (Z.eqb_sym y x). destruct (x =? y); [|reflexivity].
    f_equal. f_equal. lia.
Qed.

Lemma memk_zip ids : forall vs dz x, List.length vs = List.length ids ->
  memk x (zipZ ids vs dz) = memk x dz || memZ x ids.
Proof.
  induction ids as [|y r IH]; intros vs dz x Hl; [cbn; rewrite orb_false_r; reflexivity|].
  destruct vs as [|v vr]; [discriminate|]. cbn [zipZ memZ]. cbn [List.length] in Hl.
  rewrite IH by lia. rewrite memk_putZ, (Z.eqb_sym y x), orb_assoc. reflexivity.
Qed.

(* the dictionary the translated index() leaves denotes the model's snapshot: position = lastpos, membership = memZ *)
Lemma cache_lookup s x :
  index_sem (enc_cache (Some s)) (VStr x)
  = match lastpos x s with Some n => Ok (VInt (Z.of_nat n)) | None => Err 3 end.
Proof.
  cbn [enc_cache]. rewrite snap_dict_enc, index_encd, getZ_zip_range.
  destruct (lastpos x s); reflexivity.
Qed.

Lemma cache_member s x :
  existsb (fun p => py_eq (fst p) (VStr x)) (snap_dict s) = memZ x s.
Proof.
  rewrite snap_dict_enc, keyin_encd, memk_zip by apply range_list_length. reflexivity.
Qed.

(* registering one more ID: d[x] = len(s) on the snapshot dictionary of s is the snapshot dictionary of s ++ [x] *)
Lemma range_list_snoc n : forall from, range_list (S n) from = range_list n from ++ [VInt (from + Z.of_nat n)].
Proof.
  induction n as [|n IH]; intro from.
  - cbn. rewrite Z.add_0_r. reflexivity.
  - replace (range_list (S (S n)) from) with (VInt from :: range_list (S n) (from + 1)) by reflexivity.
    rewrite IH. cbn [range_list app].
    assert (E : from + 1 + Z.of_nat n = from + Z.of_nat (S n)) by lia. rewrite E. reflexivity.
Qed.

Lemma dict_zip_snoc ks : forall vs d k v, List.length vs = List.length ks ->
  dict_zip (ks ++ [k]) (vs ++ [v]) d = dict_put (dict_zip ks vs d) k v.
Proof.
  induction ks as [|a r IH]; intros vs d k v Hl.
  - destruct vs; [reflexivity|discriminate].
  - destruct vs as [|b vr]; [discriminate|]. cbn [app dict_zip]. apply IH. cbn in Hl. lia.
Qed.

Lemma snap_dict_push s x :
  dict_put (snap_dict s) (VStr x) (VInt (Z.of_nat (List.length s))) = snap_dict (s ++ [x]).
Proof.
  unfold snap_dict. rewrite app_length. cbn [List.length]. rewrite Nat.add_1_r, range_list_snoc, map_app.
  cbn [map]. rewrite dict_zip_snoc by (rewrite range_list_length, map_length; reflexivity).
  rewrite Z.add_0_l. reflexivity.
Qed.

Lemma set_index_dict d k v : set_index (VDict d) k v = Ok (VDict (dict_put d k v)).
Proof.
  unfold set_index. do 2 f_equal. induction d as [|[a w] r IH]; [reflexivity|].
  cbn [dict_put]. destruct (py_eq a k); [reflexivity|]. f_equal. exact IH.
Qed.

(* Counter(ids).items(): pairs of a string token and a count *)
Definition itemZ (p : Z * Z) : val := VTuple [VStr (fst p); VInt (snd p)].

Lemma count_items_str ids : exists its : list (Z * Z), count_items (map VStr ids) = map itemZ its.
Proof.
  unfold count_items, count_pairs.
  assert (G : forall its0 : list (Z * Z), exists its : list (Z * Z),
             fold_left count_bump (map VStr ids) (map (fun p => (VStr (fst p), snd p)) its0)
             = map (fun p => (VStr (fst p), snd p)) its).
  { induction ids as [|x r IH]; intro its0; [exists its0; reflexivity|].
    cbn [map fold_left].
    assert (B : exists its1 : list (Z * Z),
               count_bump (map (fun p => (VStr (fst p), snd p)) its0) (VStr x)
               = map (fun p => (VStr (fst p), snd p)) its1).
    { clear. induction its0 as [|[a c] t IH]; [exists [(x, 1)]; reflexivity|].
      cbn [map fst snd count_bump py_eq as_num]. destruct (a =? x).
      - exists ((a, c + 1) :: t). reflexivity.
      - destruct IH as [t' Ht]. exists ((a, c) :: t'). cbn [map fst snd]. rewrite Ht. reflexivity. }
    destruct B as [its1 B]. rewrite B. apply IH. }
  destruct (G []) as [its Hits]. cbn [map] in Hits. exists its. rewrite Hits, map_map. reflexivity.
Qed.

(* ================= symbolic execution of the translated index() ================= *)

Lemma hashable_strs ids : forallb hashable (map VStr ids) = true.
Proof. induction ids; [reflexivity|exact IHids]. Qed.

Lemma to_nat_lenZ_strs ids : Z.to_nat (lenZ (map VStr ids)) = List.length ids.
Proof. unfold lenZ. rewrite map_length. apply Nat2Z.id. Qed.

(* the first for loop of a statement, and the statement with that loop's body replaced *)
Fixpoint find_for (s : stmt) : option stmt :=
  match s with
  | SFor _ _ b => Some b
  | SSeq a b | SIf _ a b => match find_for a with Some r => Some r | None => find_for b end
  | _ => None
  end.
Fixpoint with_for (s nb : stmt) : stmt :=
  match s with
  | SFor x it _ => SFor x it nb
  | SSeq a b => match find_for a with Some _ => SSeq (with_for a nb) b | None => SSeq a (with_for b nb) end
  | SIf c a b => match find_for a with Some _ => SIf c (with_for a nb) b | None => SIf c a (with_for b nb) end
  | s' => s'
  end.
Definition body_of (s : stmt) : stmt := match find_for s with Some b => b | None => SSkip end.

(* the two axis blocks of each index(), and their duplicate-collecting loops *)
Definition gblk1 : stmt := Eval cbv in match fbody src_geno_index with SSeq a _ => a | _ => SSkip end.
Definition gblk2 : stmt := Eval cbv in match fbody src_geno_index with SSeq _ b => b | _ => SSkip end.
Definition pblk1 : stmt := Eval cbv in match fbody src_pheno_index with SSeq a _ => a | _ => SSkip end.
Definition pblk2 : stmt := Eval cbv in match fbody src_pheno_index with SSeq _ b => b | _ => SSkip end.
Definition gbody1 : stmt := Eval cbv in body_of gblk1.
Definition gbody2 : stmt := Eval cbv in body_of gblk2.
Definition pbody1 : stmt := Eval cbv in body_of pblk1.
Definition pbody2 : stmt := Eval cbv in body_of pblk2.

Lemma geno_shape : fbody src_geno_index = SSeq (with_for gblk1 gbody1) (with_for gblk2 gbody2).
Proof. reflexivity. Qed.
Lemma pheno_shape : fbody src_pheno_index = SSeq (with_for pblk1 pbody1) (with_for pblk2 pbody2).
Proof. reflexivity. Qed.
Arguments gbody1 : simpl never.
Arguments gbody2 : simpl never.
Arguments pbody1 : simpl never.
Arguments pbody2 : simpl never.

(* environments of fixed shape: the seven parameters, then the ten locals in the translator's order *)
Definition genv (p0 p1 p2 p3 p4 p5 p6 l0 l1 l2 l3 l4 l5 l6 l7 l8 l9 : val) : env :=
  [("samples", p0); ("variants", p1); ("self__samp_idx", p2); ("self__var_idx", p3); ("self_samples", p4);
   ("self_variants_id", p5); ("$raised", p6);
   ("duplicates", l0); ("_c1", l1); ("_c2", l2); ("_c3", l3); ("a_few", l4); ("_c4", l5); ("_c5", l6); ("_c6", l7);
   ("_t1", l8); ("_t2", l9)].
Definition penv (p0 p1 p2 p3 p4 p5 p6 l0 l1 l2 l3 l4 l5 l6 l7 l8 l9 : val) : env :=
  [("samples", p0); ("names", p1); ("self__samp_idx", p2); ("self__name_idx", p3); ("self_samples", p4);
   ("self_names", p5); ("$raised", p6);
   ("duplicates", l0); ("_c1", l1); ("_c2", l2); ("_c3", l3); ("a_few", l4); ("_c4", l5); ("_c5", l6); ("_c6", l7);
   ("_t1", l8); ("_t2", l9)].

Ltac loop_tac its IH :=
  induction its as [|[k c] its IH]; intros;
  [ do 4 eexists; reflexivity
  | cbn [map for_loop]; unfold itemZ at 1; cbn [fst snd];
    match goal with |- context [exec _ ?b _ _] => unfold b end;
    cbn -[for_loop itemZ]; destruct (1 <? c); cbn -[for_loop itemZ]; apply IH ].

Lemma gloop1 fuel its : forall p0 p1 p2 p3 p4 p5 p6 l0 a l2 l3 l4 l5 l6 l7 l8 l9,
  exists a' l2' l3' l8',
  for_loop (exec ft_empty gbody1 fuel) "_t1" (map itemZ its)
           (genv p0 p1 p2 p3 p4 p5 p6 l0 (VList a) l2 l3 l4 l5 l6 l7 l8 l9)
  = ONorm (genv p0 p1 p2 p3 p4 p5 p6 l0 (VList a') l2' l3' l4 l5 l6 l7 l8' l9).
Proof. loop_tac its IH. Qed.

Lemma gloop2 fuel its : forall p0 p1 p2 p3 p4 p5 p6 l0 l1 l2 l3 l4 a l6 l7 l8 l9,
  exists a' l6' l7' l9',
  for_loop (exec ft_empty gbody2 fuel) "_t2" (map itemZ its)
           (genv p0 p1 p2 p3 p4 p5 p6 l0 l1 l2 l3 l4 (VList a) l6 l7 l8 l9)
  = ONorm (genv p0 p1 p2 p3 p4 p5 p6 l0 l1 l2 l3 l4 (VList a') l6' l7' l8 l9').
Proof. loop_tac its IH. Qed.

Lemma ploop1 fuel its : forall p0 p1 p2 p3 p4 p5 p6 l0 a l2 l3 l4 l5 l6 l7 l8 l9,
  exists a' l2' l3' l8',
  for_loop (exec ft_empty pbody1 fuel) "_t1" (map itemZ its)
           (penv p0 p1 p2 p3 p4 p5 p6 l0 (VList a) l2 l3 l4 l5 l6 l7 l8 l9)
  = ONorm (penv p0 p1 p2 p3 p4 p5 p6 l0 (VList a') l2' l3' l4 l5 l6 l7 l8' l9).
Proof. loop_tac its IH. Qed.

Lemma ploop2 fuel its : forall p0 p1 p2 p3 p4 p5 p6 l0 l1 l2 l3 l4 a l6 l7 l8 l9,
  exists a' l6' l7' l9',
  for_loop (exec ft_empty pbody2 fuel) "_t2" (map itemZ its)
           (penv p0 p1 p2 p3 p4 p5 p6 l0 l1 l2 l3 l4 (VList a) l6 l7 l8 l9)
  = ONorm (penv p0 p1 p2 p3 p4 p5 p6 l0 l1 l2 l3 l4 (VList a') l6' l7' l8 l9').
Proof. loop_tac its IH. Qed.

(* one axis block: `if <flag> and <cache> is None: <cache> = dict(zip(ids, range(len(ids)))); if len(<cache>) <
   len(ids): <cache> = None; ...; raise ValueError`.  [ensure] is C12_Model's index-building step. *)
Notation ensure := (C12_Model.ensure).

Ltac blk_main loop fuel :=
  cbn -[lenZ range_list dict_zip count_items for_loop Z.to_nat snap_dict nodupZ Z.ltb];
  rewrite ?hashable_strs, ?to_nat_lenZ_strs;
  match goal with |- context [dict_zip (map VStr ?i) _ []] => fold (snap_dict i) end;
  cbn -[lenZ range_list dict_zip count_items for_loop Z.to_nat snap_dict nodupZ Z.ltb];
  rewrite snap_dict_short;
  match goal with |- context [nodupZ ?i] => destruct (nodupZ i) end;
  cbn -[lenZ count_items for_loop snap_dict];
  [ reflexivity | ];
  rewrite ?hashable_strs;
  match goal with |- context [count_items (map VStr ?i)] =>
    let its := fresh "its" in let H := fresh "H" in destruct (count_items_str i) as [its H]; rewrite H;
    cbn -[lenZ for_loop];
    let a := fresh "a" in let x := fresh "x" in let y := fresh "y" in let z := fresh "z" in let L := fresh "L" in
    edestruct (loop fuel its) as (a & x & y & z & L);
    unfold genv, penv in L; rewrite L; clear L
  end;
  cbn -[lenZ slice_list Z.ltb];
  match goal with |- context [5 <? ?n] => destruct (5 <? n) end;
  cbn -[lenZ slice_list]; do 10 eexists; reflexivity.

Ltac blk_tac loop :=
  intros;
  match goal with |- context [exec _ _ ?fuel _] =>
  match goal with |- context [ensure ?b ?c ?ids] =>
    destruct b;
    [ destruct c as [s|];
      [ cbn [ensure enc_cache]; match goal with |- context [enc_ids ?t _] => destruct t end;
        cbn -[snap_dict]; reflexivity
      | match goal with |- context [enc_ids ?t _] => destruct t end; cbn [ensure enc_cache enc_ids];
        blk_main loop fuel ]
    | cbn [ensure]; match goal with |- context [enc_ids ?t _] => destruct t end; destruct c;
      cbn -[snap_dict]; reflexivity ]
  end end.

Lemma gblk1_exec fuel b1 c1 tup ids p1 p3 p5 l0 l1 l2 l3 l4 l5 l6 l7 l8 l9 :
  match ensure b1 c1 ids with
  | Ok c1' =>
      exec ft_empty (with_for gblk1 gbody1) fuel
           (genv (VBool b1) p1 (enc_cache c1) p3 (enc_ids tup ids) p5 VNone l0 l1 l2 l3 l4 l5 l6 l7 l8 l9)
      = ONorm (genv (VBool b1) p1 (enc_cache c1') p3 (enc_ids tup ids) p5 VNone l0 l1 l2 l3 l4 l5 l6 l7 l8 l9)
  | Err _ =>
      exists l0' l1' l2' l3' l4' l5' l6' l7' l8' l9',
      exec ft_empty (with_for gblk1 gbody1) fuel
           (genv (VBool b1) p1 (enc_cache c1) p3 (enc_ids tup ids) p5 VNone l0 l1 l2 l3 l4 l5 l6 l7 l8 l9)
      = ORet VNone (genv (VBool b1) p1 VNone p3 (enc_ids tup ids) p5 (VInt 1) l0' l1' l2' l3' l4' l5' l6' l7' l8' l9')
  end.
Proof. blk_tac gloop1. Qed.

Lemma gblk2_exec fuel b2 c2 tup ids p0 p2 p4 l0 l1 l2 l3 l4 l5 l6 l7 l8 l9 :
  match ensure b2 c2 ids with
  | Ok c2' =>
      exec ft_empty (with_for gblk2 gbody2) fuel
           (genv p0 (VBool b2) p2 (enc_cache c2) p4 (enc_ids tup ids) VNone l0 l1 l2 l3 l4 l5 l6 l7 l8 l9)
      = ONorm (genv p0 (VBool b2) p2 (enc_cache c2') p4 (enc_ids tup ids) VNone l0 l1 l2 l3 l4 l5 l6 l7 l8 l9)
  | Err _ =>
      exists l0' l1' l2' l3' l4' l5' l6' l7' l8' l9',
      exec ft_empty (with_for gblk2 gbody2) fuel
           (genv p0 (VBool b2) p2 (enc_cache c2) p4 (enc_ids tup ids) VNone l0 l1 l2 l3 l4 l5 l6 l7 l8 l9)
      = ORet VNone (genv p0 (VBool b2) p2 VNone p4 (enc_ids tup ids) (VInt 1) l0' l1' l2' l3' l4' l5' l6' l7' l8' l9')
  end.
Proof. blk_tac gloop2. Qed.

Lemma pblk1_exec fuel b1 c1 tup ids p1 p3 p5 l0 l1 l2 l3 l4 l5 l6 l7 l8 l9 :
  match ensure b1 c1 ids with
  | Ok c1' =>
      exec ft_empty (with_for pblk1 pbody1) fuel
           (penv (VBool b1) p1 (enc_cache c1) p3 (enc_ids tup ids) p5 VNone l0 l1 l2 l3 l4 l5 l6 l7 l8 l9)
      = ONorm (penv (VBool b1) p1 (enc_cache c1') p3 (enc_ids tup ids) p5 VNone l0 l1 l2 l3 l4 l5 l6 l7 l8 l9)
  | Err _ =>
      exists l0' l1' l2' l3' l4' l5' l6' l7' l8' l9',
      exec ft_empty (with_for pblk1 pbody1) fuel
           (penv (VBool b1) p1 (enc_cache c1) p3 (enc_ids tup ids) p5 VNone l0 l1 l2 l3 l4 l5 l6 l7 l8 l9)
      = ORet VNone (penv (VBool b1) p1 VNone p3 (enc_ids tup ids) p5 (VInt 1) l0' l1' l2' l3' l4' l5' l6' l7' l8' l9')
  end.
Proof. blk_tac ploop1. Qed.

Lemma pblk2_exec fuel b2 c2 tup ids p0 p2 p4 l0 l1 l2 l3 l4 l5 l6 l7 l8 l9 :
  match ensure b2 c2 ids with
  | Ok c2' =>
      exec ft_empty (with_for pblk2 pbody2) fuel
           (penv p0 (VBool b2) p2 (enc_cache c2) p4 (enc_ids tup ids) VNone l0 l1 l2 l3 l4 l5 l6 l7 l8 l9)
      = ONorm (penv p0 (VBool b2) p2 (enc_cache c2') p4 (enc_ids tup ids) VNone l0 l1 l2 l3 l4 l5 l6 l7 l8 l9)
  | Err _ =>
      exists l0' l1' l2' l3' l4' l5' l6' l7' l8' l9',
      exec ft_empty (with_for pblk2 pbody2) fuel
           (penv p0 (VBool b2) p2 (enc_cache c2) p4 (enc_ids tup ids) VNone l0 l1 l2 l3 l4 l5 l6 l7 l8 l9)
      = ORet VNone (penv p0 (VBool b2) p2 VNone p4 (enc_ids tup ids) (VInt 1) l0' l1' l2' l3' l4' l5' l6' l7' l8' l9')
  end.
Proof. blk_tac ploop2. Qed.

(* ensure only ever fails with ValueError *)
Lemma ensure_err b c ids k : ensure b c ids = Err k -> k = 1.
Proof.
  unfold C12_Model.ensure. destruct b; [|discriminate]. destruct c; [discriminate|].
  destruct (nodupZ ids); [discriminate|]. intro H. inversion H. reflexivity.
Qed.

(* the hand model's index step on (ids1, ids2), spelled out *)
Lemma index_model_unfold b1 b2 c1 c2 ids1 ids2 :
  index_model b1 b2 c1 c2 ids1 ids2
  = match ensure b1 c1 ids1 with
    | Err k => (mko (ids1, ids2) None c2, Err k)
    | Ok c1' => match ensure b2 c2 ids2 with
                | Err k => (mko (ids1, ids2) c1' None, Err k)
                | Ok c2' => (mko (ids1, ids2) c1' c2', Ok ONone)
                end
    end.
Proof.
  unfold index_model, m_stepx, m_step, fail_obj, idx_fail. cbn [o_tab o_c1 o_c2 fst snd].
  destruct (ensure b1 c1 ids1) as [c1'|k1]; cbn [bind]; [|reflexivity].
  destruct (ensure b2 c2 ids2) as [c2'|k2]; reflexivity.
Qed.

Ltac index_tac shape blk1 blk2 envc :=
  intros; rewrite index_model_unfold;
  match goal with |- ?f ?fuel _ = _ => unfold f, run_fun end;
  rewrite shape;
  cbn -[exec with_for ensure enc_cache enc_ids final_params gblk1 gblk2 pblk1 pblk2];
  match goal with |- context [exec _ _ ?fuel ?en] =>
    match goal with |- context [ensure ?b1 ?c1 ?ids1] => match goal with |- context [enc_ids ?t1 ids1] =>
    match goal with |- context [ensure ?b2 ?c2 ?ids2] => match goal with |- context [enc_ids ?t2 ids2] =>
      rewrite exec_seq;
      pose proof (blk1 fuel b1 c1 t1 ids1 (VBool b2) (enc_cache c2) (enc_ids t2 ids2)
                       VUnbound VUnbound VUnbound VUnbound VUnbound VUnbound VUnbound VUnbound VUnbound VUnbound) as B1;
      destruct (ensure b1 c1 ids1) as [c1'|k1] eqn:E1;
      [ unfold envc in B1; rewrite B1; clear B1;
        pose proof (blk2 fuel b2 c2 t2 ids2 (VBool b1) (enc_cache c1') (enc_ids t1 ids1)
                         VUnbound VUnbound VUnbound VUnbound VUnbound VUnbound VUnbound VUnbound VUnbound VUnbound) as B2;
        destruct (ensure b2 c2 ids2) as [c2'|k2] eqn:E2;
        [ unfold envc in B2; rewrite B2; reflexivity
        | destruct B2 as (? & ? & ? & ? & ? & ? & ? & ? & ? & ? & B2); unfold envc in B2; rewrite B2;
          rewrite (ensure_err _ _ _ _ E2); reflexivity ]
      | destruct B1 as (? & ? & ? & ? & ? & ? & ? & ? & ? & ? & B1); unfold envc in B1; rewrite B1;
        rewrite (ensure_err _ _ _ _ E1); reflexivity ]
    end end end end
  end.

(* ---- the translated index() is the hand model's Index step (m_stepx with heal = true) ---- *)
Lemma geno_index_refines fuel b1 b2 c1 c2 t1 t2 ids1 ids2 :
  fn_geno_index fuel [VBool b1; VBool b2; enc_cache c1; enc_cache c2; enc_ids t1 ids1; enc_ids t2 ids2; VNone]
  = let '(o, r) := index_model b1 b2 c1 c2 ids1 ids2 in
    Ok (VNone, [VBool b1; VBool b2; enc_cache (o_c1 o); enc_cache (o_c2 o); enc_ids t1 ids1; enc_ids t2 ids2;
                enc_raised r]).
Proof. index_tac geno_shape gblk1_exec gblk2_exec genv. Qed.

Lemma pheno_index_refines fuel b1 b2 c1 c2 t1 t2 ids1 ids2 :
  fn_pheno_index fuel [VBool b1; VBool b2; enc_cache c1; enc_cache c2; enc_ids t1 ids1; enc_ids t2 ids2; VNone]
  = let '(o, r) := index_model b1 b2 c1 c2 ids1 ids2 in
    Ok (VNone, [VBool b1; VBool b2; enc_cache (o_c1 o); enc_cache (o_c2 o); enc_ids t1 ids1; enc_ids t2 ids2;
                enc_raised r]).
Proof. index_tac pheno_shape pblk1_exec pblk2_exec penv. Qed.

(* ---- the index part of Phenotypes.append ---- *)
Lemma lenZ_strs names : lenZ (map VStr names) = Z.of_nat (List.length names).
Proof. unfold lenZ. rewrite map_length. reflexivity. Qed.

Lemma append_index_refines fuel name c2 names :
  (forall s, c2 = Some s -> s = names) ->
  fn_pheno_append_index fuel [VStr name; enc_cache c2; enc_ids true names]
  = Ok (VNone, [VStr name; enc_cache (apply_act (append_act name names) c2); enc_ids true (names ++ [name])]).
Proof.
  intro V. unfold fn_pheno_append_index, run_fun, append_act. destruct c2 as [s|].
  - rewrite (V s eq_refl). clear V s. cbn [enc_cache enc_ids].
    cbn -[snap_dict lenZ set_index]. rewrite cache_member.
    destruct (memZ name names); cbn -[snap_dict lenZ set_index].
    + rewrite map_app. reflexivity.
    + rewrite set_index_dict. cbn -[snap_dict lenZ]. rewrite lenZ_strs, snap_dict_push, map_app. reflexivity.
  - cbn [enc_cache enc_ids]. cbn. destruct (memZ name names); rewrite map_app; reflexivity.
Qed.

(* ---- C12's invariant restated about the translated code ---- *)
Notation valid := (C12_Proofs.valid).

Lemma id_sub_ids2 : forall s r (t t' : idtab), id_sub s r t = Ok t' -> snd t' = snd t.
Proof. intros s r t t' H. inversion H. reflexivity. Qed.
Lemma id_sub_ids1 : forall s r (t t' : idtab), id_sub s r t = Ok t' -> fst t' = fst t.
Proof. intros s r t t' H. inversion H. reflexivity. Qed.

Lemma index_model_valid b1 b2 c1 c2 ids1 ids2 :
  valid c1 ids1 -> valid c2 ids2 ->
  let '(o, r) := index_model b1 b2 c1 c2 ids1 ids2 in
  valid (o_c1 o) ids1 /\ valid (o_c2 o) ids2
  /\ (r = Ok ONone \/ r = Err 1)
  /\ (r = Ok ONone -> (b1 = true -> o_c1 o = Some ids1) /\ (b2 = true -> o_c2 o = Some ids2))
  /\ (r = Err 1 <-> (b1 = true /\ nodupZ ids1 = false) \/ (b2 = true /\ nodupZ ids2 = false)).
Proof.
  intros V1 V2.
  pose proof (stepx_refines idtab unit fst snd id_sub id_sub id_sub_ids2 id_sub_ids1
                (mko (ids1, ids2) c1 c2) (Index b1 b2) (conj V1 V2) I) as [HA [W1 W2]].
  fold (index_model b1 b2 c1 c2 ids1 ids2) in HA, W1, W2.
  rewrite index_model_unfold in *.
  unfold a_stepx, a_step, chk in HA. cbn [fst snd o_tab] in HA.
  unfold C12_Model.ensure in *.
  destruct V1 as [->|[-> N1]], V2 as [->|[-> N2]]; destruct b1, b2;
    cbn [andb negb bind fst snd o_tab o_c1 o_c2] in *;
    repeat match goal with
           | H : nodupZ _ = true |- _ => rewrite H in *
           | |- context [nodupZ ?i] => destruct (nodupZ i) eqn:?
           end;
    cbn [andb negb bind fst snd o_tab o_c1 o_c2] in *;
    (split; [assumption|]); (split; [assumption|]);
    (split; [auto|]); (split; [intro R; try discriminate R; split; intro; (reflexivity || discriminate)|]);
    (split; [intro R; try discriminate R; auto|intros [[? ?]|[? ?]]; try discriminate; reflexivity]).
Qed.

Lemma append_valid name c2 names :
  valid c2 names -> valid (apply_act (append_act name names) c2) (names ++ [name]).
Proof.
  intros [->|[-> N]]; unfold append_act; destruct (memZ name names) eqn:M; cbn [apply_act option_map];
    try (left; reflexivity).
  right. split; [reflexivity|]. apply nodupZ_app_fresh; [exact N|].
  intro H. apply memZ_In in H. congruence.
Qed.

(* ================= the theorems ================= *)

(* the dictionary index() builds from a duplicate-free or not duplicate-free ID list answers exactly as the model's
   snapshot does: d[x] is the LAST position of x, KeyError when x is not there; `x in d` is membership *)
Theorem TV_cache_lookup :
  forall s x,
  index_sem (enc_cache (Some s)) (VStr x)
  = match lastpos x s with Some n => Ok (VInt (Z.of_nat n)) | None => Err 3 end.
Proof. exact cache_lookup. Qed.
Print Assumptions TV_cache_lookup.

Theorem TV_cache_member :
  forall s x en,
  eval ft_empty (EIn false (EVar "x") (EVar "d")) (("x", VStr x) :: ("d", enc_cache (Some s)) :: en)
  = Ok (VBool (memZ x s)).
Proof. intros s x en. cbn -[snap_dict]. rewrite cache_member. destruct (memZ x s); reflexivity. Qed.
Print Assumptions TV_cache_member.

(* len(dict(zip(ids, range(len(ids))))) < len(ids) - the test index() makes - is "some ID occurs twice" *)
Theorem TV_duplicate_test :
  forall ids, (lenZ (snap_dict ids) <? lenZ (map VStr ids)) = negb (nodupZ ids).
Proof. exact snap_dict_short. Qed.
Print Assumptions TV_duplicate_test.

(* Genotypes.index(samples=b1, variants=b2): for ALL flags, cache states and ID lists the interpreted code leaves the
   two attributes as C12_Model's Index step does (m_stepx with heal = true: a dictionary in which duplicates were
   found is discarded), and reports ValueError (kind 1) exactly when the model's step raises *)
Theorem TV_geno_index_refines :
  forall fuel b1 b2 c1 c2 t1 t2 ids1 ids2,
  fn_geno_index fuel [VBool b1; VBool b2; enc_cache c1; enc_cache c2; enc_ids t1 ids1; enc_ids t2 ids2; VNone]
  = let '(o, r) := m_stepx idtab unit fst snd id_sub id_sub true (mko (ids1, ids2) c1 c2) (Index b1 b2) in
    Ok (VNone, [VBool b1; VBool b2; enc_cache (o_c1 o); enc_cache (o_c2 o); enc_ids t1 ids1; enc_ids t2 ids2;
                enc_raised r]).
Proof. exact geno_index_refines. Qed.
Print Assumptions TV_geno_index_refines.

Theorem TV_pheno_index_refines :
  forall fuel b1 b2 c1 c2 t1 t2 ids1 ids2,
  fn_pheno_index fuel [VBool b1; VBool b2; enc_cache c1; enc_cache c2; enc_ids t1 ids1; enc_ids t2 ids2; VNone]
  = let '(o, r) := m_stepx idtab unit fst snd id_sub id_sub true (mko (ids1, ids2) c1 c2) (Index b1 b2) in
    Ok (VNone, [VBool b1; VBool b2; enc_cache (o_c1 o); enc_cache (o_c2 o); enc_ids t1 ids1; enc_ids t2 ids2;
                enc_raised r]).
Proof. exact pheno_index_refines. Qed.
Print Assumptions TV_pheno_index_refines.

(* spelled out for one axis, both classes: an absent sample index is built as the snapshot dictionary of a
   duplicate-free ID list; with a duplicate the attribute is None afterwards, ValueError is raised, and the other
   axis has not been touched *)
Theorem TV_index_builds_snapshot :
  forall fuel b2 c2 t1 t2 ids1 ids2, nodupZ ids1 = true ->
  exists c2' r,
    fn_geno_index fuel [VBool true; VBool b2; VNone; enc_cache c2; enc_ids t1 ids1; enc_ids t2 ids2; VNone]
    = Ok (VNone, [VBool true; VBool b2; VDict (snap_dict ids1); enc_cache c2'; enc_ids t1 ids1; enc_ids t2 ids2; r])
    /\ fn_pheno_index fuel [VBool true; VBool b2; VNone; enc_cache c2; enc_ids t1 ids1; enc_ids t2 ids2; VNone]
    = Ok (VNone, [VBool true; VBool b2; VDict (snap_dict ids1); enc_cache c2'; enc_ids t1 ids1; enc_ids t2 ids2; r]).
Proof.
  intros fuel b2 c2 t1 t2 ids1 ids2 N.
  rewrite (geno_index_refines fuel true b2 None c2), (pheno_index_refines fuel true b2 None c2), index_model_unfold.
  assert (E1 : ensure true None ids1 = Ok (Some ids1)) by (unfold C12_Model.ensure; rewrite N; reflexivity).
  rewrite E1.
  destruct (ensure b2 c2 ids2) as [c2'|k]; cbn [o_c1 o_c2 enc_cache enc_raised];
    [exists c2', VNone|exists None, (VInt k)]; split; reflexivity.
Qed.
Print Assumptions TV_index_builds_snapshot.

Theorem TV_index_duplicates_discarded :
  forall fuel b2 c2 t1 t2 ids1 ids2, nodupZ ids1 = false ->
  fn_geno_index fuel [VBool true; VBool b2; VNone; enc_cache c2; enc_ids t1 ids1; enc_ids t2 ids2; VNone]
  = Ok (VNone, [VBool true; VBool b2; VNone; enc_cache c2; enc_ids t1 ids1; enc_ids t2 ids2; VInt 1])
  /\ fn_pheno_index fuel [VBool true; VBool b2; VNone; enc_cache c2; enc_ids t1 ids1; enc_ids t2 ids2; VNone]
  = Ok (VNone, [VBool true; VBool b2; VNone; enc_cache c2; enc_ids t1 ids1; enc_ids t2 ids2; VInt 1]).
Proof.
  intros fuel b2 c2 t1 t2 ids1 ids2 N.
  rewrite (geno_index_refines fuel true b2 None c2), (pheno_index_refines fuel true b2 None c2), index_model_unfold.
  assert (E1 : ensure true None ids1 = Err 1) by (unfold C12_Model.ensure; rewrite N; reflexivity).
  rewrite E1. split; reflexivity.
Qed.
Print Assumptions TV_index_duplicates_discarded.

Theorem TV_index_second_axis_duplicates_discarded :
  forall fuel b1 c1 c1' t1 t2 ids1 ids2, ensure b1 c1 ids1 = Ok c1' -> nodupZ ids2 = false ->
  fn_geno_index fuel [VBool b1; VBool true; enc_cache c1; VNone; enc_ids t1 ids1; enc_ids t2 ids2; VNone]
  = Ok (VNone, [VBool b1; VBool true; enc_cache c1'; VNone; enc_ids t1 ids1; enc_ids t2 ids2; VInt 1])
  /\ fn_pheno_index fuel [VBool b1; VBool true; enc_cache c1; VNone; enc_ids t1 ids1; enc_ids t2 ids2; VNone]
  = Ok (VNone, [VBool b1; VBool true; enc_cache c1'; VNone; enc_ids t1 ids1; enc_ids t2 ids2; VInt 1]).
Proof.
  intros fuel b1 c1 c1' t1 t2 ids1 ids2 E N.
  rewrite (geno_index_refines fuel b1 true c1 None), (pheno_index_refines fuel b1 true c1 None), index_model_unfold, E.
  assert (E2 : ensure true None ids2 = Err 1) by (unfold C12_Model.ensure; rewrite N; reflexivity).
  rewrite E2. split; reflexivity.
Qed.
Print Assumptions TV_index_second_axis_duplicates_discarded.

(* C12_cache_valid_step / C12_stepx_refines for the Index step, restated about the translated code: from valid caches
   (absent, or the current duplicate-free IDs) both classes' index() leave valid caches - also when it raises -, build
   the requested ones when it does not raise, and raise exactly when a requested axis holds an ID twice *)
Theorem TV_index_keeps_cache_valid :
  forall fuel b1 b2 c1 c2 t1 t2 ids1 ids2,
  valid c1 ids1 -> valid c2 ids2 ->
  exists c1' c2' (r : res (out idtab unit)),
    fn_geno_index fuel [VBool b1; VBool b2; enc_cache c1; enc_cache c2; enc_ids t1 ids1; enc_ids t2 ids2; VNone]
    = Ok (VNone, [VBool b1; VBool b2; enc_cache c1'; enc_cache c2'; enc_ids t1 ids1; enc_ids t2 ids2; enc_raised r])
    /\ fn_pheno_index fuel [VBool b1; VBool b2; enc_cache c1; enc_cache c2; enc_ids t1 ids1; enc_ids t2 ids2; VNone]
    = Ok (VNone, [VBool b1; VBool b2; enc_cache c1'; enc_cache c2'; enc_ids t1 ids1; enc_ids t2 ids2; enc_raised r])
    /\ valid c1' ids1 /\ valid c2' ids2
    /\ (r = Ok ONone \/ r = Err 1)
    /\ (r = Ok ONone -> (b1 = true -> c1' = Some ids1) /\ (b2 = true -> c2' = Some ids2))
    /\ (r = Err 1 <-> (b1 = true /\ nodupZ ids1 = false) \/ (b2 = true /\ nodupZ ids2 = false)).
Proof.
  intros fuel b1 b2 c1 c2 t1 t2 ids1 ids2 V1 V2.
  pose proof (index_model_valid b1 b2 c1 c2 ids1 ids2 V1 V2) as H.
  rewrite (geno_index_refines fuel b1 b2 c1 c2), (pheno_index_refines fuel b1 b2 c1 c2).
  destruct (index_model b1 b2 c1 c2 ids1 ids2) as [o r].
  exists (o_c1 o), (o_c2 o), r. split; [reflexivity|]. split; [reflexivity|]. exact H.
Qed.
Print Assumptions TV_index_keeps_cache_valid.

(* the index part of Phenotypes.append(name, ...): when the name cache is absent or the snapshot of the current names
   (cache_valid), the interpreted code applies exactly the model's act - Reset when the name is already there (fix
   8593193), else Push name (the new name is registered at position len(names)) - and appends the name *)
Theorem TV_append_index_refines :
  forall fuel name c2 names,
  (forall s, c2 = Some s -> s = names) ->
  fn_pheno_append_index fuel [VStr name; enc_cache c2; enc_ids true names]
  = Ok (VNone, [VStr name;
                enc_cache (apply_act (if memZ name names then Reset else Push name) c2);
                enc_ids true (names ++ [name])]).
Proof. exact append_index_refines. Qed.
Print Assumptions TV_append_index_refines.

Theorem TV_append_keeps_cache_valid :
  forall fuel name c2 names,
  valid c2 names ->
  exists c2',
    fn_pheno_append_index fuel [VStr name; enc_cache c2; enc_ids true names]
    = Ok (VNone, [VStr name; enc_cache c2'; enc_ids true (names ++ [name])])
    /\ valid c2' (names ++ [name])
    /\ (memZ name names = true -> c2' = None).
Proof.
  intros fuel name c2 names V.
  exists (apply_act (append_act name names) c2). split; [|split].
  - apply append_index_refines. intros s E. destruct V as [V|[V _]]; congruence.
  - apply append_valid. exact V.
  - unfold append_act. intros ->. reflexivity.
Qed.
Print Assumptions TV_append_keeps_cache_valid.

(* the evaluation the tv_index relation performs is an instance: on a fresh object index(True, True) of
   duplicate-free IDs leaves the two snapshot dictionaries *)
Theorem TV_index_example :
  run_index 0 true true VNone VNone false [7; 8; 9] [3; 4]
  = Ok (VDict [(VStr 7, VInt 0); (VStr 8, VInt 1); (VStr 9, VInt 2)], VDict [(VStr 3, VInt 0); (VStr 4, VInt 1)], VNone)
  /\ run_index 1 true true VNone VNone true [7; 8; 7] [3; 4]
  = Ok (VNone, VNone, VInt 1)
  /\ run_append 4 (VDict [(VStr 3, VInt 0); (VStr 4, VInt 1)]) [3; 4] = Ok (VNone, VTuple [VStr 3; VStr 4; VStr 4])
  /\ run_append 5 (VDict [(VStr 3, VInt 0); (VStr 4, VInt 1)]) [3; 4]
     = Ok (VDict [(VStr 3, VInt 0); (VStr 4, VInt 1); (VStr 5, VInt 2)], VTuple [VStr 3; VStr 4; VStr 5]).
Proof. repeat split; vm_compute; reflexivity. Qed.
Print Assumptions TV_index_example.
