(* Translation validation for C14: the MiniPy syntax of sim_genotype._find_coord and
   _find_random_sample, REGENERATED FROM /repo's CURRENT SOURCE on every run
   (HVG.Gen_SimGenotype, written by harness/pytrans.py), denotes exactly the hand-written
   models C14_Model.find_coord / find_random_sample that the C14 theorems are about.
   Compiled per run against the generated module; not part of the static build. *)
From HV Require Import Prelude MiniPy MiniPyFacts Tracts C01_Model C14_Model C14_Check C14_Proofs.
From HVG Require Import Gen_SimGenotype TVM_C14.
From Coq Require Import String.
Open Scope string_scope.
Open Scope Z_scope.


Section Enc.
  (* the encoding of chromosome keys: any injective map into values that are not "unbound" *)
  Variable ec : Z -> val.
  Hypothesis ec_eq : forall a b, py_eq (ec a) (ec b) = (a =? b).
  Hypothesis ec_nu : forall a, ec a <> VUnbound.
  Local Notation enc_ival := (enc_ival_g ec).
  Local Notation enc_used u := (enc_used_g ec u).
  Local Notation enc_hu hu := (enc_hu_g ec hu).

  Lemma nu_read (v : val) : v <> VUnbound ->
    match v with VUnbound => @Err val 6 | _ => Ok v end = Ok v.
  Proof. destruct v; intro H; try reflexivity. exfalso. apply H. reflexivity. Qed.

(* ---- _find_coord ---- *)
Definition fc_body : stmt :=
  Eval cbv in match fbody src__find_coord with
              | SSeq (SIf _ (SFor _ _ b) _) _ => b
              | _ => SSkip
              end.
Definition fc_rest : stmt :=
  Eval cbv in match fbody src__find_coord with SSeq _ r => r | _ => SSkip end.

Lemma fc_shape :
  src__find_coord =
  mkfun ["cur_hap"; "chrom"; "start_coord"; "end_coord"] ["coords"]
    (SSeq (SIf (EVar "cur_hap") (SFor "coords" (EVar "cur_hap") fc_body) SSkip) fc_rest).
Proof. reflexivity. Qed.

Definition fc_env (cur : val) (c a b : Z) (v : val) : env :=
  [("cur_hap", cur); ("chrom", ec c); ("start_coord", VInt a); ("end_coord", VInt b); ("coords", v)].

Lemma fc_step cur c a b u fuel :
  exec ft_empty fc_body fuel (fc_env cur c a b (enc_ival u)) =
  if overlaps false c a b u then ORet (VBool true) (fc_env cur c a b (enc_ival u))
  else ONorm (fc_env cur c a b (enc_ival u)).
Proof.
  destruct u as [[c' s'] e']. unfold overlaps, fc_env, enc_ival_g. cbn.
  rewrite (nu_read (ec c)) by apply ec_nu. cbn. rewrite ec_eq.
  destruct (c =? c'); [|reflexivity]. cbn.
  destruct (s' <=? b); cbn; [|reflexivity].
  destruct (a <=? e'); reflexivity.
Qed.

Arguments fc_body : simpl never.

Lemma fc_loop fuel : forall (l : used) cur c a b v0,
  for_loop (exec ft_empty fc_body fuel) "coords" (map enc_ival l) (fc_env cur c a b v0) =
  if existsb (overlaps false c a b) l
  then ORet (VBool true) (fc_env cur c a b
         (match find (overlaps false c a b) l with Some u => enc_ival u | None => VNone end))
  else ONorm (fc_env cur c a b (match last_opt l with Some u => enc_ival u | None => v0 end)).
Proof.
  induction l as [|u r IH]; intros cur c a b v0.
  - reflexivity.
  - cbn [map for_loop existsb find].
    change (update "coords" (enc_ival u) (fc_env cur c a b v0)) with (fc_env cur c a b (enc_ival u)).
    rewrite fc_step.
    destruct (overlaps false c a b u) eqn:E; cbn [orb].
    + reflexivity.
    + rewrite IH. destruct (existsb (overlaps false c a b) r); [reflexivity|].
      f_equal. f_equal. unfold last_opt. cbn [rev].
      destruct (rev r) eqn:Er; cbn; [reflexivity|reflexivity].
Qed.

Lemma fc_rest_exec (l : used) c a b v fuel :
  exec ft_empty fc_rest fuel (fc_env (enc_used l) c a b v) =
  ORet (VBool false) (fc_env (enc_used (l ++ [(c, a, b)])) c a b v).
Proof.
  unfold fc_rest, fc_env. cbn -[last_opt].
  rewrite (nu_read (ec c)) by apply ec_nu. cbn -[last_opt].
  rewrite map_app. reflexivity.
Qed.

Theorem TVg_find_coord_refines : forall cur c a b fuel,
  fn__find_coord fuel [enc_used cur; ec c; VInt a; VInt b] =
  Ok (VBool (fst (find_coord cur c a b)),
      [enc_used (snd (find_coord cur c a b)); ec c; VInt a; VInt b]).
Proof.
  intros cur c a b fuel. unfold fn__find_coord, run_fun. rewrite fc_shape.
  cbn [fparams flocals fbody bind_params app map].
  change ([("cur_hap", enc_used cur); ("chrom", ec c); ("start_coord", VInt a);
           ("end_coord", VInt b); ("coords", VUnbound)]) with (fc_env (enc_used cur) c a b VUnbound).
  unfold find_coord, find_coord_with.
  cbn [exec].
  assert (Hv : eval ft_empty (EVar "cur_hap") (fc_env (enc_used cur) c a b VUnbound) = Ok (enc_used cur))
    by reflexivity.
  rewrite Hv. cbn [as_seq].
  destruct cur as [|u r].
  - change (truthy (VList (map enc_ival []))) with (Some false). cbv iota.
    rewrite (fc_rest_exec [] c a b VUnbound fuel). reflexivity.
  - change (truthy (VList (map enc_ival (u :: r)))) with (Some true). cbv iota.
    rewrite fc_loop.
    destruct (existsb (overlaps false c a b) (u :: r)).
    + reflexivity.
    + rewrite fc_rest_exec. reflexivity.
Qed.


Definition frs_body : stmt :=
  Eval cbv in match fbody src__find_random_sample with
              | SSeq (SFor _ _ b) _ => b
              | _ => SSkip
              end.

Lemma frs_shape :
  src__find_random_sample =
  mkfun ["samples"; "sample_dict"; "haps_used"; "chrom"; "start_coord"; "end_coord"]
        ["sample"; "haplotype"; "_t1"]
    (SSeq (SFor "sample" (EVar "samples") frs_body) (SRaise 9)).
Proof. reflexivity. Qed.

Definition frs_env (S D : val) (hu : list used) (c a b : Z) (smp hap t1 : val) : env :=
  [("samples", S); ("sample_dict", D); ("haps_used", enc_hu hu); ("chrom", ec c);
   ("start_coord", VInt a); ("end_coord", VInt b); ("sample", smp); ("haplotype", hap); ("_t1", t1)].

Lemma set_nth_enc (hu : list used) i cur cur' : nthZ hu i = Some cur ->
  set_index (enc_hu hu) (VInt i) (enc_used cur') = Ok (enc_hu (set_nth hu (Z.to_nat i) cur')).
Proof.
  intro H. pose proof (nthZ_some_range _ _ _ H) as R.
  rewrite set_index_list by (rewrite lenZ_map; exact R).
  f_equal. f_equal.
  assert (Hn : (Z.to_nat i < List.length hu)%nat) by (unfold lenZ in R; lia).
  revert Hn. generalize (Z.to_nat i). clear.
  induction hu as [|y r IH]; intros n Hn; cbn in Hn; [lia|].
  destruct n as [|n]; [reflexivity|].
  cbn [map firstn skipn app set_nth]. f_equal. apply IH. lia.
Qed.

Lemma set_nth_same (hu : list used) i cur : nthZ hu i = Some cur ->
  set_nth hu (Z.to_nat i) cur = hu.
Proof.
  unfold nthZ. destruct (i <? 0); [discriminate|]. generalize (Z.to_nat i). clear.
  induction hu as [|y r IH]; intros [|n] H; cbn in *; try discriminate.
  - congruence.
  - f_equal. apply IH. exact H.
Qed.

Lemma index_hu hu i : 0 <= i ->
  index_sem (enc_hu hu) (VInt i) =
  match nthZ hu i with Some cur => Ok (enc_used cur) | None => Err 2 end.
Proof.
  intro Hi. rewrite index_list_nonneg by exact Hi. rewrite nthZ_map.
  destruct (nthZ hu i); reflexivity.
Qed.

Definition frs_inner : stmt :=
  Eval cbv in match frs_body with SFor _ _ b => b | _ => SSkip end.

Lemma frs_body_shape : frs_body = SFor "haplotype" (ERange (EInt 2)) frs_inner.
Proof. reflexivity. Qed.

Definition frs_inner_out (hu : list used) (s h c a b : Z) (S D : val) : outcome :=
  match try_hap false hu (s * 2 + h) c a b with
  | None => OErr 2
  | Some (Some hu') => ORet (VTuple [VInt s; VInt h]) (frs_env S D hu' c a b (VInt s) (VInt h) (VBool false))
  | Some None => OCont (frs_env S D hu c a b (VInt s) (VInt h) (VBool true))
  end.

Lemma frs_inner_step S dom hu c a b s h t0 fuel :
  0 <= s -> 0 <= h -> existsb (Z.eqb s) dom = true ->
  exec (ft_0 fuel) frs_inner fuel (frs_env S (iddict dom) hu c a b (VInt s) (VInt h) t0) =
  frs_inner_out hu s h c a b S (iddict dom).
Proof.
  intros Hs Hh Hdom. unfold frs_inner, frs_env, frs_inner_out, try_hap.
  cbn -[index_sem set_index fn__find_coord find_coord_with];
    rewrite ?(nu_read (ec c)) by apply ec_nu; cbn -[index_sem set_index fn__find_coord find_coord_with].
  rewrite index_iddict, Hdom.
  cbn -[index_sem set_index fn__find_coord find_coord_with];
    rewrite ?(nu_read (ec c)) by apply ec_nu; cbn -[index_sem set_index fn__find_coord find_coord_with].
  rewrite index_hu by lia.
  destruct (nthZ hu (s * 2 + h)) as [cur|] eqn:E; rewrite ?E; [|reflexivity].
  cbn -[index_sem set_index fn__find_coord find_coord_with];
    rewrite ?(nu_read (ec c)) by apply ec_nu; cbn -[index_sem set_index fn__find_coord find_coord_with].
  rewrite TVg_find_coord_refines. fold (find_coord cur c a b).
  cbn -[index_sem set_index fn__find_coord find_coord_with find_coord];
    rewrite ?(nu_read (ec c)) by apply ec_nu; cbn -[index_sem set_index fn__find_coord find_coord_with find_coord].
  rewrite (set_nth_enc hu (s * 2 + h) cur _ E).
  cbn -[index_sem set_index fn__find_coord find_coord_with find_coord];
    rewrite ?(nu_read (ec c)) by apply ec_nu; cbn -[index_sem set_index fn__find_coord find_coord_with find_coord].
  unfold find_coord, find_coord_with.
  destruct (existsb (overlaps false c a b) cur); cbn [fst snd truthy].
  - rewrite (set_nth_same hu (s * 2 + h) cur E). reflexivity.
  - reflexivity.
Qed.

Lemma frs_inner_key S dom hu c a b s h t0 fuel :
  existsb (Z.eqb s) dom = false ->
  exec (ft_0 fuel) frs_inner fuel (frs_env S (iddict dom) hu c a b (VInt s) (VInt h) t0) = OErr 3.
Proof.
  intros Hdom. unfold frs_inner, frs_env.
  cbn -[index_sem set_index fn__find_coord find_coord_with];
    rewrite ?(nu_read (ec c)) by apply ec_nu; cbn -[index_sem set_index fn__find_coord find_coord_with].
  rewrite index_iddict, Hdom. reflexivity.
Qed.

Arguments frs_inner : simpl never.

Definition frs_out (hu : list used) (s c a b : Z) (S D : val) : outcome :=
  match try_hap false hu (s * 2 + 0) c a b with
  | None => OErr 2
  | Some (Some hu') => ORet (VTuple [VInt s; VInt 0]) (frs_env S D hu' c a b (VInt s) (VInt 0) (VBool false))
  | Some None =>
      match try_hap false hu (s * 2 + 1) c a b with
      | None => OErr 2
      | Some (Some hu') => ORet (VTuple [VInt s; VInt 1]) (frs_env S D hu' c a b (VInt s) (VInt 1) (VBool false))
      | Some None => ONorm (frs_env S D hu c a b (VInt s) (VInt 1) (VBool true))
      end
  end.

Lemma frs_step S dom hu c a b s hap0 t0 fuel :
  0 <= s -> existsb (Z.eqb s) dom = true ->
  exec (ft_0 fuel) frs_body fuel (frs_env S (iddict dom) hu c a b (VInt s) hap0 t0) =
  frs_out hu s c a b S (iddict dom).
Proof.
  intros Hs Hdom. rewrite frs_body_shape. cbn [exec eval bind as_seq]. cbn [Z.to_nat Pos.to_nat].
  change (range_list (Pos.to_nat 2) 0) with [VInt 0; VInt 1].
  cbn [for_loop].
  change (update "haplotype" (VInt 0) (frs_env S (iddict dom) hu c a b (VInt s) hap0 t0))
    with (frs_env S (iddict dom) hu c a b (VInt s) (VInt 0) t0).
  rewrite frs_inner_step by (try lia; exact Hdom).
  unfold frs_out, frs_inner_out.
  destruct (try_hap false hu (s * 2 + 0) c a b) as [[hu'|]|]; try reflexivity.
  change (update "haplotype" (VInt 1) (frs_env S (iddict dom) hu c a b (VInt s) (VInt 0) (VBool true)))
    with (frs_env S (iddict dom) hu c a b (VInt s) (VInt 1) (VBool true)).
  rewrite frs_inner_step by (try lia; exact Hdom).
  unfold frs_inner_out.
  destruct (try_hap false hu (s * 2 + 1) c a b) as [[hu'|]|]; reflexivity.
Qed.

Lemma frs_step_key S dom hu c a b s hap0 t0 fuel :
  existsb (Z.eqb s) dom = false ->
  exec (ft_0 fuel) frs_body fuel (frs_env S (iddict dom) hu c a b (VInt s) hap0 t0) = OErr 3.
Proof.
  intros Hdom. rewrite frs_body_shape. cbn [exec eval bind as_seq]. cbn [Z.to_nat Pos.to_nat].
  change (range_list (Pos.to_nat 2) 0) with [VInt 0; VInt 1].
  cbn [for_loop].
  change (update "haplotype" (VInt 0) (frs_env S (iddict dom) hu c a b (VInt s) hap0 t0))
    with (frs_env S (iddict dom) hu c a b (VInt s) (VInt 0) t0).
  rewrite frs_inner_key by exact Hdom. reflexivity.
Qed.

Arguments frs_body : simpl never.

Definition frs_params := ["samples"; "sample_dict"; "haps_used"; "chrom"; "start_coord"; "end_coord"].

(* what run_fun makes of the outcome of the sample loop followed by `raise Exception` *)
Definition frs_obs (o : outcome) : res (val * list val) :=
  match o with
  | ONorm _ => Err 9
  | ORet v en => Ok (v, final_params frs_params en)
  | OErr k => Err k
  | _ => Err E_Unsupported
  end.

Definition frs_expected (S D : val) (c a b : Z) (m : res (Z * Z) * list used) : res (val * list val) :=
  match m with
  | (Ok (s, h), hu') => Ok (VTuple [VInt s; VInt h], [S; D; enc_hu hu'; ec c; VInt a; VInt b])
  | (Err k, _) => Err k
  end.

(* names are panel indices: a name is in the dictionary iff it is non-negative *)
Definition names_ok (dom ns : list Z) : Prop :=
  forall s, In s ns -> existsb (Z.eqb s) dom = negb (s <? 0).

Lemma frs_loop S dom c a b fuel : forall ns hu smp hap t1,
  names_ok dom ns ->
  frs_obs (for_loop (exec (ft_0 fuel) frs_body fuel) "sample" (map VInt ns)
             (frs_env S (iddict dom) hu c a b smp hap t1)) =
  frs_expected S (iddict dom) c a b (find_random_sample ns hu c a b).
Proof.
  induction ns as [|s r IH]; intros hu smp hap t1 Hok.
  - reflexivity.
  - cbn [map for_loop]. unfold find_random_sample. cbn [find_random_sample_with].
    change (update "sample" (VInt s) (frs_env S (iddict dom) hu c a b smp hap t1))
      with (frs_env S (iddict dom) hu c a b (VInt s) hap t1).
    pose proof (Hok s (or_introl eq_refl)) as Hs.
    assert (Hr : names_ok dom r) by (intros x Hx; apply Hok; right; exact Hx).
    destruct (s <? 0) eqn:Es; cbn [negb] in Hs.
    + rewrite frs_step_key by exact Hs. reflexivity.
    + apply Z.ltb_ge in Es. rewrite frs_step by assumption. unfold frs_out.
      replace (2 * s) with (s * 2 + 0) by lia. replace (s * 2 + 0 + 1) with (s * 2 + 1) by lia.
      destruct (try_hap false hu (s * 2 + 0) c a b) as [[hu'|]|]; try reflexivity.
      destruct (try_hap false hu (s * 2 + 1) c a b) as [[hu'|]|]; try reflexivity.
      apply IH. exact Hr.
Qed.

Theorem TVg_find_random_sample_refines : forall dom ns hu c a b fuel,
  names_ok dom ns ->
  fn__find_random_sample fuel [VList (map VInt ns); iddict dom; enc_hu hu; ec c; VInt a; VInt b] =
  frs_expected (VList (map VInt ns)) (iddict dom) c a b (find_random_sample ns hu c a b).
Proof.
  intros dom ns hu c a b fuel Hok. unfold fn__find_random_sample, run_fun. rewrite frs_shape.
  cbn [fparams flocals fbody bind_params app map].
  rewrite <- (frs_loop (VList (map VInt ns)) dom c a b fuel ns hu VUnbound VUnbound VUnbound Hok).
  cbn [exec eval read_var lookup String.eqb Ascii.eqb Bool.eqb as_seq]. unfold frs_env.
  destruct (for_loop _ _ _ _); reflexivity.
Qed.


End Enc.

Print Assumptions TVg_find_coord_refines.
Print Assumptions TVg_find_random_sample_refines.

Lemma VInt_eq : forall a b, py_eq (VInt a) (VInt b) = (a =? b). Proof. reflexivity. Qed.
Lemma VInt_nu : forall a, VInt a <> VUnbound. Proof. discriminate. Qed.

Theorem TV_find_coord_refines : forall cur c a b fuel,
  fn__find_coord fuel [enc_used cur; VInt c; VInt a; VInt b] =
  Ok (VBool (fst (find_coord cur c a b)),
      [enc_used (snd (find_coord cur c a b)); VInt c; VInt a; VInt b]).
Proof. exact (TVg_find_coord_refines VInt VInt_eq VInt_nu). Qed.
Print Assumptions TV_find_coord_refines.

Theorem TV_find_random_sample_refines : forall dom ns hu c a b fuel,
  names_ok dom ns ->
  fn__find_random_sample fuel [VList (map VInt ns); iddict dom; enc_hu hu; VInt c; VInt a; VInt b] =
  frs_expected VInt (VList (map VInt ns)) (iddict dom) c a b (find_random_sample ns hu c a b).
Proof. exact (TVg_find_random_sample_refines VInt VInt_eq VInt_nu). Qed.
Print Assumptions TV_find_random_sample_refines.

(* ---- the property, stated about the code as translated ---------------------------- *)

(* a call of the translated _find_coord on a table row that satisfies the invariant
   returns a row that satisfies it: no position of a chromosome is registered twice *)
Theorem TV_find_coord_keeps_disjoint : forall cur c a b fuel,
  Inv cur ->
  exists found cur',
    fn__find_coord fuel [enc_used cur; VInt c; VInt a; VInt b] =
      Ok (VBool found, [enc_used cur'; VInt c; VInt a; VInt b]) /\
    Inv cur' /\ (found = true -> cur' = cur) /\
    (found = false -> cur' = (cur ++ [(c, a, b)])%list /\ existsb (overlaps false c a b) cur = false).
Proof.
  intros cur c a b fuel HI.
  exists (fst (find_coord cur c a b)), (snd (find_coord cur c a b)).
  split; [apply TV_find_coord_refines|]. split; [apply find_coord_inv; exact HI|].
  unfold find_coord, find_coord_with.
  destruct (existsb (overlaps false c a b) cur); cbn [fst snd]; split; intro H;
    try discriminate; auto.
Qed.
Print Assumptions TV_find_coord_keeps_disjoint.

(* the translated _find_random_sample keeps the whole table disjoint, and errors register nothing *)
Theorem TV_find_random_sample_keeps_disjoint : forall dom ns hu c a b fuel,
  names_ok dom ns -> InvAll hu ->
  match fn__find_random_sample fuel [VList (map VInt ns); iddict dom; enc_hu hu; VInt c; VInt a; VInt b] with
  | Ok (r, finals) =>
      exists s h hu', r = VTuple [VInt s; VInt h] /\ In s ns /\ (h = 0 \/ h = 1) /\
        finals = [VList (map VInt ns); iddict dom; enc_hu hu'; VInt c; VInt a; VInt b] /\ InvAll hu' /\
        exists cur, nthZ hu (2 * s + h) = Some cur /\
          hu' = set_nth hu (Z.to_nat (2 * s + h)) (cur ++ [(c, a, b)])%list
  | Err k => fst (find_random_sample ns hu c a b) = Err k
  end.
Proof.
  intros dom ns hu c a b fuel Hn HI.
  rewrite TV_find_random_sample_refines by exact Hn.
  pose proof (frs_inv ns hu c a b HI) as HI'.
  destruct (find_random_sample ns hu c a b) as [[[s h]|k] hu'] eqn:E; cbn [frs_expected fst snd] in *.
  - destruct (frs_ok_spec ns hu c a b s h hu' E) as [Hs [Hh [cur [Hc [_ Hu]]]]].
    exists s, h, hu'. repeat split; auto. exists cur. split; assumption.
  - reflexivity.
Qed.
Print Assumptions TV_find_random_sample_keeps_disjoint.
