(* Translation validation for sim_genotype._convert_haplotype in --no_replacement mode (C14, C03):
   the MiniPy syntax of the function, REGENERATED FROM /repo's CURRENT SOURCE on every run,
   denotes exactly the hand-written model conv_norep (C14_Model) over the chromosome's tracts:
   same ancestry blocks (end, population, reference sample, strand), same exception kind, same
   use of the recorded np.random.shuffle results - with the calls of start_segment and
   _find_random_sample discharged by TV_start_segment_refines / TVg_find_random_sample_refines.
   (The replacement branch - np.random.choice - is validated by the tv_conv relation only.)
   Compiled per run. *)
From HV Require Import Prelude MiniPy MiniPyFacts Tracts C01_Model C14_Model C14_Check C14_Proofs C03_Model C14_CheckConv.
From HVG Require Import Gen_SimGenotype TVM_C01 TV_C01 TVM_C14 TV_C14.
From Coq Require Import String.
Open Scope string_scope.
Open Scope Z_scope.

(* conv_norep as the code behaves for a label whose sample list is present but empty: shuffling an
   empty list draws nothing and _find_random_sample over no samples raises Exception *)
Fixpoint conv_norep_c (npop : Z) (segs : list seg) (c : Z) (start : Z)
    (t : poptab) (hu : list used) (shuf : list (list Z))
  : res (list block * poptab * list used * list (list Z)) :=
  match segs with
  | [] => Ok ([], t, hu, shuf)
  | s :: r =>
    if (pop s <? 0) || (npop <=? pop s) then Err E_Key else
    match pt_get t (pop s) with
    | None | Some [] => Err E_Exception
    | Some _ =>
      match shuf with
      | [] => Err E_Draws
      | perm :: shuf' =>
        let t' := pt_set t (pop s) perm in
        match find_random_sample_with false perm hu c start (endc s) with
        | (Err k, _) => Err k
        | (Ok (smp, h), hu') =>
            bind (conv_norep_c npop r c (endc s + 1) t' hu' shuf')
                 (fun x => let '(bl, t2, hu2, sh2) := x in
                           Ok (mkb (endc s) (pop s) smp h :: bl, t2, hu2, sh2))
        end
      end
    end
  end.

(* ---- pieces of the generated syntax ---- *)
Definition cv_body : stmt := Eval cbv in fbody src__convert_haplotype.
Definition cv_loop : stmt :=
  Eval cbv in match cv_body with
              | SSeq _ (SSeq _ (SSeq _ (SSeq _ (SSeq _ (SSeq _ (SSeq _ (SSeq _ (SSeq (SFor _ _ b) _)))))))) => b
              | _ => SSkip end.
Definition cv_ret : stmt :=
  Eval cbv in match cv_body with
              | SSeq _ (SSeq _ (SSeq _ (SSeq _ (SSeq _ (SSeq _ (SSeq _ (SSeq _ (SSeq _ r)))))))) => r
              | _ => SSkip end.
Definition cv_norep : stmt :=   (* the if no_replacement: ... else: ... statement *)
  Eval cbv in match cv_loop with SSeq _ (SSeq _ (SSeq b _)) => b | _ => SSkip end.
Definition cv_apps : stmt :=
  Eval cbv in match cv_loop with SSeq _ (SSeq _ (SSeq _ r)) => r | _ => SSkip end.
Definition cv_brk : stmt := Eval cbv in match cv_loop with SSeq a _ => a | _ => SSkip end.
Definition cv_pop : stmt := Eval cbv in match cv_loop with SSeq _ (SSeq a _) => a | _ => SSkip end.
Lemma cv_loop_shape : cv_loop = SSeq cv_brk (SSeq cv_pop (SSeq cv_norep cv_apps)).
Proof. reflexivity. Qed.

(* ---- encoders' lookup lemmas ---- *)
Lemma py_eq_label k q : py_eq (label_tok k) (label_tok q) = (k =? q).
Proof.
  change (py_eq (VStr (100 + k)) (VStr (100 + q))) with (100 + k =? 100 + q).
  destruct (k =? q) eqn:E.
  - apply Z.eqb_eq in E. subst. apply Z.eqb_refl.
  - apply Z.eqb_neq in E. apply Z.eqb_neq. lia.
Qed.

Lemma index_pop_sample (t : poptab) q :
  index_sem (enc_pop_sample t) (label_tok q) =
  Ok (VList (map VInt (match pt_get t q with Some l => l | None => [] end))).
Proof.
  unfold enc_pop_sample, index_sem. induction t as [|[k v] r IH]; [reflexivity|].
  cbn [map pt_get fst snd]. rewrite py_eq_label. destruct (k =? q); [reflexivity|exact IH].
Qed.

Lemma set_pop_sample (t : poptab) q perm : pt_get t q <> None ->
  set_index (enc_pop_sample t) (label_tok q) (VList (map VInt perm)) =
  Ok (enc_pop_sample (pt_set t q perm)).
Proof.
  unfold enc_pop_sample, set_index. intro H. f_equal. f_equal.
  induction t as [|[k v] r IH]; [contradiction H; reflexivity|].
  cbn [map pt_get pt_set fst snd] in *. rewrite py_eq_label.
  destruct (k =? q) eqn:E; [reflexivity|]. cbn [map fst snd]. f_equal. apply IH. exact H.
Qed.

Lemma index_pop_dict_from n : forall from q,
  (fix go (d : list (val * val)) : res val :=
     match d with
     | [] => Err 3
     | (k, v) :: r => if py_eq k (VInt q) then Ok v else go r
     end) (map (fun i => (VInt i, label_tok i)) (zrange n from)) =
  if (from <=? q) && (q <? from + Z.of_nat n) then Ok (label_tok q) else Err 3.
Proof.
  induction n as [|n IH]; intros from q.
  - cbn. destruct (from <=? q) eqn:E1; destruct (q <? from + 0) eqn:E2; try reflexivity.
    apply Z.leb_le in E1. apply Z.ltb_lt in E2. lia.
  - cbn [zrange map]. change (py_eq (VInt from) (VInt q)) with (from =? q).
    destruct (from =? q) eqn:E.
    + apply Z.eqb_eq in E. subst.
      assert (H1 : (q <=? q) = true) by (apply Z.leb_refl).
      assert (H2 : (q <? q + Z.of_nat (S n)) = true) by (apply Z.ltb_lt; lia).
      rewrite H1, H2. reflexivity.
    + rewrite IH. apply Z.eqb_neq in E.
      destruct (from + 1 <=? q) eqn:A1; destruct (q <? from + 1 + Z.of_nat n) eqn:A2;
      destruct (from <=? q) eqn:B1; destruct (q <? from + Z.of_nat (S n)) eqn:B2; cbn [andb]; try reflexivity;
      repeat match goal with
             | H : (_ <=? _) = true |- _ => apply Z.leb_le in H
             | H : (_ <=? _) = false |- _ => apply Z.leb_gt in H
             | H : (_ <? _) = true |- _ => apply Z.ltb_lt in H
             | H : (_ <? _) = false |- _ => apply Z.ltb_ge in H
             end; lia.
Qed.

Lemma index_pop_dict npop q : 0 <= npop ->
  index_sem (enc_pop_dict npop) (VInt q) =
  if (q <? 0) || (npop <=? q) then Err 3 else Ok (label_tok q).
Proof.
  intro Hn. unfold enc_pop_dict, index_sem. rewrite index_pop_dict_from.
  rewrite Z2Nat.id by exact Hn.
  destruct (q <? 0) eqn:A; destruct (npop <=? q) eqn:B; destruct (0 <=? q) eqn:C; destruct (q <? 0 + npop) eqn:D;
    cbn [andb orb]; try reflexivity;
    repeat match goal with
           | H : (_ <=? _) = true |- _ => apply Z.leb_le in H
           | H : (_ <=? _) = false |- _ => apply Z.leb_gt in H
           | H : (_ <? _) = true |- _ => apply Z.ltb_lt in H
           | H : (_ <? _) = false |- _ => apply Z.ltb_ge in H
           end; lia.
Qed.

Lemma index_pop_dict' npop q : 0 <= npop ->
  index_sem (VDict (map (fun i => (VInt i, label_tok i)) (zrange (Z.to_nat npop) 0))) (VInt q) =
  if (q <? 0) || (npop <=? q) then Err 3 else Ok (label_tok q).
Proof. exact (index_pop_dict npop q). Qed.
Lemma index_pop_sample' (t : poptab) q :
  index_sem (VDDict (map (fun kv : Z * list Z => (label_tok (fst kv), VList (map VInt (snd kv)))) t)) (label_tok q) =
  Ok (VList (map VInt (match pt_get t q with Some l => l | None => [] end))).
Proof. exact (index_pop_sample t q). Qed.
Lemma set_pop_sample' (t : poptab) q perm : pt_get t q <> None ->
  set_index (VDDict (map (fun kv : Z * list Z => (label_tok (fst kv), VList (map VInt (snd kv)))) t)) (label_tok q)
            (VList (map VInt perm)) =
  Ok (VDDict (map (fun kv : Z * list Z => (label_tok (fst kv), VList (map VInt (snd kv)))) (pt_set t q perm))).
Proof. exact (set_pop_sample t q perm). Qed.

Lemma reg_eq : forall a b, py_eq (enc_chrom_reg a) (enc_chrom_reg b) = (a =? b).
Proof.
  intros a b. unfold enc_chrom_reg.
  destruct (a =? 23) eqn:A; destruct (b =? 23) eqn:B; cbn.
  - apply Z.eqb_eq in A, B. subst. reflexivity.
  - apply Z.eqb_eq in A. apply Z.eqb_neq in B. subst. symmetry. apply Z.eqb_neq. congruence.
  - apply Z.eqb_neq in A. apply Z.eqb_eq in B. subst. symmetry. apply Z.eqb_neq. exact A.
  - reflexivity.
Qed.
Lemma reg_nu : forall a, enc_chrom_reg a <> VUnbound.
Proof. intro a. unfold enc_chrom_reg. destruct (a =? 23); discriminate. Qed.

Section Conv.
  Variables (hap : list seg) (c npop : Z) (dom : list Z) (fuel : nat).
  Hypothesis Hnpop : 0 <= npop.
  Variable nr : bool.
  Variables (SI SS : val).   (* hap_start_ind, hap_subset: not read inside the loop *)

  Notation zl l := (VList (map VInt l)).

  Record acc := mkacc { a_pos : list Z; a_pops : list Z; a_inds : list Z; a_smp : list Z; a_sind : list Z }.

  Definition cvenv (t : poptab) (hu : list used) (shuf : list (list Z)) (ch : list Z) (A : acc)
      (jseg jpop jname jind jt1 jt2 : val) : env :=
    [("haplotype", enc_segs hap); ("chrom", enc_chrom_reg c); ("pop_dict", enc_pop_dict npop);
     ("pop_sample", enc_pop_sample t); ("sample_dict", iddict dom); ("haps_used", enc_hu_g enc_chrom_reg hu);
     ("no_replacement", VBool nr);
     ("$shuffles", VList (map (fun p => zl p) shuf)); ("$choices", zl ch);
     ("hap_start_ind", SI); ("hap_subset", SS);
     ("hap_pos", zl (a_pos A)); ("hap_pops", zl (a_pops A)); ("hap_inds", zl (a_inds A));
     ("hap_samples", zl (a_smp A)); ("hap_samples_ind", zl (a_sind A));
     ("segment", jseg); ("population", jpop); ("sample_name", jname); ("hap_ind", jind);
     ("_t1", jt1); ("_t2", jt2)].

  Lemma toint_chrom : (match enc_chrom_reg c with
                       | VInt z | VNumStr z => @Ok val (VInt z)
                       | VBool b => Ok (VInt (if b then 1 else 0))
                       | VStr _ => Err 1
                       | _ => Err 4
                       end) = Ok (VInt c).
  Proof.
    unfold enc_chrom_reg. destruct (c =? 23) eqn:E; [|reflexivity].
    apply Z.eqb_eq in E. subst. reflexivity.
  Qed.

  Lemma cv_brk_step t hu shuf ch A s jpop jname jind jt1 jt2 :
    exec (ft_4 fuel) cv_brk fuel (cvenv t hu shuf ch A (enc_seg s) jpop jname jind jt1 jt2) =
    if chrom s =? c then ONorm (cvenv t hu shuf ch A (enc_seg s) jpop jname jind jt1 jt2)
    else OBrk (cvenv t hu shuf ch A (enc_seg s) jpop jname jind jt1 jt2).
  Proof.
    unfold cv_brk, cvenv, enc_seg.
    cbn -[index_sem enc_chrom_reg].
    rewrite (nu_read (enc_chrom_reg c)) by apply reg_nu.
    cbn -[index_sem enc_chrom_reg]. rewrite toint_chrom.
    cbn -[index_sem enc_chrom_reg].
    destruct (chrom s =? c); reflexivity.
  Qed.

  Lemma cv_pop_step t hu shuf ch A s jpop jname jind jt1 jt2 :
    exec (ft_4 fuel) cv_pop fuel (cvenv t hu shuf ch A (enc_seg s) jpop jname jind jt1 jt2) =
    if (pop s <? 0) || (npop <=? pop s) then OErr 3
    else ONorm (cvenv t hu shuf ch A (enc_seg s) (label_tok (pop s)) jname jind jt1 jt2).
  Proof.
    unfold cv_pop, cvenv, enc_seg, enc_pop_dict.
    cbn -[index_sem enc_chrom_reg Z.add].
    rewrite index_pop_dict' by exact Hnpop.
    destruct ((pop s <? 0) || (npop <=? pop s)); reflexivity.
  Qed.

  Definition startof (P : list Z) : Z := match last_opt P with None => 0 | Some e => e + 1 end.

  Lemma index_last_z (l : list Z) :
    index_sem (zl l) (VInt (-1)) = match last_opt l with Some x => Ok (VInt x) | None => Err 2 end.
  Proof.
    unfold index_sem. cbn [as_seq]. change (-1 <? 0) with true. cbv iota.
    rewrite nth_z_nthZ, lenZ_map, nthZ_map. unfold nthZ, lenZ, last_opt.
    destruct l as [|x r] using rev_ind; [reflexivity|].
    rewrite rev_app_distr. cbn [rev app]. rewrite app_length. cbn [List.length].
    assert (E : (-1 + Z.of_nat (List.length r + 1) <? 0) = false) by (apply Z.ltb_ge; lia).
    rewrite E. replace (Z.to_nat (-1 + Z.of_nat (List.length r + 1))) with (List.length r) by lia.
    rewrite nth_error_app2 by lia. rewrite Nat.sub_diag. reflexivity.
  Qed.

  Lemma truthy_zl (l : list Z) :
    truthy (zl l) = Some (match last_opt l with Some _ => true | None => false end).
  Proof.
    unfold last_opt. destruct l as [|x r] using rev_ind; [reflexivity|].
    rewrite rev_app_distr, map_app. cbn. destruct (map VInt r); reflexivity.
  Qed.

  Definition with_inds (A : acc) (h : Z) : acc :=
    mkacc (a_pos A) (a_pops A) (a_inds A ++ [h]) (a_smp A) (a_sind A).

  (* the no_replacement branch of one loop iteration *)
  Definition norep_out (t : poptab) (hu : list used) (shuf : list (list Z)) (ch : list Z) (A : acc)
      (s : seg) (q : Z) (jt1 jt2 : val) : outcome :=
    match pt_get t q with
    | None | Some [] => OErr 9
    | Some _ =>
      match shuf with
      | [] => OErr 98
      | perm :: shuf' =>
        match find_random_sample perm hu c (startof (a_pos A)) (endc s) with
        | (Err k, _) => OErr k
        | (Ok (smp, h), hu') =>
            ONorm (cvenv (pt_set t q perm) hu' shuf' ch (with_inds A h) (enc_seg s) (label_tok q)
                     (VInt smp) (VInt h)
                     (match last_opt (a_pos A) with None => VTuple [VInt smp; VInt h] | Some _ => jt1 end)
                     (match last_opt (a_pos A) with None => jt2 | Some _ => VTuple [VInt smp; VInt h] end))
        end
      end
    end.

  Definition cv_shuf : stmt :=
    Eval cbv in match cv_norep with SIf _ (SSeq a _) _ => a | _ => SSkip end.
  Definition cv_first : stmt :=
    Eval cbv in match cv_norep with SIf _ (SSeq _ (SSeq a _)) _ => a | _ => SSkip end.
  Definition cv_appinds : stmt :=
    Eval cbv in match cv_norep with SIf _ (SSeq _ (SSeq _ a)) _ => a | _ => SSkip end.
  Definition cv_choice : stmt :=
    Eval cbv in match cv_norep with SIf _ _ a => a | _ => SSkip end.
  Lemma cv_norep_shape :
    cv_norep = SIf (EVar "no_replacement") (SSeq cv_shuf (SSeq cv_first cv_appinds)) cv_choice.
  Proof. reflexivity. Qed.

  Definition lst_of (t : poptab) (q : Z) : list Z := match pt_get t q with Some l => l | None => [] end.

  Lemma cv_shuf_step t hu shuf ch A jseg q jname jind jt1 jt2 :
    exec (ft_4 fuel) cv_shuf fuel (cvenv t hu shuf ch A jseg (label_tok q) jname jind jt1 jt2) =
    match lst_of t q with
    | [] => ONorm (cvenv t hu shuf ch A jseg (label_tok q) jname jind jt1 jt2)
    | _ :: _ =>
        match shuf with
        | [] => OErr 98
        | perm :: shuf' => ONorm (cvenv (pt_set t q perm) hu shuf' ch A jseg (label_tok q) jname jind jt1 jt2)
        end
    end.
  Proof.
    unfold cv_shuf, cvenv, enc_pop_sample, lst_of.
    cbn -[index_sem set_index enc_chrom_reg Z.add].
    rewrite index_pop_sample'.
    destruct (pt_get t q) as [[|x l]|] eqn:Et; cbn -[index_sem set_index enc_chrom_reg Z.add]; try reflexivity.
    destruct shuf as [|perm shuf']; cbn -[index_sem set_index enc_chrom_reg Z.add]; [reflexivity|].
    rewrite set_pop_sample' by congruence. reflexivity.
  Qed.

  Lemma frs_call ns hu a b :
    names_ok dom ns ->
    fn__find_random_sample fuel [zl ns; iddict dom; enc_hu_g enc_chrom_reg hu; enc_chrom_reg c; VInt a; VInt b] =
    frs_expected enc_chrom_reg (zl ns) (iddict dom) c a b (find_random_sample ns hu c a b).
  Proof. intro H. apply (TVg_find_random_sample_refines enc_chrom_reg reg_eq reg_nu). exact H. Qed.

  Definition first_out (t : poptab) (hu : list used) (shuf : list (list Z)) (ch : list Z) (A : acc)
      (s : seg) (q : Z) (jname jind jt1 jt2 : val) : outcome :=
    match find_random_sample (lst_of t q) hu c (startof (a_pos A)) (endc s) with
    | (Err k, _) => OErr k
    | (Ok (smp, h), hu') =>
        ONorm (cvenv t hu' shuf ch A (enc_seg s) (label_tok q) (VInt smp) (VInt h)
                 (match last_opt (a_pos A) with None => VTuple [VInt smp; VInt h] | Some _ => jt1 end)
                 (match last_opt (a_pos A) with None => jt2 | Some _ => VTuple [VInt smp; VInt h] end))
    end.

  Lemma cv_first_step t hu shuf ch A s q jname jind jt1 jt2 :
    names_ok dom (lst_of t q) ->
    exec (ft_4 fuel) cv_first fuel (cvenv t hu shuf ch A (enc_seg s) (label_tok q) jname jind jt1 jt2) =
    first_out t hu shuf ch A s q jname jind jt1 jt2.
  Proof.
    intro Hn. unfold cv_first, first_out, startof.
    unfold cvenv at 1. unfold enc_pop_sample, enc_seg.
    cbn -[index_sem set_index enc_chrom_reg Z.add fn__find_random_sample truthy].
    rewrite truthy_zl.
    destruct (last_opt (a_pos A)) as [e|] eqn:El;
      cbn -[index_sem set_index enc_chrom_reg Z.add fn__find_random_sample];
      rewrite ?index_pop_sample', ?index_last_z, ?El;
      rewrite ?(nu_read (enc_chrom_reg c)) by apply reg_nu;
      cbn -[index_sem set_index enc_chrom_reg Z.add fn__find_random_sample];
      fold (lst_of t q); rewrite (frs_call _ hu _ _ Hn); unfold frs_expected.
    - destruct (find_random_sample (lst_of t q) hu c (e + 1) (endc s)) as [[[smp h]|k] hu'];
        cbn -[index_sem set_index enc_chrom_reg Z.add fn__find_random_sample]; reflexivity.
    - destruct (find_random_sample (lst_of t q) hu c 0 (endc s)) as [[[smp h]|k] hu'];
        cbn -[index_sem set_index enc_chrom_reg Z.add fn__find_random_sample]; reflexivity.
  Qed.

  Lemma cv_appinds_step t hu shuf ch A jseg jpop jname h jt1 jt2 :
    exec (ft_4 fuel) cv_appinds fuel (cvenv t hu shuf ch A jseg jpop jname (VInt h) jt1 jt2) =
    ONorm (cvenv t hu shuf ch (with_inds A h) jseg jpop jname (VInt h) jt1 jt2).
  Proof.
    unfold cv_appinds, cvenv, with_inds. cbn -[enc_chrom_reg Z.add]. rewrite map_app. reflexivity.
  Qed.

  Definition with_block (A : acc) (s : seg) (smp : Z) : acc :=
    mkacc (a_pos A ++ [endc s]) (a_pops A ++ [pop s]) (a_inds A) (a_smp A ++ [smp]) (a_sind A ++ [smp]).

  Lemma cv_apps_step t hu shuf ch A s jpop smp jind jt1 jt2 :
    exec (ft_4 fuel) cv_apps fuel (cvenv t hu shuf ch A (enc_seg s) jpop (VInt smp) jind jt1 jt2) =
    if existsb (Z.eqb smp) dom
    then ONorm (cvenv t hu shuf ch (with_block A s smp) (enc_seg s) jpop (VInt smp) jind jt1 jt2)
    else OErr 3.
  Proof.
    unfold cv_apps, cvenv, with_block, enc_seg.
    cbn -[index_sem enc_chrom_reg Z.add].
    rewrite index_iddict.
    destruct (existsb (Z.eqb smp) dom); [|reflexivity].
    cbn -[index_sem enc_chrom_reg Z.add]. rewrite !map_app. reflexivity.
  Qed.

  Arguments cv_brk : simpl never.
  Arguments cv_pop : simpl never.
  Arguments cv_norep : simpl never.
  Arguments cv_apps : simpl never.
  Arguments cv_shuf : simpl never.
  Arguments cv_first : simpl never.
  Arguments cv_appinds : simpl never.
  Arguments cv_choice : simpl never.

  Lemma pt_get_set t q perm : pt_get t q <> None -> pt_get (pt_set t q perm) q = Some perm.
  Proof.
    induction t as [|[k v] r IH]; cbn; [congruence|].
    destruct (k =? q) eqn:E; cbn; rewrite E; [reflexivity|exact IH].
  Qed.

  Lemma startof_app P e : startof (P ++ [e]) = e + 1.
  Proof. unfold startof. rewrite last_opt_app. reflexivity. Qed.

  Definition app_blocks (A : acc) (bl : list block) : acc :=
    mkacc (a_pos A ++ map b_end bl) (a_pops A ++ map b_pop bl) (a_inds A ++ map b_strand bl)
          (a_smp A ++ map b_samp bl) (a_sind A ++ map b_samp bl).

  Lemma app_blocks_nil A : app_blocks A [] = A.
  Proof. destruct A. unfold app_blocks. cbn. rewrite !app_nil_r. reflexivity. Qed.

  Lemma app_blocks_cons A s smp h bl :
    app_blocks (with_block (with_inds A h) s smp) bl = app_blocks A (mkb (endc s) (pop s) smp h :: bl).
  Proof. destruct A. unfold app_blocks, with_block, with_inds. cbn. rewrite <- !app_assoc. reflexivity. Qed.

  (* one loop iteration in the no_replacement mode, for a tract of the chromosome *)
  Lemma cv_iter_norep t hu shuf ch A s jpop jname jind jt1 jt2 :
    nr = true -> chrom s = c ->
    (forall perm, In perm shuf -> names_ok dom perm) ->
    exec (ft_4 fuel) cv_loop fuel (cvenv t hu shuf ch A (enc_seg s) jpop jname jind jt1 jt2) =
    if (pop s <? 0) || (npop <=? pop s) then OErr 3 else
    match lst_of t (pop s) with
    | [] => OErr 9
    | _ :: _ =>
      match shuf with
      | [] => OErr 98
      | perm :: shuf' =>
        match find_random_sample perm hu c (startof (a_pos A)) (endc s) with
        | (Err k, _) => OErr k
        | (Ok (smp, h), hu') =>
            ONorm (cvenv (pt_set t (pop s) perm) hu' shuf' ch (with_block (with_inds A h) s smp)
                     (enc_seg s) (label_tok (pop s)) (VInt smp) (VInt h)
                     (match last_opt (a_pos A) with None => VTuple [VInt smp; VInt h] | Some _ => jt1 end)
                     (match last_opt (a_pos A) with None => jt2 | Some _ => VTuple [VInt smp; VInt h] end))
        end
      end
    end.
  Proof.
    intros Hnr Hc Hnames. rewrite cv_loop_shape. cbn [exec].
    rewrite cv_brk_step. rewrite Hc, Z.eqb_refl.
    rewrite cv_pop_step. destruct ((pop s <? 0) || (npop <=? pop s)); [reflexivity|].
    rewrite cv_norep_shape. cbn [exec].
    assert (Hb : eval (ft_4 fuel) (EVar "no_replacement")
                   (cvenv t hu shuf ch A (enc_seg s) (label_tok (pop s)) jname jind jt1 jt2) = Ok (VBool nr))
      by reflexivity.
    rewrite Hb, Hnr. cbn [truthy].
    rewrite cv_shuf_step.
    destruct (lst_of t (pop s)) as [|x l] eqn:El.
    - (* nothing to draw from: _find_random_sample over no samples raises Exception *)
      rewrite cv_first_step by (rewrite El; intros y Hy; destruct Hy).
      unfold first_out. rewrite El. reflexivity.
    - destruct shuf as [|perm shuf']; [reflexivity|].
      assert (Hg : pt_get t (pop s) <> None).
      { unfold lst_of in El. destruct (pt_get t (pop s)); [discriminate|discriminate]. }
      assert (Hl : lst_of (pt_set t (pop s) perm) (pop s) = perm).
      { unfold lst_of. rewrite pt_get_set by exact Hg. reflexivity. }
      assert (Hp : names_ok dom perm) by (apply Hnames; left; reflexivity).
      rewrite cv_first_step by (rewrite Hl; exact Hp).
      unfold first_out. rewrite Hl.
      destruct (find_random_sample perm hu c (startof (a_pos A)) (endc s)) as [[[smp h]|k] hu'] eqn:Ef;
        [|reflexivity].
      rewrite cv_appinds_step. rewrite cv_apps_step.
      assert (Hin : existsb (Z.eqb smp) dom = true).
      { destruct (frs_ok_spec perm hu c (startof (a_pos A)) (endc s) smp h hu' Ef) as [Hi [Hh [cur [Hn _]]]].
        apply nthZ_some_range in Hn. rewrite (Hp smp Hi).
        assert (E : (smp <? 0) = false) by (apply Z.ltb_ge; lia). rewrite E. reflexivity. }
      rewrite Hin. reflexivity.
  Qed.

  Arguments cv_loop : simpl never.

  Lemma cv_iter_break t hu shuf ch A s jpop jname jind jt1 jt2 :
    chrom s <> c ->
    exec (ft_4 fuel) cv_loop fuel (cvenv t hu shuf ch A (enc_seg s) jpop jname jind jt1 jt2) =
    OBrk (cvenv t hu shuf ch A (enc_seg s) jpop jname jind jt1 jt2).
  Proof.
    intro Hc. rewrite cv_loop_shape. cbn [exec]. rewrite cv_brk_step.
    apply Z.eqb_neq in Hc. rewrite Hc. reflexivity.
  Qed.

  (* the whole loop = conv_norep over the chromosome's tracts *)
  Lemma cv_loop_norep : nr = true -> forall rest t hu shuf ch A jseg jpop jname jind jt1 jt2,
    (forall perm, In perm shuf -> names_ok dom perm) ->
    (forall bl t2 hu2 sh2,
       conv_norep_c npop (take_chrom c rest) c (startof (a_pos A)) t hu shuf = Ok (bl, t2, hu2, sh2) ->
       exists jseg' jpop' jname' jind' jt1' jt2',
         for_loop (exec (ft_4 fuel) cv_loop fuel) "segment" (map enc_seg rest)
           (cvenv t hu shuf ch A jseg jpop jname jind jt1 jt2) =
         ONorm (cvenv t2 hu2 sh2 ch (app_blocks A bl) jseg' jpop' jname' jind' jt1' jt2')) /\
    (forall k,
       conv_norep_c npop (take_chrom c rest) c (startof (a_pos A)) t hu shuf = Err k ->
       for_loop (exec (ft_4 fuel) cv_loop fuel) "segment" (map enc_seg rest)
         (cvenv t hu shuf ch A jseg jpop jname jind jt1 jt2) = OErr k).
  Proof.
    intro Hnr. induction rest as [|s r IH]; intros t hu shuf ch A jseg jpop jname jind jt1 jt2 Hnames.
    - cbn [take_chrom conv_norep_c map for_loop]. split.
      + intros bl t2 hu2 sh2 H. inversion H; subst. rewrite app_blocks_nil. do 6 eexists. reflexivity.
      + intros k H. discriminate.
    - cbn [take_chrom map for_loop].
      change (update "segment" (enc_seg s) (cvenv t hu shuf ch A jseg jpop jname jind jt1 jt2))
        with (cvenv t hu shuf ch A (enc_seg s) jpop jname jind jt1 jt2).
      destruct (chrom s =? c) eqn:Ec.
      2:{ apply Z.eqb_neq in Ec. rewrite cv_iter_break by exact Ec. cbn [conv_norep_c]. split.
          - intros bl t2 hu2 sh2 H. inversion H; subst. rewrite app_blocks_nil. do 6 eexists. reflexivity.
          - intros k H. discriminate. }
      apply Z.eqb_eq in Ec. rewrite (cv_iter_norep _ _ _ _ _ _ _ _ _ _ _ Hnr Ec Hnames).
      cbn [conv_norep_c].
      destruct ((pop s <? 0) || (npop <=? pop s)).
      { split; [intros; discriminate|]. intros k H. inversion H. reflexivity. }
      unfold lst_of. destruct (pt_get t (pop s)) as [[|x l]|] eqn:Et.
      { split; [intros; discriminate|]. intros k H. inversion H. reflexivity. }
      2:{ split; [intros; discriminate|]. intros k H. inversion H. reflexivity. }
      destruct shuf as [|perm shuf'].
      { split; [intros; discriminate|]. intros k H. inversion H. reflexivity. }
      change (find_random_sample_with false perm hu c (startof (a_pos A)) (endc s))
        with (find_random_sample perm hu c (startof (a_pos A)) (endc s)).
      destruct (find_random_sample perm hu c (startof (a_pos A)) (endc s)) as [[[smp h]|k0] hu'].
      2:{ split; [intros; discriminate|]. intros k H. inversion H. reflexivity. }
      assert (Hn' : forall p, In p shuf' -> names_ok dom p) by (intros p Hp; apply Hnames; right; exact Hp).
      set (A' := with_block (with_inds A h) s smp).
      assert (Hst : startof (a_pos A') = endc s + 1) by (unfold A', with_block; cbn [a_pos]; apply startof_app).
      specialize (IH (pt_set t (pop s) perm) hu' shuf' ch A' (enc_seg s) (label_tok (pop s)) (VInt smp) (VInt h)
                     (match last_opt (a_pos A) with None => VTuple [VInt smp; VInt h] | Some _ => jt1 end)
                     (match last_opt (a_pos A) with None => jt2 | Some _ => VTuple [VInt smp; VInt h] end) Hn').
      rewrite Hst in IH. destruct IH as [IH1 IH2].
      destruct (conv_norep_c npop (take_chrom c r) c (endc s + 1) (pt_set t (pop s) perm) hu' shuf')
        as [[[[bl t2] hu2] sh2]|k1] eqn:Ek; cbn [bind].
      + split; [|intros; discriminate].
        intros bl0 t20 hu20 sh20 H. inversion H; subst.
        destruct (IH1 bl t20 hu20 sh20 eq_refl) as [a1 [a2 [a3 [a4 [a5 [a6 H6]]]]]].
        exists a1, a2, a3, a4, a5, a6. rewrite H6. unfold A'. rewrite app_blocks_cons. reflexivity.
      + split; [intros; discriminate|]. intros k H. inversion H; subst. apply IH2. reflexivity.
  Qed.

  (* the values fit the numpy dtypes of the returned arrays *)
  Definition fits (A : acc) : bool :=
    forallb (in_range (Some (-9223372036854775808)) (Some 9223372036854775807)) (map VInt (a_pos A))
    && forallb (in_range (Some 0) (Some 255)) (map VInt (a_pops A))
    && forallb (in_range None None) (map VInt (a_smp A))
    && forallb (in_range (Some (-2147483648)) (Some 2147483647)) (map VInt (a_sind A))
    && forallb (in_range (Some 0) (Some 255)) (map VInt (a_inds A)).

  Definition ret_val (A : acc) : val :=
    VTuple [zl (a_pos A); zl (a_pops A); zl (a_smp A); zl (a_sind A); zl (a_inds A)].

  Lemma cv_ret_step t hu shuf ch A jseg jpop jname jind jt1 jt2 :
    exec (ft_4 fuel) cv_ret fuel (cvenv t hu shuf ch A jseg jpop jname jind jt1 jt2) =
    if fits A then ORet (ret_val A) (cvenv t hu shuf ch A jseg jpop jname jind jt1 jt2)
    else OErr E_Unsupported.
  Proof.
    unfold cv_ret, cvenv, fits, ret_val.
    cbn -[in_range enc_chrom_reg Z.add].
    destruct (forallb (in_range (Some (-9223372036854775808)) (Some 9223372036854775807)) (map VInt (a_pos A)));
      cbn -[in_range enc_chrom_reg Z.add]; [|reflexivity].
    destruct (forallb (in_range (Some 0) (Some 255)) (map VInt (a_pops A)));
      cbn -[in_range enc_chrom_reg Z.add]; [|reflexivity].
    destruct (forallb (in_range None None) (map VInt (a_smp A)));
      cbn -[in_range enc_chrom_reg Z.add]; [|reflexivity].
    destruct (forallb (in_range (Some (-2147483648)) (Some 2147483647)) (map VInt (a_sind A)));
      cbn -[in_range enc_chrom_reg Z.add]; [|reflexivity].
    destruct (forallb (in_range (Some 0) (Some 255)) (map VInt (a_inds A))); reflexivity.
  Qed.
End Conv.

Arguments cv_loop : simpl never.
Arguments cv_ret : simpl never.

Lemma cv_shape :
  src__convert_haplotype =
  mkfun ["haplotype"; "chrom"; "pop_dict"; "pop_sample"; "sample_dict"; "haps_used"; "no_replacement";
         "$shuffles"; "$choices"]
        ["hap_start_ind"; "hap_subset"; "hap_pos"; "hap_pops"; "hap_inds"; "hap_samples"; "hap_samples_ind";
         "segment"; "population"; "sample_name"; "hap_ind"; "_t1"; "_t2"]
    (SSeq (SIf (ECmp CEq (EVar "chrom") (EStr 1000)) (SAssign "chrom" (EInt 23)) SSkip)
    (SSeq (SAssign "hap_start_ind" (ECall "start_segment" [EInt 0; EToInt (EVar "chrom"); EVar "haplotype"]))
    (SSeq (SAssign "hap_subset" (ESlice (EVar "haplotype") (Some (EVar "hap_start_ind")) None))
    (SSeq (SAssign "hap_pos" (EList []))
    (SSeq (SAssign "hap_pops" (EList []))
    (SSeq (SAssign "hap_inds" (EList []))
    (SSeq (SAssign "hap_samples" (EList []))
    (SSeq (SAssign "hap_samples_ind" (EList []))
    (SSeq (SFor "segment" (EVar "hap_subset") cv_loop) cv_ret))))))))).
Proof. reflexivity. Qed.

Definition A0 : acc := mkacc [] [] [] [] [].

(* _convert_haplotype in --no_replacement mode, as translated from the current source, computes
   conv_norep over the chromosome's tracts: same blocks (ends, populations, reference samples,
   strands), same exception kind, for every haplotype, chromosome, population table, usage table
   and shuffle stream - provided the sample names are panel indices (names_ok) and the values
   fit the numpy dtypes of the returned arrays (fits) *)
Theorem TV_convert_haplotype_norep_refines :
  forall hap c npop dom t hu shuf ch fuel,
  0 <= npop -> (S (List.length hap) < fuel)%nat ->
  (forall perm, In perm shuf -> names_ok dom perm) ->
  res_map fst
    (fn__convert_haplotype fuel
       [enc_segs hap; enc_chrom_arg c; enc_pop_dict npop; enc_pop_sample t; iddict dom;
        enc_hu_g enc_chrom_reg hu; VBool true;
        VList (map (fun p : list Z => VList (map VInt p)) shuf); VList (map VInt ch)]) =
  match conv_norep_c npop (segs_of c hap) c 0 t hu shuf with
  | Ok (bl, _, _, _) =>
      if fits (app_blocks A0 bl) then Ok (ret_val (app_blocks A0 bl)) else Err E_Unsupported
  | Err k => Err k
  end.
Proof.
  intros hap c npop dom t hu shuf ch fuel Hnpop Hfuel Hnames.
  unfold fn__convert_haplotype, run_fun. rewrite cv_shape.
  cbn [fparams flocals fbody bind_params app map].
  (* the prefix: chrom = 23 for X, the start index, the slice, the empty accumulators *)
  assert (Hpre : forall X,
    exec (ft_4 fuel)
      (SIf (ECmp CEq (EVar "chrom") (EStr 1000)) (SAssign "chrom" (EInt 23)) SSkip) fuel
      (("haplotype", enc_segs hap) :: ("chrom", enc_chrom_arg c) :: X) =
    ONorm (("haplotype", enc_segs hap) :: ("chrom", enc_chrom_reg c) :: X)).
  { intro X. unfold enc_chrom_arg, enc_chrom_reg. destruct (c =? 23); reflexivity. }
  rewrite exec_seq, Hpre. clear Hpre.
  cbn -[index_sem slice_sem enc_chrom_reg fn_start_segment start_segment Z.add for_loop enc_pop_dict enc_pop_sample].
  rewrite (nu_read (enc_chrom_reg c)) by apply reg_nu.
  cbn -[index_sem slice_sem enc_chrom_reg fn_start_segment start_segment Z.add for_loop enc_pop_dict enc_pop_sample].
  rewrite (toint_chrom c).
  cbn -[index_sem slice_sem enc_chrom_reg fn_start_segment start_segment Z.add for_loop enc_pop_dict enc_pop_sample].
  unfold fn_start_segment. rewrite TV_start_segment_refines by exact Hfuel.
  cbn -[index_sem slice_sem enc_chrom_reg fn_start_segment start_segment Z.add for_loop enc_pop_dict enc_pop_sample].
  pose proof (bsearch_range 0 c hap (S (List.length hap)) 0 (lenZ hap - 1)) as Hr.
  fold (start_segment 0 c hap) in Hr.
  rewrite slice_from by (rewrite lenZ_map; exact Hr).
  cbn -[index_sem slice_sem enc_chrom_reg fn_start_segment start_segment Z.add for_loop enc_pop_dict enc_pop_sample].
  rewrite skipn_map.
  set (rest := skipn (Z.to_nat (start_segment 0 c hap)) hap).
  change ([("haplotype", enc_segs hap); ("chrom", enc_chrom_reg c);
           ("pop_dict", enc_pop_dict npop); ("pop_sample", enc_pop_sample t);
           ("sample_dict", iddict dom);
           ("haps_used", enc_hu_g enc_chrom_reg hu);
           ("no_replacement", VBool true);
           ("$shuffles",
            VList (map (fun p : list Z => VList (map VInt p)) shuf));
           ("$choices", VList (map VInt ch));
           ("hap_start_ind", VInt (start_segment 0 c hap));
           ("hap_subset", enc_segs rest); ("hap_pos", VList []);
           ("hap_pops", VList []); ("hap_inds", VList []);
           ("hap_samples", VList []); ("hap_samples_ind", VList []);
           ("segment", VUnbound); ("population", VUnbound);
           ("sample_name", VUnbound); ("hap_ind", VUnbound);
           ("_t1", VUnbound); ("_t2", VUnbound)])
    with (cvenv hap c npop dom true (VInt (start_segment 0 c hap)) (enc_segs rest) t hu shuf ch A0
            VUnbound VUnbound VUnbound VUnbound VUnbound VUnbound).
  destruct (cv_loop_norep hap c npop dom fuel Hnpop true (VInt (start_segment 0 c hap)) (enc_segs rest) eq_refl
              rest t hu shuf ch A0 VUnbound VUnbound VUnbound VUnbound VUnbound VUnbound Hnames) as [H1 H2].
  change (startof (a_pos A0)) with 0 in H1, H2.
  unfold segs_of. fold rest.
  destruct (conv_norep_c npop (take_chrom c rest) c 0 t hu shuf) as [[[[bl t2] hu2] sh2]|k].
  - destruct (H1 bl t2 hu2 sh2 eq_refl) as [a1 [a2 [a3 [a4 [a5 [a6 H6]]]]]].
    rewrite H6. rewrite cv_ret_step.
    destruct (fits (app_blocks A0 bl)); reflexivity.
  - rewrite (H2 k eq_refl). reflexivity.
Qed.
Print Assumptions TV_convert_haplotype_norep_refines.
