(* Translation validation for C15: the MiniPy syntax of the unique-column-name loop of Phenotypes.write
   (haptools/data/phenotypes.py: the statements from `uniq_names = Counter()` to `names[idx] = new_name`, cut out
   as the synthetic function write_unique_names(self_names)), REGENERATED FROM /repo's CURRENT SOURCE on every
   run (HVG.Gen_Phenotypes, written by harness/pytrans.py), denotes exactly the hand-written
   C15_Model.unique_names that the C15 theorems are about - for ALL name tuples.
   Compiled per run against the generated module; not part of the static build. *)
From HV Require Import Prelude MiniPy MiniPyFacts C15_Model C15_Check C15_Proofs.
From HVG Require Import Gen_Phenotypes TVM_C15.
From Coq Require Import String.
Open Scope string_scope.
Open Scope list_scope.
Open Scope Z_scope.

(* ---- the pieces of the generated term ---- *)

Definition fl_body : stmt :=
  Eval cbv in match fbody src_write_unique_names with
              | SSeq _ (SSeq _ (SSeq _ (SSeq (SFor _ _ b) _))) => b
              | _ => SSkip
              end.
Definition wl_cond : expr :=
  Eval cbv in match fl_body with
              | SSeq _ (SSeq _ (SSeq _ (SSeq (SWhile c _) _))) => c
              | _ => ENone
              end.
Definition wl_body : stmt :=
  Eval cbv in match fl_body with
              | SSeq _ (SSeq _ (SSeq _ (SSeq (SWhile _ b) _))) => b
              | _ => SSkip
              end.
Definition fl_tail : stmt :=
  Eval cbv in match fl_body with
              | SSeq _ (SSeq _ (SSeq _ (SSeq (SWhile _ _) t))) => t
              | _ => SSkip
              end.

Lemma un_shape :
  src_write_unique_names =
  mkfun ["self_names"] ["uniq_names"; "used_names"; "names"; "idx"; "name"; "new_name"; "_t1"]
    (SSeq (SAssign "uniq_names" ECounter)
    (SSeq (SAssign "used_names" ESet)
    (SSeq (SAssign "names" (EBin Mul (EList [ENone]) (ELen (EVar "self_names"))))
    (SSeq (SFor "_t1" (EEnumerate (EVar "self_names")) fl_body)
          (SReturn (EVar "names")))))).
Proof. reflexivity. Qed.

Lemma fl_shape :
  fl_body =
  SSeq (SAssign "idx" (EIndex (EVar "_t1") (EInt 0)))
  (SSeq (SAssign "name" (EIndex (EVar "_t1") (EInt 1)))
  (SSeq (SAssign "new_name" (EVar "name"))
  (SSeq (SWhile wl_cond wl_body) fl_tail))).
Proof. reflexivity. Qed.

(* ---- the Counter and the set as MiniPy values ---- *)

Definition encd (dl : list (name * Z)) : list (val * val) :=
  map (fun p : name * Z => (VText (fst p), VInt (snd p))) dl.

(* d[nm] = v on an insertion-ordered association list *)
Fixpoint aset (dl : list (name * Z)) (nm : name) (v : Z) : list (name * Z) :=
  match dl with
  | [] => [(nm, v)]
  | (k, w) :: r => if name_eqb k nm then (k, v) :: r else (k, w) :: aset r nm v
  end.

Lemma py_eq_text a b : py_eq (VText a) (VText b) = name_eqb a b.
Proof. reflexivity. Qed.

Lemma name_eqb_refl a : name_eqb a a = true.
Proof. apply name_eqb_spec. reflexivity. Qed.

Lemma name_eqb_sym a b : name_eqb a b = name_eqb b a.
Proof.
  destruct (name_eqb a b) eqn:E.
  - apply name_eqb_spec in E. subst. symmetry. apply name_eqb_refl.
  - destruct (name_eqb b a) eqn:F; [|reflexivity]. apply name_eqb_spec in F. subst.
    rewrite name_eqb_refl in E. discriminate.
Qed.

Lemma name_eqb_neq a b : a <> b -> name_eqb a b = false.
Proof. intro H. destruct (name_eqb a b) eqn:E; [|reflexivity]. apply name_eqb_spec in E. contradiction. Qed.

Lemma cnt_get dl nm : index_sem (VCounter (encd dl)) (VText nm) = Ok (VInt (count_of dl nm)).
Proof.
  unfold index_sem. cbn [hashable].
  induction dl as [|[k v] r IH]; [reflexivity|].
  cbn [encd map fst snd count_of]. rewrite py_eq_text. destruct (name_eqb k nm); [reflexivity|exact IH].
Qed.

Lemma cnt_set dl nm v :
  set_index (VCounter (encd dl)) (VText nm) (VInt v) = Ok (VCounter (encd (aset dl nm v))).
Proof.
  unfold set_index. cbn [hashable]. f_equal. f_equal.
  induction dl as [|[k w] r IH]; [reflexivity|].
  cbn [encd map fst snd aset]. rewrite py_eq_text. destruct (name_eqb k nm); [reflexivity|].
  cbn [encd map fst snd]. f_equal. exact IH.
Qed.

Lemma count_aset dl nm v k :
  count_of (aset dl nm v) k = if name_eqb nm k then v else count_of dl k.
Proof.
  induction dl as [|[a w] r IH]; cbn [aset count_of].
  - destruct (name_eqb nm k); reflexivity.
  - destruct (name_eqb a nm) eqn:E.
    + apply name_eqb_spec in E. subst a. cbn [count_of]. destruct (name_eqb nm k); reflexivity.
    + cbn [count_of]. destruct (name_eqb a k) eqn:F.
      * apply name_eqb_spec in F. subst a. rewrite name_eqb_sym, E. reflexivity.
      * exact IH.
Qed.

Lemma set_in sl nm : existsb (fun y => py_eq y (VText nm)) (map VText sl) = mem nm sl.
Proof.
  unfold mem. induction sl as [|k r IH]; [reflexivity|].
  cbn [map existsb]. rewrite py_eq_text, IH, name_eqb_sym. reflexivity.
Qed.

Lemma set_add_text sl nm :
  set_add (map VText sl) (VText nm) = map VText (if mem nm sl then sl else sl ++ [nm]).
Proof. unfold set_add. rewrite set_in. destruct (mem nm sl); [reflexivity|]. rewrite map_app. reflexivity. Qed.

Lemma mem_app x a b : mem x (a ++ b) = mem x a || mem x b.
Proof. unfold mem. apply existsb_app. Qed.

(* names[k] = v where k is the length of the part already written *)
Lemma set_index_mid (a b : list val) (x v : val) :
  set_index (VList (a ++ x :: b)) (VInt (lenZ a)) v = Ok (VList (a ++ v :: b)).
Proof.
  rewrite set_index_list.
  - unfold lenZ. rewrite Nat2Z.id. rewrite firstn_app, Nat.sub_diag, firstn_all. cbn [firstn].
    rewrite app_nil_r.
    replace (S (List.length a)) with (List.length (a ++ [x])) by (rewrite app_length; cbn; lia).
    replace (a ++ x :: b) with ((a ++ [x]) ++ b) by (rewrite <- app_assoc; reflexivity).
    rewrite skipn_app, Nat.sub_diag, skipn_all. reflexivity.
  - unfold lenZ. rewrite app_length. cbn [List.length]. lia.
Qed.

Lemma repeat_list_none n : repeat_list [VNone] (Z.of_nat n) = repeat VNone n.
Proof.
  unfold repeat_list. rewrite Nat2Z.id. induction n as [|n IH]; [reflexivity|].
  cbn [repeat List.concat app]. rewrite IH. reflexivity.
Qed.

Lemma dec_text_dec z : dec_text z = dec z.
Proof. reflexivity. Qed.

(* the state of the slice: the Counter as an association list, the set by its elements, `names` partly written *)
Definition un_env (sn : val) (dl : list (name * Z)) (sl : list name) (out : list val) (idx nm nw t1 : val) : env :=
  [("self_names", sn); ("uniq_names", VCounter (encd dl)); ("used_names", VSet (map VText sl));
   ("names", VList out); ("idx", idx); ("name", nm); ("new_name", nw); ("_t1", t1)].

(* the Counter agrees with the model's; the set has the model's elements *)
Definition CR (dl cnts : list (name * Z)) : Prop := forall nm, count_of dl nm = count_of cnts nm.
Definition SR (sl used : list name) : Prop := forall nm, mem nm sl = mem nm used.

(* ---- the while loop: `while new_name in used_names` = fresh ---- *)

Lemma wl_cond_eval sn dl sl out idx nmv cand t1 :
  eval ft_empty wl_cond (un_env sn dl sl out idx nmv (VText cand) t1) = Ok (VBool (mem cand sl)).
Proof.
  unfold wl_cond, un_env. cbn -[existsb py_eq]. rewrite set_in. destruct (mem cand sl); reflexivity.
Qed.

Lemma wl_body_exec fuel sn dl sl out idx nm cand t1 :
  exec ft_empty wl_body fuel (un_env sn dl sl out idx (VText nm) (VText cand) t1) =
  ONorm (un_env sn (aset dl nm (count_of dl nm + 1)) sl out idx (VText nm)
                (VText (suffixed nm (count_of dl nm + 1))) t1).
Proof.
  unfold wl_body, un_env. cbn -[index_sem set_index encd dec_text].
  rewrite cnt_get. cbn -[index_sem set_index encd dec_text].
  rewrite cnt_set. cbn -[index_sem set_index encd dec_text].
  rewrite cnt_get. cbn -[index_sem set_index encd dec_text].
  rewrite count_aset, name_eqb_refl, dec_text_dec, app_nil_r. reflexivity.
Qed.

Arguments wl_body : simpl never.
Arguments wl_cond : simpl never.

Lemma wl_loop fuel sn sl used out idx t1 nm (HS : SR sl used) :
  forall (f n : nat) cand dl, (f < n)%nat ->
  mem (fst (fresh f nm cand (count_of dl nm) used)) used = false ->
  exists dl',
    while_loop (exec ft_empty wl_body fuel) (eval ft_empty wl_cond) n
      (un_env sn dl sl out idx (VText nm) (VText cand) t1)
    = ONorm (un_env sn dl' sl out idx (VText nm) (VText (fst (fresh f nm cand (count_of dl nm) used))) t1)
    /\ count_of dl' nm = snd (fresh f nm cand (count_of dl nm) used)
    /\ (forall k, k <> nm -> count_of dl' k = count_of dl k).
Proof.
  induction f as [|f IH]; intros n cand dl Hn Hm; (destruct n as [|n]; [lia|]); cbn [while_loop].
  - cbn [fresh fst snd] in *. rewrite wl_cond_eval, HS, Hm. cbn [truthy].
    exists dl. split; [reflexivity|]. split; [reflexivity|]. intros; reflexivity.
  - rewrite wl_cond_eval, HS. cbn [fresh] in *. destruct (mem cand used) eqn:E; cbn [truthy].
    + rewrite wl_body_exec.
      set (dl1 := aset dl nm (count_of dl nm + 1)) in *.
      assert (H1 : count_of dl1 nm = count_of dl nm + 1).
      { unfold dl1. rewrite count_aset, name_eqb_refl. reflexivity. }
      pose proof (IH n (suffixed nm (count_of dl nm + 1)) dl1 ltac:(lia)) as IH1. rewrite H1 in IH1.
      destruct (IH1 Hm) as (dl' & E1 & E2 & E3).
      exists dl'. split; [exact E1|]. split; [exact E2|].
      intros k Hk. rewrite (E3 k Hk). unfold dl1. rewrite count_aset.
      rewrite name_eqb_neq by (intro; subst; contradiction). reflexivity.
    + cbn [fst snd]. exists dl. split; [reflexivity|]. split; [reflexivity|]. intros; reflexivity.
Qed.

(* ---- one iteration of `for idx, name in enumerate(self.names)` ---- *)

Lemma fl_tail_exec fuel sn dl sl done m k nm o t1 :
  lenZ done = k -> mem o sl = false ->
  exec ft_empty fl_tail fuel
    (un_env sn dl sl (map VText done ++ VNone :: repeat VNone m) (VInt k) (VText nm) (VText o) t1) =
  ONorm (un_env sn dl (sl ++ [o]) (map VText (done ++ [o]) ++ repeat VNone m) (VInt k) (VText nm) (VText o) t1).
Proof.
  intros Hk Hm. unfold fl_tail, un_env. cbn -[set_add set_index encd].
  rewrite set_add_text, Hm. cbn -[set_add set_index encd].
  rewrite <- Hk, <- (lenZ_map VText done). rewrite set_index_mid. cbn -[encd].
  rewrite (map_app VText done [o]), <- app_assoc. reflexivity.
Qed.

Arguments fl_tail : simpl never.

Lemma fl_step fuel sn dl sl cnts used done m k nm idx0 nm0 nw0 :
  CR dl cnts -> SR sl used -> (S (List.length used) < fuel)%nat -> lenZ done = k ->
  exists dl',
    exec ft_empty fl_body fuel
      (un_env sn dl sl (map VText done ++ VNone :: repeat VNone m) idx0 nm0 nw0 (VTuple [VInt k; VText nm])) =
    (let '(o, c) := fresh (S (List.length used)) nm nm (count_of cnts nm) used in
     ONorm (un_env sn dl' (sl ++ [o]) (map VText (done ++ [o]) ++ repeat VNone m) (VInt k) (VText nm) (VText o)
                   (VTuple [VInt k; VText nm])))
    /\ CR dl' (set_count cnts nm (snd (fresh (S (List.length used)) nm nm (count_of cnts nm) used)))
    /\ SR (sl ++ [fst (fresh (S (List.length used)) nm nm (count_of cnts nm) used)])
          (fst (fresh (S (List.length used)) nm nm (count_of cnts nm) used) :: used).
Proof.
  intros HC HS Hf Hk.
  pose proof (fresh_free nm (count_of cnts nm) used) as Hfree.
  rewrite <- (HC nm) in *.
  destruct (wl_loop fuel sn sl used (map VText done ++ VNone :: repeat VNone m) (VInt k)
              (VTuple [VInt k; VText nm]) nm HS (S (List.length used)) fuel nm dl Hf Hfree)
    as (dl' & E1 & E2 & E3).
  exists dl'.
  destruct (fresh (S (List.length used)) nm nm (count_of dl nm) used) as [o c] eqn:EF.
  cbn [fst snd] in *.
  split; [|split].
  - rewrite fl_shape. rewrite !exec_seq.
    unfold un_env at 1. cbn -[wl_body wl_cond fl_tail while_loop encd].
    change (exec ft_empty (SWhile wl_cond wl_body) fuel ?en)
      with (while_loop (exec ft_empty wl_body fuel) (eval ft_empty wl_cond) fuel en).
    fold (un_env sn dl sl (map VText done ++ VNone :: repeat VNone m) (VInt k) (VText nm) (VText nm)
            (VTuple [VInt k; VText nm])).
    rewrite E1. apply fl_tail_exec; [exact Hk|]. rewrite HS. exact Hfree.
  - intro x. cbn [set_count count_of]. destruct (name_eqb nm x) eqn:Ex.
    + apply name_eqb_spec in Ex. subst x. exact E2.
    + rewrite E3; [apply HC|]. intro; subst. rewrite name_eqb_refl in Ex. discriminate.
  - intro x. rewrite mem_app, HS. unfold mem at 2 3. cbn [existsb]. fold (mem x used).
    rewrite orb_false_r. apply orb_comm.
Qed.

Arguments fl_body : simpl never.

(* ---- the for loop = uniq_loop ---- *)

Lemma fl_loop fuel sn : forall (rest : list name) done dl sl cnts used k idx0 nm0 nw0 t0,
  CR dl cnts -> SR sl used -> (S (List.length used + List.length rest) < fuel)%nat -> lenZ done = k ->
  exists dl' sl' i' n' w' t',
    for_loop (exec ft_empty fl_body fuel) "_t1" (enum_from k (map VText rest))
      (un_env sn dl sl (map VText done ++ repeat VNone (List.length rest)) idx0 nm0 nw0 t0) =
    ONorm (un_env sn dl' sl' (map VText (done ++ uniq_loop rest cnts used)) i' n' w' t').
Proof.
  induction rest as [|nm r IH]; intros done dl sl cnts used k idx0 nm0 nw0 t0 HC HS Hf Hk.
  - exists dl, sl, idx0, nm0, nw0, t0. cbn [map enum_from for_loop uniq_loop List.length repeat].
    rewrite !app_nil_r. reflexivity.
  - cbn [map enum_from for_loop uniq_loop List.length repeat].
    change (update "_t1" ?v (un_env sn dl sl ?o idx0 nm0 nw0 t0)) with (un_env sn dl sl o idx0 nm0 nw0 v).
    destruct (fl_step fuel sn dl sl cnts used done (List.length r) k nm idx0 nm0 nw0 HC HS ltac:(cbn [List.length] in Hf; lia) Hk)
      as (dl1 & E & HC1 & HS1).
    rewrite E. clear E.
    destruct (fresh (S (List.length used)) nm nm (count_of cnts nm) used) as [o c] eqn:EF.
    cbn [fst snd] in *.
    destruct (IH (done ++ [o]) dl1 (sl ++ [o]) (set_count cnts nm c) (o :: used) (k + 1)
                 (VInt k) (VText nm) (VText o) (VTuple [VInt k; VText nm]) HC1 HS1) as (dl' & sl' & i' & n' & w' & t' & E').
    + cbn [List.length] in *. lia.
    + unfold lenZ in *. rewrite app_length. cbn [List.length]. lia.
    + exists dl', sl', i', n', w', t'. rewrite E'. rewrite <- app_assoc. reflexivity.
Qed.

(* ---- the slice ---- *)

(* for ALL name tuples (or lists) the interpretation of the slice of Phenotypes.write returns exactly the model's
   unique_names; the fuel only has to exceed the number of names by two (the while loop runs at most once per
   name already written, plus the final test) *)
Theorem TV_unique_names_refines : forall (tup : bool) (names : list name) (fuel : nat),
  (S (List.length names) < fuel)%nat ->
  fn_write_unique_names fuel [enc_seq tup (enc_names names)] =
  Ok (VList (enc_names (unique_names names)), [enc_seq tup (enc_names names)]).
Proof.
  intros tup names fuel Hf. unfold fn_write_unique_names, run_fun. rewrite un_shape.
  cbn [fparams flocals fbody bind_params app map].
  assert (Hl : lenZ (enc_names names) = Z.of_nat (List.length names)).
  { unfold lenZ, enc_names. rewrite map_length. reflexivity. }
  assert (Hm : forall sn,
    exists dl' sl' i' n' w' t',
      for_loop (exec ft_empty fl_body fuel) "_t1" (enum_from 0 (enc_names names))
        [("self_names", sn); ("uniq_names", VCounter []); ("used_names", VSet []);
         ("names", VList (repeat_list [VNone] (lenZ (enc_names names))));
         ("idx", VUnbound); ("name", VUnbound); ("new_name", VUnbound); ("_t1", VUnbound)] =
      ONorm (un_env sn dl' sl' (map VText (unique_names names)) i' n' w' t')).
  { intro sn. rewrite Hl, repeat_list_none.
    destruct (fl_loop fuel sn names [] [] [] [] [] 0 VUnbound VUnbound VUnbound VUnbound)
      as (dl' & sl' & i' & n' & w' & t' & E).
    - intro; reflexivity.
    - intro; reflexivity.
    - cbn [List.length]. lia.
    - reflexivity.
    - exists dl', sl', i', n', w', t'. exact E. }
  destruct tup; cbn -[fl_body for_loop enc_names repeat_list lenZ].
  - destruct (Hm (VTuple (enc_names names))) as (dl' & sl' & i' & n' & w' & t' & E). rewrite E. reflexivity.
  - destruct (Hm (VList (enc_names names))) as (dl' & sl' & i' & n' & w' & t' & E). rewrite E. reflexivity.
Qed.
Print Assumptions TV_unique_names_refines.

(* C15_unique_names_nodup restated about the translated loop: what Phenotypes.write's loop (as it is in the source
   now) computes has no duplicate, has the input's length, derives every name from the input name at its position
   (the name itself or name-<k>), and leaves a duplicate-free tuple unchanged *)
Theorem TV_unique_names_nodup : forall (tup : bool) (names : list name) (fuel : nat),
  (S (List.length names) < fuel)%nat ->
  exists out,
    fn_write_unique_names fuel [enc_seq tup (enc_names names)] =
      Ok (VList (enc_names out), [enc_seq tup (enc_names names)])
    /\ NoDup out
    /\ List.length out = List.length names
    /\ Forall2 derived_from names out
    /\ (NoDup names -> out = names).
Proof.
  intros tup names fuel Hf. exists (unique_names names).
  split; [apply TV_unique_names_refines; exact Hf|]. apply unique_names_nodup_lemma.
Qed.
Print Assumptions TV_unique_names_nodup.

(* the evaluation used by the tv_names relation is an instance of the theorem *)
Theorem TV_unique_names_eval : forall names, tv_unique_names names = Ok (unique_names names).
Proof.
  intro names. unfold tv_unique_names.
  rewrite (TV_unique_names_refines true names (tv_fuel names)) by (unfold tv_fuel; lia).
  assert (H : forall l, dec_names (enc_names l) = Some l).
  { induction l as [|a r IH]; [reflexivity|]. cbn [enc_names map dec_names]. fold (enc_names r). rewrite IH. reflexivity. }
  rewrite H. reflexivity.
Qed.
Print Assumptions TV_unique_names_eval.

(* the fuel hypothesis is satisfiable and the loop does what the fix commit says on the historic collision *)
Example TV_unique_names_example :
  fn_write_unique_names 5 [VTuple (enc_names [a_; a_; suffixed a_ 1])] =
  Ok (VList (enc_names [a_; suffixed a_ 1; suffixed (suffixed a_ 1) 1]), [VTuple (enc_names [a_; a_; suffixed a_ 1])]).
Proof. vm_compute. reflexivity. Qed.
Print Assumptions TV_unique_names_example.
