(* Translation validation for C17: the MiniPy syntax of SummaryStats.GetNextIndexVariant,
   SummaryStats.QueryWindow, SummaryStats.RemoveClump and of the clumping loop of clumpstr
   (`indexvar = ...; while indexvar is not None: ...`), REGENERATED FROM /repo's CURRENT SOURCE on
   every run (HVG.Gen_Clump, written by harness/pytrans.py), denotes exactly the hand-written
   C17_Model.next_index / query_window / remove_vars / clump_loop that the C17 theorems are about:
   for all tables, thresholds, roundings of the float division and LoadVariant / ComputeLD
   functions (same clumps written, or the same error).
   Compiled per run against the generated module; not part of the static build. *)
From HV Require Import Prelude MiniPy MiniPyFacts PearsonQ C17_Model C17_Check C17_Proofs.
From HVG Require Import Gen_Clump TVM_C17.
From Coq Require Import String QArith.
Open Scope string_scope.
Open Scope list_scope.
Open Scope Z_scope.

Section TV.
  (* the rounding of int / int (the float64 nearest to the quotient, as a rational) and the two
     functions of clump.py that are not translated: arbitrary *)
  Variable fdiv : Z -> Z -> Q.
  Variables eL eC : list val -> res val.

  Local Notation ftb := (ft_base fdiv eL eC).

  Lemma nu_enc_stats l : match enc_stats l with VUnbound => @Err val 6 | _ => Ok (enc_stats l) end = Ok (enc_stats l).
  Proof. reflexivity. Qed.
  Lemma nu_enc_vars l : match enc_vars l with VUnbound => @Err val 6 | _ => Ok (enc_vars l) end = Ok (enc_vars l).
  Proof. reflexivity. Qed.
  Lemma nu_enc_var v : match enc_var v with VUnbound => @Err val 6 | _ => Ok (enc_var v) end = Ok (enc_var v).
  Proof. reflexivity. Qed.

(* ---- SummaryStats.GetNextIndexVariant ---- *)

Definition gn_body : stmt :=
  Eval cbv in match fbody src_GetNextIndexVariant with
              | SSeq _ (SSeq _ (SSeq (SFor _ _ b) _)) => b
              | _ => SSkip
              end.

Lemma gn_shape :
  src_GetNextIndexVariant =
  mkfun ["self"; "index_pval_thresh"] ["best_var"; "best_var_p"; "variant"]
    (SSeq (SAssign "best_var" ENone)
    (SSeq (SAssign "best_var_p" (EFloat 1))
    (SSeq (SFor "variant" (EField (EVar "self") [(2, 0%nat)]) gn_body)
          (SReturn (EVar "best_var"))))).
Proof. reflexivity. Qed.

Definition gn_env (l : list svar) (p1 : Q) (bv : val) (bp : Q) (v : val) : env :=
  [("self", enc_stats l); ("index_pval_thresh", VQ p1); ("best_var", bv); ("best_var_p", VQ bp); ("variant", v)].

Lemma gn_step l p1 bv bp v fuel :
  exec ftb gn_body fuel (gn_env l p1 bv bp (enc_var v)) =
  ONorm (if Qlt_bool (sv_p v) bp && Qlt_bool (sv_p v) p1
         then gn_env l p1 (enc_var v) (sv_p v) (enc_var v)
         else gn_env l p1 bv bp (enc_var v)).
Proof.
  unfold gn_body, gn_env, enc_var, Qlt_bool. cbn -[Qle_bool ft_base].
  destruct (Qle_bool bp (sv_p v)); cbn -[Qle_bool ft_base]; [reflexivity|].
  destruct (Qle_bool p1 (sv_p v)); reflexivity.
Qed.

Arguments gn_body : simpl never.

Lemma gn_loop l p1 fuel : forall (r : list svar) best bp v0,
  exists bp' v',
  for_loop (exec ftb gn_body fuel) "variant" (map enc_var r) (gn_env l p1 (enc_opt best) bp v0) =
  ONorm (gn_env l p1 (enc_opt (scan_best p1 best bp r)) bp' v').
Proof.
  induction r as [|v r IH]; intros best bp v0.
  - exists bp, v0. reflexivity.
  - cbn [map for_loop scan_best].
    change (update "variant" (enc_var v) (gn_env l p1 (enc_opt best) bp v0))
      with (gn_env l p1 (enc_opt best) bp (enc_var v)).
    rewrite gn_step.
    destruct (Qlt_bool (sv_p v) bp && Qlt_bool (sv_p v) p1).
    + apply (IH (Some v)).
    + apply IH.
Qed.

Theorem TV_GetNextIndexVariant_refines : forall l p1 fuel,
  fn_GetNextIndexVariant fdiv eL eC fuel [enc_stats l; VQ p1] =
  Ok (enc_opt (next_index p1 l), [enc_stats l; VQ p1]).
Proof.
  intros l p1 fuel. unfold fn_GetNextIndexVariant, run_fun. rewrite gn_shape.
  cbn [fparams flocals fbody bind_params app map].
  cbn -[ft_base gn_body for_loop enc_var].
  change ([("self", enc_stats l); ("index_pval_thresh", VQ p1); ("best_var", VNone);
           ("best_var_p", VQ 1); ("variant", VUnbound)])
    with (gn_env l p1 (enc_opt None) 1 VUnbound).
  destruct (gn_loop l p1 fuel l None 1%Q VUnbound) as (bp' & v' & E).
  fold (map enc_var l). rewrite E. unfold next_index.
  destruct (scan_best p1 None 1 l); reflexivity.
Qed.

(* ---- SummaryStats.QueryWindow ---- *)

Definition qw_body : stmt :=
  Eval cbv in match fbody src_QueryWindow with
              | SSeq _ (SSeq _ (SSeq _ (SSeq (SFor _ _ b) _))) => b
              | _ => SSkip
              end.

Lemma qw_shape :
  src_QueryWindow =
  mkfun ["self"; "indexvar"; "window_kb"] ["chrom"; "pos"; "candidates"; "variant"]
    (SSeq (SAssign "chrom" (EField (EVar "indexvar") [(1, 1%nat)]))
    (SSeq (SAssign "pos" (EField (EVar "indexvar") [(1, 2%nat)]))
    (SSeq (SAssign "candidates" (EList []))
    (SSeq (SFor "variant" (EField (EVar "self") [(2, 0%nat)]) qw_body)
          (SReturn (EVar "candidates")))))).
Proof. reflexivity. Qed.

Definition qw_env (l : list svar) (iv : svar) (kb : Q) (acc : list svar) (v : val) : env :=
  [("self", enc_stats l); ("indexvar", enc_var iv); ("window_kb", VQ kb); ("chrom", VStr (sv_chrom iv));
   ("pos", VInt (sv_pos iv)); ("candidates", enc_vars acc); ("variant", v)].

Lemma qw_step l iv kb acc v fuel :
  exec (ft_0 fdiv eL eC fuel) qw_body fuel (qw_env l iv kb acc (enc_var v)) =
  ONorm (qw_env l iv kb (if win_fdiv fdiv kb iv v then acc ++ [v] else acc) (enc_var v)).
Proof.
  unfold qw_body, qw_env, enc_var, win_fdiv, Qlt_bool. cbn -[Qle_bool enc_vars fn_GetNextIndexVariant].
  destruct (sv_chrom v =? sv_chrom iv); cbn -[Qle_bool enc_vars fn_GetNextIndexVariant]; [|reflexivity].
  destruct (Qle_bool kb (fdiv (Z.abs (sv_pos v - sv_pos iv)) 1000)); cbn -[Qle_bool enc_vars]; [reflexivity|].
  unfold enc_vars. rewrite map_app. reflexivity.
Qed.

Arguments qw_body : simpl never.

Lemma qw_loop l iv kb fuel : forall (r : list svar) acc v0,
  exists v',
  for_loop (exec (ft_0 fdiv eL eC fuel) qw_body fuel) "variant" (map enc_var r) (qw_env l iv kb acc v0) =
  ONorm (qw_env l iv kb (acc ++ filter (win_fdiv fdiv kb iv) r) v').
Proof.
  induction r as [|v r IH]; intros acc v0.
  - exists v0. cbn [map for_loop filter]. rewrite app_nil_r. reflexivity.
  - cbn [map for_loop filter].
    change (update "variant" (enc_var v) (qw_env l iv kb acc v0)) with (qw_env l iv kb acc (enc_var v)).
    rewrite qw_step.
    destruct (win_fdiv fdiv kb iv v).
    + destruct (IH (acc ++ [v]) (enc_var v)) as (v' & E). exists v'. rewrite E, <- app_assoc. reflexivity.
    + apply IH.
Qed.

Theorem TV_QueryWindow_refines : forall l iv kb fuel,
  fn_QueryWindow fdiv eL eC fuel [enc_stats l; enc_var iv; VQ kb] =
  Ok (enc_vars (query_window (win_fdiv fdiv kb) iv l), [enc_stats l; enc_var iv; VQ kb]).
Proof.
  intros l iv kb fuel. unfold fn_QueryWindow, run_fun. rewrite qw_shape.
  cbn [fparams flocals fbody bind_params app map].
  cbn -[ft_0 qw_body for_loop enc_vars].
  change ([("self", enc_stats l); ("indexvar", enc_var iv); ("window_kb", VQ kb); ("chrom", VStr (sv_chrom iv));
           ("pos", VInt (sv_pos iv)); ("candidates", VList []); ("variant", VUnbound)])
    with (qw_env l iv kb [] VUnbound).
  destruct (qw_loop l iv kb fuel l [] VUnbound) as (v' & E).
  change (as_seq (enc_vars l)) with (Some (map enc_var l)). cbv iota. rewrite E. reflexivity.
Qed.

(* ---- SummaryStats.RemoveClump ---- *)

(* equality of the encodings of two rows: all six components *)
Lemma enc_var_eq_refl v : py_eq (enc_var v) (enc_var v) = true.
Proof.
  unfold enc_var. cbn -[Qeq_bool]. rewrite !Z.eqb_refl.
  assert (Qeq_bool (sv_p v) (sv_p v) = true) as -> by (apply Qeq_bool_iff; reflexivity). reflexivity.
Qed.

Lemma enc_var_eq_key a b : py_eq (enc_var a) (enc_var b) = true -> sv_key a = sv_key b.
Proof.
  unfold enc_var. cbn -[Qeq_bool]. rewrite !andb_true_iff. intros (_ & _ & _ & _ & _ & K & _).
  apply Z.eqb_eq. exact K.
Qed.

(* rows are told apart by their keys: the identity of Variant objects *)
Definition keys_id (l1 l2 : list svar) : Prop :=
  forall a b, In a l1 -> In b l2 -> sv_key a = sv_key b -> a = b.

Lemma in_by_identity gone v :
  (forall b, In b gone -> sv_key b = sv_key v -> b = v) ->
  existsb (fun y => py_eq y (enc_var v)) (map enc_var gone) = has_key (sv_key v) gone.
Proof.
  unfold has_key. induction gone as [|b r IH]; intro H; [reflexivity|].
  cbn [map existsb]. rewrite IH by (intros x Hx; apply H; right; exact Hx). f_equal.
  destruct (sv_key b =? sv_key v) eqn:E.
  - apply Z.eqb_eq in E. rewrite (H b (or_introl eq_refl) E). apply enc_var_eq_refl.
  - destruct (py_eq (enc_var b) (enc_var v)) eqn:P; [|reflexivity].
    apply enc_var_eq_key in P. apply Z.eqb_neq in E. contradiction.
Qed.

Definition rc_body : stmt :=
  Eval cbv in match fbody src_RemoveClump with
              | SSeq _ (SSeq (SFor _ _ b) _) => b
              | _ => SSkip
              end.

Lemma rc_shape :
  src_RemoveClump =
  mkfun ["self"; "clumpvars"] ["keepvars"; "variant"]
    (SSeq (SAssign "keepvars" (EList []))
    (SSeq (SFor "variant" (EField (EVar "self") [(2, 0%nat)]) rc_body)
          (SAssign "self" (ENew 2 [EVar "keepvars"])))).
Proof. reflexivity. Qed.

Definition rc_env (l gone keep : list svar) (v : val) : env :=
  [("self", enc_stats l); ("clumpvars", enc_vars gone); ("keepvars", enc_vars keep); ("variant", v)].

Lemma rc_step l gone keep v fuel :
  (forall b, In b gone -> sv_key b = sv_key v -> b = v) ->
  exec (ft_1 fdiv eL eC fuel) rc_body fuel (rc_env l gone keep (enc_var v)) =
  ONorm (rc_env l gone (if negb (has_key (sv_key v) gone) then keep ++ [v] else keep) (enc_var v)).
Proof.
  intro H. unfold rc_body, rc_env. cbn -[enc_var py_eq ft_1].
  rewrite !nu_enc_var. cbn -[enc_var py_eq ft_1].
  rewrite (in_by_identity gone v H).
  destruct (has_key (sv_key v) gone); cbn -[enc_var py_eq ft_1]; [reflexivity|].
  unfold enc_vars. rewrite map_app. reflexivity.
Qed.

Arguments rc_body : simpl never.

Lemma rc_loop l gone fuel : forall (r : list svar) keep v0,
  keys_id gone r ->
  exists v',
  for_loop (exec (ft_1 fdiv eL eC fuel) rc_body fuel) "variant" (map enc_var r) (rc_env l gone keep v0) =
  ONorm (rc_env l gone (keep ++ remove_vars gone r) v').
Proof.
  induction r as [|v r IH]; intros keep v0 K.
  - exists v0. cbn [map for_loop remove_vars filter]. rewrite app_nil_r. reflexivity.
  - cbn [map for_loop remove_vars filter]. fold (remove_vars gone r).
    change (update "variant" (enc_var v) (rc_env l gone keep v0)) with (rc_env l gone keep (enc_var v)).
    rewrite rc_step by (intros b Hb; apply K; [exact Hb|left; reflexivity]).
    assert (keys_id gone r) as K' by (intros a b Ha Hb; apply K; [exact Ha|right; exact Hb]).
    destruct (negb (has_key (sv_key v) gone)).
    + destruct (IH (keep ++ [v]) (enc_var v) K') as (v' & E). exists v'. rewrite E, <- app_assoc. reflexivity.
    + apply IH. exact K'.
Qed.

(* removal by identity = by load key, whenever keys tell the rows concerned apart *)
Theorem TV_RemoveClump_refines : forall l gone fuel,
  keys_id gone l ->
  fn_RemoveClump fdiv eL eC fuel [enc_stats l; enc_vars gone] =
  Ok (VNone, [enc_stats (remove_vars gone l); enc_vars gone]).
Proof.
  intros l gone fuel K. unfold fn_RemoveClump, run_fun. rewrite rc_shape.
  cbn [fparams flocals fbody bind_params app map].
  cbn -[ft_1 rc_body for_loop enc_vars].
  change ([("self", enc_stats l); ("clumpvars", enc_vars gone); ("keepvars", VList []); ("variant", VUnbound)])
    with (rc_env l gone [] VUnbound).
  change (as_seq (enc_vars l)) with (Some (map enc_var l)). cbv iota.
  destruct (rc_loop l gone fuel l [] VUnbound K) as (v' & E). rewrite E. reflexivity.
Qed.

(* ---- the clumping loop of clumpstr ---- *)

Section Loop.
  (* thresholds and the values passed through to LoadVariant / ComputeLD *)
  Variables p1 kb r2 : Q.
  Variables gts ldt lg : val.
  Hypothesis gts_nu : gts <> VUnbound.
  Hypothesis ldt_nu : ldt <> VUnbound.
  Hypothesis lg_nu : lg <> VUnbound.
  (* contracts of the two untranslated functions: they return Python values, and ComputeLD a pair
     (Dprime, r2) whose second component is a number (int, float or nan) *)
  Hypothesis eL_value : forall a g, eL a = Ok g -> g <> VUnbound.
  Hypothesis eC_pair : forall a t, eC a = Ok t -> exists d r, t = VTuple [d; r] /\ as_flt r <> None.

  Lemma nu_read (v : val) : v <> VUnbound ->
    match v with VUnbound => @Err val 6 | _ => Ok v end = Ok v.
  Proof. destruct v; intro H; try reflexivity. exfalso. apply H. reflexivity. Qed.

Definition cl_cond : expr :=
  Eval cbv in match fbody src__clump_loop with SSeq _ (SWhile c _) => c | _ => ENone end.
Definition cl_body : stmt :=
  Eval cbv in match fbody src__clump_loop with SSeq _ (SWhile _ b) => b | _ => SSkip end.
Definition cl_inner : stmt :=
  Eval cbv in match cl_body with
              | SSeq _ (SSeq _ (SSeq _ (SSeq _ (SSeq (SFor _ _ b) _)))) => b
              | _ => SSkip end.
Definition cl_tail : stmt :=
  Eval cbv in match cl_body with
              | SSeq _ (SSeq _ (SSeq _ (SSeq _ (SSeq (SFor _ _ _) t)))) => t
              | _ => SSkip end.

Lemma cl_shape :
  src__clump_loop =
  mkfun ["summstats"; "clump_p1"; "clump_kb"; "clump_r2"; "gts"; "LD_type"; "log"; "$out"]
        ["indexvar"; "indexvar_gt"; "candidates"; "clumpvars"; "c"; "candidate_gt"; "Dprime"; "r2"; "_t1"]
    (SSeq (SAssign "indexvar" (ECall "GetNextIndexVariant" [EVar "summstats"; EVar "clump_p1"]))
          (SWhile cl_cond cl_body)).
Proof. reflexivity. Qed.

Lemma cl_body_shape :
  cl_body =
  SSeq (SAssign "indexvar_gt" (ECall "LoadVariant" [EVar "indexvar"; EVar "gts"; EVar "log"]))
  (SSeq (SAssign "candidates" (ECall "QueryWindow" [EVar "summstats"; EVar "indexvar"; EVar "clump_kb"]))
  (SSeq SSkip
  (SSeq (SAssign "clumpvars" (EList []))
  (SSeq (SFor "c" (EVar "candidates") cl_inner) cl_tail)))).
Proof. reflexivity. Qed.

(* the junk locals of the loop: indexvar_gt, candidates, clumpvars, c, candidate_gt, Dprime, r2, _t1 *)
Definition cl_env (st : list svar) (out : list val) (iv gi cands cv c cgt dp rv t1 : val) : env :=
  [("summstats", enc_stats st); ("clump_p1", VQ p1); ("clump_kb", VQ kb); ("clump_r2", VQ r2);
   ("gts", gts); ("LD_type", ldt); ("log", lg); ("$out", VList out);
   ("indexvar", iv); ("indexvar_gt", gi); ("candidates", cands); ("clumpvars", cv); ("c", c);
   ("candidate_gt", cgt); ("Dprime", dp); ("r2", rv); ("_t1", t1)].

Lemma in_step st out iv gi cands cvs c fuel cgt dp rv t1 :
  gi <> VUnbound ->
  exists cgt' dp' rv' t1',
  exec (ft_2 fdiv eL eC fuel) cl_inner fuel
       (cl_env st out (enc_var iv) gi cands (enc_vars cvs) (enc_var c) cgt dp rv t1) =
  match tv_pass eL eC gts ldt lg r2 gi iv c with
  | Err k => OErr k
  | Ok b => ONorm (cl_env st out (enc_var iv) gi cands (enc_vars (if b then cvs ++ [c] else cvs)) (enc_var c)
                          cgt' dp' rv' t1')
  end.
Proof.
  intro Hgi. unfold cl_inner, cl_env, tv_pass.
  cbn -[enc_var enc_vars enc_stats fn_QueryWindow fn_RemoveClump fn_GetNextIndexVariant Qle_bool].
  rewrite !nu_enc_var, !(nu_read gts gts_nu), !(nu_read lg lg_nu).
  cbn -[enc_var enc_vars enc_stats fn_QueryWindow fn_RemoveClump fn_GetNextIndexVariant Qle_bool].
  unfold ext_fn at 1 2.
  destruct (eL [enc_var c; gts; lg]) as [gc|k] eqn:EL; cbn [bind fst];
    [|exists cgt, dp, rv, t1; reflexivity].
  pose proof (eL_value _ _ EL) as Hgc.
  cbn -[enc_var enc_vars enc_stats fn_QueryWindow fn_RemoveClump fn_GetNextIndexVariant Qle_bool].
  rewrite !(nu_read gc Hgc), !(nu_read gi Hgi), !(nu_read ldt ldt_nu), !(nu_read lg lg_nu).
  cbn -[enc_var enc_vars enc_stats fn_QueryWindow fn_RemoveClump fn_GetNextIndexVariant Qle_bool].
  unfold ext_fn.
  destruct (eC [gc; gi; ldt; lg]) as [t|k] eqn:EC; cbn [bind fst];
    [|exists gc, dp, rv, t1; reflexivity].
  destruct (eC_pair _ _ EC) as (d & r & -> & Hr).
  exists gc, d, r, (VTuple [d; r]).
  cbn -[enc_var enc_vars enc_stats fn_QueryWindow fn_RemoveClump fn_GetNextIndexVariant Qle_bool].
  unfold Qlt_bool.
  destruct r; cbn [as_flt] in Hr; try (exfalso; apply Hr; reflexivity);
    cbn -[enc_var enc_vars enc_stats fn_QueryWindow fn_RemoveClump fn_GetNextIndexVariant Qle_bool];
    rewrite ?nu_enc_var;
    try (match goal with |- context [Qle_bool ?a ?b] => destruct (Qle_bool a b) end);
    cbn -[enc_var enc_vars enc_stats fn_QueryWindow fn_RemoveClump fn_GetNextIndexVariant Qle_bool];
    rewrite ?nu_enc_var; unfold enc_vars; rewrite ?map_app; try reflexivity.
Qed.

Arguments cl_inner : simpl never.

Local Notation win := (win_fdiv fdiv kb).
Local Notation load := (tv_load eL gts lg).
Local Notation pass := (tv_pass eL eC gts ldt lg r2).

Lemma in_loop st out iv gi cands fuel : gi <> VUnbound ->
  forall (cs cvs : list svar) c0 cgt dp rv t1,
  exists c' cgt' dp' rv' t1',
  for_loop (exec (ft_2 fdiv eL eC fuel) cl_inner fuel) "c" (map enc_var cs)
           (cl_env st out (enc_var iv) gi cands (enc_vars cvs) c0 cgt dp rv t1) =
  match filter_res (pass gi iv) cs with
  | Err k => OErr k
  | Ok ms => ONorm (cl_env st out (enc_var iv) gi cands (enc_vars (cvs ++ ms)) c' cgt' dp' rv' t1')
  end.
Proof.
  intro Hgi. induction cs as [|c cs IH]; intros cvs c0 cgt dp rv t1.
  - exists c0, cgt, dp, rv, t1. cbn [map for_loop filter_res]. rewrite app_nil_r. reflexivity.
  - cbn [map for_loop filter_res].
    change (update "c" (enc_var c) (cl_env st out (enc_var iv) gi cands (enc_vars cvs) c0 cgt dp rv t1))
      with (cl_env st out (enc_var iv) gi cands (enc_vars cvs) (enc_var c) cgt dp rv t1).
    destruct (in_step st out iv gi cands cvs c fuel cgt dp rv t1 Hgi) as (cgt1 & dp1 & rv1 & t11 & E).
    rewrite E. destruct (pass gi iv c) as [b|k]; cbn [bind].
    + destruct (IH (if b then cvs ++ [c] else cvs) (enc_var c) cgt1 dp1 rv1 t11) as (c' & cgt' & dp' & rv' & t1' & E2).
      exists c', cgt', dp', rv', t1'. rewrite E2.
      destruct (filter_res (pass gi iv) cs) as [ms|k]; cbn [bind]; [|reflexivity].
      destruct b; [rewrite <- app_assoc|]; reflexivity.
    + exists (enc_var c), cgt1, dp1, rv1, t11. reflexivity.
Qed.

Lemma filter_res_incl {A} (f : A -> res bool) l : forall s, filter_res f l = Ok s -> incl s l.
Proof.
  induction l as [|a l IH]; intros s H; cbn in H.
  - inversion H. intros ? [].
  - destruct (f a) as [b|]; cbn [bind] in H; [|discriminate].
    destruct (filter_res f l) as [s'|]; cbn [bind] in H; [|discriminate]. inversion H; subst.
    specialize (IH s' eq_refl). destruct b; intros x Hx.
    + destruct Hx as [<-|Hx]; [left; reflexivity|right; apply IH; exact Hx].
    + right. apply IH. exact Hx.
Qed.

Lemma keys_id_sub a b l : keys_id l l -> incl a l -> incl b l -> keys_id a b.
Proof. intros K Ha Hb x y Hx Hy. apply K; [apply Ha; exact Hx|apply Hb; exact Hy]. Qed.

(* one iteration of the while loop *)
Lemma body_step st out iv fuel gi cands cv c cgt dp rv t1 :
  keys_id st st -> In iv st ->
  exists gi' cands' cv' c' cgt' dp' rv' t1',
  exec (ft_2 fdiv eL eC fuel) cl_body fuel (cl_env st out (enc_var iv) gi cands cv c cgt dp rv t1) =
  match load iv with
  | Err k => OErr k
  | Ok g =>
      match filter_res (pass g iv) (query_window win iv st) with
      | Err k => OErr k
      | Ok ms =>
          ONorm (cl_env (remove_vars (ms ++ [iv]) st) (out ++ [enc_clump (iv, ms)])
                        (enc_opt (next_index p1 (remove_vars (ms ++ [iv]) st)))
                        gi' cands' cv' c' cgt' dp' rv' t1')
      end
  end.
Proof.
  intros K Hiv. rewrite cl_body_shape. unfold cl_env, tv_load.
  cbn -[enc_var enc_vars enc_stats fn_QueryWindow fn_RemoveClump fn_GetNextIndexVariant Qle_bool cl_inner cl_tail for_loop].
  rewrite !nu_enc_var, !(nu_read gts gts_nu), !(nu_read lg lg_nu).
  cbn -[enc_var enc_vars enc_stats fn_QueryWindow fn_RemoveClump fn_GetNextIndexVariant Qle_bool cl_inner cl_tail for_loop].
  unfold ext_fn at 1.
  destruct (eL [enc_var iv; gts; lg]) as [g|k] eqn:EL; cbn [bind fst];
    [|exists gi, cands, cv, c, cgt, dp, rv, t1; reflexivity].
  pose proof (eL_value _ _ EL) as Hg.
  cbn -[enc_var enc_vars enc_stats fn_QueryWindow fn_RemoveClump fn_GetNextIndexVariant Qle_bool cl_inner cl_tail for_loop].
  rewrite !nu_enc_var.
  cbn -[enc_var enc_vars enc_stats fn_QueryWindow fn_RemoveClump fn_GetNextIndexVariant Qle_bool cl_inner cl_tail for_loop].
  rewrite !nu_enc_stats. cbn [bind]. rewrite TV_QueryWindow_refines. cbn [bind fst].
  cbn -[enc_var enc_vars enc_stats fn_QueryWindow fn_RemoveClump fn_GetNextIndexVariant Qle_bool cl_inner cl_tail for_loop].
  rewrite nu_enc_vars. change (as_seq (enc_vars (query_window win iv st))) with (Some (map enc_var (query_window win iv st))).
  cbv iota.
  change ([("summstats", enc_stats st); ("clump_p1", VQ p1); ("clump_kb", VQ kb); ("clump_r2", VQ r2);
           ("gts", gts); ("LD_type", ldt); ("log", lg); ("$out", VList out); ("indexvar", enc_var iv);
           ("indexvar_gt", g); ("candidates", enc_vars (query_window win iv st)); ("clumpvars", VList []);
           ("c", c); ("candidate_gt", cgt); ("Dprime", dp); ("r2", rv); ("_t1", t1)])
    with (cl_env st out (enc_var iv) g (enc_vars (query_window win iv st)) (enc_vars []) c cgt dp rv t1).
  destruct (in_loop st out iv g (enc_vars (query_window win iv st)) fuel Hg (query_window win iv st) [] c cgt dp rv t1)
    as (c1 & cgt1 & dp1 & rv1 & t11 & E).
  rewrite E. cbn [app].
  destruct (filter_res (pass g iv) (query_window win iv st)) as [ms|k] eqn:F;
    [|exists g, (enc_vars (query_window win iv st)), cv, c, cgt, dp, rv, t1; reflexivity].
  unfold cl_tail, cl_env.
  cbn -[enc_var enc_vars enc_stats fn_QueryWindow fn_RemoveClump fn_GetNextIndexVariant Qle_bool].
  rewrite ?nu_enc_var, ?nu_enc_vars, ?nu_enc_stats.
  cbn -[enc_var enc_vars enc_stats fn_QueryWindow fn_RemoveClump fn_GetNextIndexVariant Qle_bool].
  rewrite ?nu_enc_var, ?nu_enc_vars, ?nu_enc_stats.
  cbn -[enc_var enc_vars enc_stats fn_QueryWindow fn_RemoveClump fn_GetNextIndexVariant Qle_bool].
  change (binop_sem Add (enc_vars ms) (VList [enc_var iv])) with (Ok (VList (map enc_var ms ++ map enc_var [iv]))).
  rewrite <- map_app. fold (enc_vars (ms ++ [iv])). cbn [bind].
  assert (incl ms st) as Hms.
  { intros x Hx. apply (filter_res_incl _ _ _ F) in Hx. unfold query_window in Hx. apply filter_In in Hx. tauto. }
  rewrite TV_RemoveClump_refines.
  2:{ apply (keys_id_sub _ _ st K); [|apply incl_refl].
      intros x Hx. apply in_app_or in Hx. destruct Hx as [Hx|[<-|[]]]; [apply Hms; exact Hx|exact Hiv]. }
  cbn -[enc_var enc_vars enc_stats fn_QueryWindow fn_RemoveClump fn_GetNextIndexVariant Qle_bool].
  rewrite ?nu_enc_var, ?nu_enc_vars, ?nu_enc_stats.
  cbn -[enc_var enc_vars enc_stats fn_QueryWindow fn_RemoveClump fn_GetNextIndexVariant Qle_bool].
  rewrite TV_GetNextIndexVariant_refines.
  cbn -[enc_var enc_vars enc_stats fn_QueryWindow fn_RemoveClump fn_GetNextIndexVariant Qle_bool].
  eexists _, _, _, _, _, _, _, _. reflexivity.
Qed.

Arguments cl_body : simpl never.

Lemma cl_cond_eval ft st out o gi cands cv c cgt dp rv t1 :
  eval ft cl_cond (cl_env st out (enc_opt o) gi cands cv c cgt dp rv t1) =
  Ok (VBool (match o with Some _ => true | None => false end)).
Proof. destruct o; reflexivity. Qed.

Lemma keys_id_remove gone st : keys_id st st -> keys_id (remove_vars gone st) (remove_vars gone st).
Proof.
  intros K a b Ha Hb. unfold remove_vars in Ha, Hb. apply filter_In in Ha. apply filter_In in Hb.
  apply K; tauto.
Qed.

(* the while loop: fuel [m] of the interpreter exceeds the number of rows, one unit of the model's
   fuel per row *)
Lemma cl_while fuel : forall n m st out gi cands cv c cgt dp rv t1,
  keys_id st st -> (List.length st <= n)%nat -> (n < m)%nat ->
  exists st' gi' cands' cv' c' cgt' dp' rv' t1',
  while_loop (exec (ft_2 fdiv eL eC fuel) cl_body fuel) (eval (ft_2 fdiv eL eC fuel) cl_cond) m
             (cl_env st out (enc_opt (next_index p1 st)) gi cands cv c cgt dp rv t1) =
  match clump_loop n p1 win load pass st with
  | Err k => OErr k
  | Ok cl => ONorm (cl_env st' (out ++ map enc_clump cl) VNone gi' cands' cv' c' cgt' dp' rv' t1')
  end.
Proof.
  induction n as [|n IH]; intros m st out gi cands cv c cgt dp rv t1 K Hn Hm.
  - destruct st; [|cbn in Hn; lia]. destruct m as [|m]; [lia|].
    exists [], gi, cands, cv, c, cgt, dp, rv, t1.
    cbn [clump_loop next_index scan_best while_loop]. rewrite cl_cond_eval. cbn [truthy map].
    rewrite app_nil_r. reflexivity.
  - destruct m as [|m]; [lia|]. cbn [clump_loop while_loop]. rewrite cl_cond_eval.
    destruct (next_index p1 st) as [iv|] eqn:N; cbn [truthy].
    2:{ exists st, gi, cands, cv, c, cgt, dp, rv, t1. cbn [map enc_opt]. rewrite app_nil_r. reflexivity. }
    cbn [enc_opt].
    pose proof (next_index_in _ _ _ N) as Hiv.
    destruct (body_step st out iv fuel gi cands cv c cgt dp rv t1 K Hiv)
      as (gi1 & cands1 & cv1 & c1 & cgt1 & dp1 & rv1 & t11 & E).
    rewrite E. destruct (load iv) as [g|k]; cbn [bind];
      [|exists st, gi, cands, cv, c, cgt, dp, rv, t1; reflexivity].
    destruct (filter_res (pass g iv) (query_window win iv st)) as [ms|k]; cbn [bind];
      [|exists st, gi, cands, cv, c, cgt, dp, rv, t1; reflexivity].
    pose proof (remove_shrinks iv ms st Hiv) as Hs.
    destruct (IH m (remove_vars (ms ++ [iv]) st) (out ++ [enc_clump (iv, ms)]) gi1 cands1 cv1 c1 cgt1 dp1 rv1 t11)
      as (st' & gi' & cands' & cv' & c' & cgt' & dp' & rv' & t1' & E2);
      [apply keys_id_remove; exact K|lia|lia|].
    exists st', gi', cands', cv', c', cgt', dp', rv', t1'. rewrite E2.
    destruct (clump_loop n p1 win load pass (remove_vars (ms ++ [iv]) st)) as [rest|k]; cbn [bind]; [|reflexivity].
    cbn [map]. rewrite <- app_assoc. reflexivity.
Qed.

(* The translated loop writes exactly the clumps of C17_Model.clump_loop (the list "$out" that stands
   for the calls of WriteClump), or stops with the same error, for every table whose rows are told
   apart by their keys, all thresholds, every rounding of the float division and all LoadVariant /
   ComputeLD functions within their contracts. *)
Theorem TV_clump_loop_refines : forall st out fuel,
  keys_id st st -> (List.length st < fuel)%nat ->
  res_map (fun r : val * list val => nth 7 (snd r) VNone)
          (fn__clump_loop fdiv eL eC fuel [enc_stats st; VQ p1; VQ kb; VQ r2; gts; ldt; lg; VList out]) =
  res_map (fun cl => VList (out ++ map enc_clump cl))
          (clump_loop (List.length st) p1 win load pass st).
Proof.
  intros st out fuel K Hf. unfold fn__clump_loop, run_fun. rewrite cl_shape.
  cbn [fparams flocals fbody bind_params app map].
  cbn -[enc_var enc_vars enc_stats fn_QueryWindow fn_RemoveClump fn_GetNextIndexVariant Qle_bool cl_body cl_cond while_loop].
  rewrite nu_enc_stats. cbn [bind]. rewrite TV_GetNextIndexVariant_refines. cbn [bind fst].
  cbn -[enc_var enc_vars enc_stats fn_QueryWindow fn_RemoveClump fn_GetNextIndexVariant Qle_bool cl_body cl_cond while_loop].
  change ([("summstats", enc_stats st); ("clump_p1", VQ p1); ("clump_kb", VQ kb); ("clump_r2", VQ r2);
           ("gts", gts); ("LD_type", ldt); ("log", lg); ("$out", VList out);
           ("indexvar", enc_opt (next_index p1 st)); ("indexvar_gt", VUnbound); ("candidates", VUnbound);
           ("clumpvars", VUnbound); ("c", VUnbound); ("candidate_gt", VUnbound); ("Dprime", VUnbound);
           ("r2", VUnbound); ("_t1", VUnbound)])
    with (cl_env st out (enc_opt (next_index p1 st)) VUnbound VUnbound VUnbound VUnbound VUnbound VUnbound VUnbound VUnbound).
  destruct (cl_while fuel (List.length st) fuel st out VUnbound VUnbound VUnbound VUnbound VUnbound VUnbound VUnbound VUnbound
              K (le_n _) Hf) as (st' & gi' & cands' & cv' & c' & cgt' & dp' & rv' & t1' & E).
  rewrite E. destruct (clump_loop (List.length st) p1 win load pass st) as [cl|k]; reflexivity.
Qed.

(* The greedy theorem about the translated loop: whenever it returns, what it wrote is a greedy
   clumping of the table - index order and ties, members = not-yet-clumped rows in the window that
   pass the r2 test made of the LoadVariant / ComputeLD results, removal - and no row is in two
   clumps. *)
Theorem TV_clump_loop_greedy : forall st out fuel r,
  keys_id st st -> (List.length st < fuel)%nat ->
  fn__clump_loop fdiv eL eC fuel [enc_stats st; VQ p1; VQ kb; VQ r2; gts; ldt; lg; VList out] = Ok r ->
  exists cl,
    nth 7 (snd r) VNone = VList (out ++ map enc_clump cl) /\
    greedy p1 win (tv_pb eL eC gts ldt lg r2) st cl /\
    ForallOrdPairs (fun c1 c2 => forall x, In x (clump_keys c1) -> In x (clump_keys c2) -> False) cl.
Proof.
  intros st out fuel r K Hf H. pose proof (TV_clump_loop_refines st out fuel K Hf) as R.
  rewrite H in R. cbn [res_map] in R.
  destruct (clump_loop (List.length st) p1 win load pass st) as [cl|k] eqn:C; cbn [res_map] in R; [|discriminate].
  exists cl. split; [inversion R; reflexivity|].
  assert (greedy p1 win (tv_pb eL eC gts ldt lg r2) st cl) as G.
  { eapply clump_loop_greedy. eapply clump_loop_as_total; [|exact C].
    intros iv gi x b L P. unfold tv_pb. rewrite L, P. reflexivity. }
  split; [exact G|eapply greedy_disjoint; exact G].
Qed.

End Loop.

(* rows with distinct load keys (every table C17_Model.rekey builds) are told apart by their keys *)
Lemma nodup_keys_id st : NoDup (map sv_key st) -> keys_id st st.
Proof. intros ND a b Ha Hb E. apply (nodup_map_inj sv_key st); assumption. Qed.



End TV.

Print Assumptions TV_GetNextIndexVariant_refines.
Print Assumptions TV_QueryWindow_refines.
Print Assumptions TV_RemoveClump_refines.
Print Assumptions TV_clump_loop_refines.
Print Assumptions TV_clump_loop_greedy.

(* With no rounding (fdiv x y = x / y exactly) the translated window test is C17_Model.win_q, the
   rational test |dpos| / 1000 < kb that holds_clump demands.  (The float64 quotient differs from the
   exact one only where it rounds onto kb itself: C17_Check.window_link, evaluated per case.) *)
Theorem TV_window_exact : forall kb iv v,
  win_fdiv (fun x y => x # Z.to_pos y) kb iv v = win_q kb iv v.
Proof. reflexivity. Qed.
Print Assumptions TV_window_exact.

(* the statement is not vacuous: the translated loop, interpreted, on a table with a repeated ID
   (two rows "7" 500 bp apart and a third variant on another chromosome), LoadVariant returning the
   variant itself and ComputeLD a constant pair *)
Example TV_clump_loop_example :
  let st := [mksv 7 1 1000 (1#1000) 0 0; mksv 7 1 1500 (1#500) 0 1; mksv 8 2 1000 (1#500) 0 2] in
  let eL := fun a : list val => match a with v :: _ => Ok v | _ => Err 96 end in
  let eC := fun _ : list val => Ok (VTuple [VNone; VQ 1]) in
  res_map (fun r : val * list val => nth 7 (snd r) VNone)
    (fn__clump_loop (fun x y => x # Z.to_pos y) eL eC 4
       [enc_stats st; VQ (1#100); VQ 1; VQ (1#2); VNone; VNone; VNone; VList []])
  = Ok (VList (map enc_clump [(mksv 7 1 1000 (1#1000) 0 0, [mksv 7 1 1000 (1#1000) 0 0; mksv 7 1 1500 (1#500) 0 1]);
                              (mksv 8 2 1000 (1#500) 0 2, [mksv 8 2 1000 (1#500) 0 2])])).
Proof. vm_compute. reflexivity. Qed.
Print Assumptions TV_clump_loop_example.
