(* Translation validation for C17, GetOverlappingSamples: the MiniPy syntax of the function's body (haptools/clump.py:
   the two calls of _SortSamples, the `while snp_counter < len(snp_inds) and str_counter < len(str_inds)` merge walk
   over the two sorted sample lists, and the return statement), REGENERATED FROM /repo's CURRENT SOURCE on every run
   (HVG.Gen_Clump, written by harness/pytrans.py), denotes exactly the hand-written C17_Model.overlapping that the
   theorems C17_overlapping_same_sample / C17_overlapping_complete are about - for ALL sample lists, under the
   contract that _SortSamples (not translated) returns the model's sort_samples.
   Compiled per run against the generated module; not part of the static build. *)
From HV Require Import Prelude MiniPy MiniPyFacts C17_Model C17_Proofs.
From HVG Require Import Gen_Clump TVM_C17O.
From Coq Require Import String QArith.
Open Scope string_scope.
Open Scope list_scope.
Open Scope Z_scope.

(* ---- the pieces of the generated term ---- *)

Definition ow_cond : expr :=
  Eval cbv in match fbody src__overlap_walk with
              | SSeq _ (SSeq _ (SSeq _ (SSeq _ (SSeq _ (SSeq _ (SSeq (SWhile c _) _)))))) => c
              | _ => ENone
              end.
Definition ow_body : stmt :=
  Eval cbv in match fbody src__overlap_walk with
              | SSeq _ (SSeq _ (SSeq _ (SSeq _ (SSeq _ (SSeq _ (SSeq (SWhile _ b) _)))))) => b
              | _ => SSkip
              end.
Definition ow_sort (t src names inds : string) : stmt :=
  SSeq (SAssign t (ECall "_SortSamples" [EVar src]))
  (SSeq (SIf (ECmp CNe (ELen (EVar t)) (EInt 2)) (SRaise 1) SSkip)
  (SSeq (SAssign names (EIndex (EVar t) (EInt 0)))
        (SAssign inds (EIndex (EVar t) (EInt 1))))).

Lemma ow_shape :
  src__overlap_walk =
  mkfun ["snpgts_samples"; "strgts_samples"]
        ["snp_match_inds"; "str_match_inds"; "snp_samples"; "snp_inds"; "str_samples"; "str_inds";
         "snp_counter"; "str_counter"; "_t1"; "_t2"]
    (SSeq (SAssign "snp_match_inds" (EList []))
    (SSeq (SAssign "str_match_inds" (EList []))
    (SSeq (ow_sort "_t1" "snpgts_samples" "snp_samples" "snp_inds")
    (SSeq (ow_sort "_t2" "strgts_samples" "str_samples" "str_inds")
    (SSeq (SAssign "snp_counter" (EInt 0))
    (SSeq (SAssign "str_counter" (EInt 0))
    (SSeq (SWhile ow_cond ow_body)
          (SReturn (ETuple [EVar "snp_match_inds"; EVar "str_match_inds"]))))))))).
Proof. reflexivity. Qed.

(* ---- list facts ---- *)

Lemma nthZ_mid {A} (p : list A) x r : nthZ (p ++ x :: r) (lenZ p) = Some x.
Proof.
  unfold nthZ, lenZ. assert (E : (Z.of_nat (List.length p) <? 0) = false) by (apply Z.ltb_ge; lia).
  rewrite E, Nat2Z.id, nth_error_app2 by lia. rewrite Nat.sub_diag. reflexivity.
Qed.

Lemma idx_mid {A} (f : A -> val) (p : list A) x r :
  index_sem (VList (map f (p ++ x :: r))) (VInt (lenZ p)) = Ok (f x).
Proof. rewrite index_list_map by (unfold lenZ; lia). rewrite nthZ_mid. reflexivity. Qed.

Lemma lenZ_snoc {A} (p : list A) x : lenZ (p ++ [x]) = lenZ p + 1.
Proof. unfold lenZ. rewrite app_length. cbn [List.length]. lia. Qed.

Lemma lenZ_app_cons {A} (p : list A) x r : (lenZ p <? lenZ (p ++ x :: r)) = true.
Proof. apply Z.ltb_lt. unfold lenZ. rewrite app_length. cbn [List.length]. lia. Qed.

Lemma lenZ_app_nil {A} (p : list A) : (lenZ p <? lenZ (p ++ [])) = false.
Proof. rewrite app_nil_r. apply Z.ltb_irrefl. Qed.

Lemma snoc_assoc {A} (p : list A) x r : p ++ x :: r = (p ++ [x]) ++ r.
Proof. rewrite <- app_assoc. reflexivity. Qed.

Section Walk.
  Variable fdiv : Z -> Z -> Q.
  Variables eL eC sortf : list val -> res val.
  Variables sn st : val.

  Notation ft := (ft_late0 fdiv eL eC sortf).
  Notation sl := (fun p : Z * Z => VInt (fst p)).
  Notation il := (fun p : Z * Z => VInt (snd p)).

  (* the environment during the walk: A, B the two sorted (name, index) lists, i, j the counters *)
  Definition oenv (m1 m2 : list Z) (A B : list (Z * Z)) (i j : Z) (t1 t2 : val) : env :=
    [("snpgts_samples", sn); ("strgts_samples", st);
     ("snp_match_inds", VList (map VInt m1)); ("str_match_inds", VList (map VInt m2));
     ("snp_samples", VList (map sl A)); ("snp_inds", VList (map il A));
     ("str_samples", VList (map sl B)); ("str_inds", VList (map il B));
     ("snp_counter", VInt i); ("str_counter", VInt j); ("_t1", t1); ("_t2", t2)].

  Hypothesis sn_bound : sn <> VUnbound.
  Hypothesis st_bound : st <> VUnbound.

  Lemma ow_cond_eval fuel m1 m2 A B i j t1 t2 :
    eval (ft fuel) ow_cond (oenv m1 m2 A B i j t1 t2)
    = Ok (VBool (if i <? lenZ A then j <? lenZ B else false)).
  Proof.
    unfold ow_cond, oenv. cbn -[lenZ Z.ltb]. rewrite !lenZ_map.
    destruct (i <? lenZ A); reflexivity.
  Qed.

  Lemma ow_body_exec fuel m1 m2 pa sa ia ra pb sb ib rb t1 t2 :
    exec (ft fuel) ow_body fuel
      (oenv m1 m2 (pa ++ (sa, ia) :: ra) (pb ++ (sb, ib) :: rb) (lenZ pa) (lenZ pb) t1 t2)
    = ONorm (if sb <? sa then
               oenv m1 m2 (pa ++ (sa, ia) :: ra) (pb ++ (sb, ib) :: rb) (lenZ pa) (lenZ pb + 1) t1 t2
             else if sb =? sa then
               oenv (m1 ++ [ia]) (m2 ++ [ib]) (pa ++ (sa, ia) :: ra) (pb ++ (sb, ib) :: rb)
                    (lenZ pa + 1) (lenZ pb + 1) t1 t2
             else
               oenv m1 m2 (pa ++ (sa, ia) :: ra) (pb ++ (sb, ib) :: rb) (lenZ pa + 1) (lenZ pb) t1 t2).
  Proof.
    unfold ow_body, oenv.
    cbn -[index_sem lenZ Z.add Z.ltb Z.eqb]. rewrite ?idx_mid.
    cbn -[index_sem lenZ Z.add Z.ltb Z.eqb].
    destruct (sb <? sa) eqn:C1.
    - cbn -[index_sem lenZ Z.add Z.ltb Z.eqb]. reflexivity.
    - cbn -[index_sem lenZ Z.add Z.ltb Z.eqb]. rewrite ?idx_mid.
      cbn -[index_sem lenZ Z.add Z.ltb Z.eqb].
      destruct (sb =? sa) eqn:C2.
      + cbn -[index_sem lenZ Z.add Z.ltb Z.eqb]. rewrite ?idx_mid.
        cbn -[index_sem lenZ Z.add Z.ltb Z.eqb]. rewrite ?idx_mid.
        cbn -[index_sem lenZ Z.add Z.ltb Z.eqb]. rewrite !map_app. reflexivity.
      + cbn -[index_sem lenZ Z.add Z.ltb Z.eqb]. reflexivity.
  Qed.

  (* the walk from any position: n = the interpreter's loop fuel, f = the model's *)
  Lemma ow_while fuel : forall n pa a pb b m1 m2 t1 t2 f,
    (List.length a + List.length b < n)%nat -> (List.length a + List.length b <= f)%nat ->
    exists i' j',
    while_loop (exec (ft fuel) ow_body fuel) (eval (ft fuel) ow_cond) n
      (oenv m1 m2 (pa ++ a) (pb ++ b) (lenZ pa) (lenZ pb) t1 t2)
    = ONorm (oenv (m1 ++ map fst (overlap f a b)) (m2 ++ map snd (overlap f a b)) (pa ++ a) (pb ++ b) i' j' t1 t2).
  Proof.
    induction n as [|n IH]; intros pa a pb b m1 m2 t1 t2 f Hn Hf; [lia|].
    cbn [while_loop]. rewrite ow_cond_eval.
    destruct a as [|[sa ia] ra].
    { rewrite lenZ_app_nil. cbn [truthy].
      assert (E : overlap f [] b = []) by (destruct f; reflexivity).
      rewrite E. cbn [map]. rewrite !app_nil_r. eexists; eexists; reflexivity. }
    rewrite lenZ_app_cons.
    destruct b as [|[sb ib] rb].
    { rewrite lenZ_app_nil. cbn [truthy].
      assert (E : overlap f ((sa, ia) :: ra) [] = []) by (destruct f; reflexivity).
      rewrite E. cbn [map]. rewrite !app_nil_r. eexists; eexists; reflexivity. }
    rewrite lenZ_app_cons. cbn [truthy]. rewrite ow_body_exec.
    cbn [List.length] in Hn, Hf. destruct f as [|f]; [lia|]. cbn [overlap].
    destruct (sb <? sa).
    - rewrite (snoc_assoc pb (sb, ib) rb), <- (lenZ_snoc pb (sb, ib)).
      apply IH; cbn [List.length]; lia.
    - destruct (sb =? sa).
      + rewrite (snoc_assoc pb (sb, ib) rb), <- (lenZ_snoc pb (sb, ib)).
        rewrite (snoc_assoc pa (sa, ia) ra), <- (lenZ_snoc pa (sa, ia)).
        destruct (IH (pa ++ [(sa, ia)]) ra (pb ++ [(sb, ib)]) rb (m1 ++ [ia]) (m2 ++ [ib]) t1 t2 f) as (i' & j' & E);
          [lia|lia|].
        rewrite E. exists i', j'. cbn [map fst snd]. rewrite <- !app_assoc. reflexivity.
      + rewrite (snoc_assoc pa (sa, ia) ra), <- (lenZ_snoc pa (sa, ia)).
        apply IH; cbn [List.length]; lia.
  Qed.
End Walk.

(* the contract of the untranslated _SortSamples: the (name, index) pairs sorted by name (ties by index), as two lists *)
Definition sort_contract (sortf : list val -> res val) : Prop :=
  forall tup names, sortf [enc_names tup names] = Ok (enc_sorted (sort_samples names)).

Lemma overlap_walk_refines fdiv eL eC sortf :
  sort_contract sortf -> forall tup1 tup2 snp str fuel,
  (List.length snp + List.length str < fuel)%nat ->
  fn__overlap_walk fdiv eL eC sortf fuel [enc_names tup1 snp; enc_names tup2 str]
  = Ok (enc_overlap (overlapping snp str), [enc_names tup1 snp; enc_names tup2 str]).
Proof.
  intros Hs tup1 tup2 snp str fuel Hf.
  assert (B1 : enc_names tup1 snp <> VUnbound) by (destruct tup1; discriminate).
  assert (B2 : enc_names tup2 str <> VUnbound) by (destruct tup2; discriminate).
  assert (R1 : forall (A : Type) (f : val -> A) (g : A),
             match enc_names tup1 snp with VUnbound => g | _ => f (enc_names tup1 snp) end = f (enc_names tup1 snp))
    by (intros; destruct tup1; reflexivity).
  assert (R2 : forall (A : Type) (f : val -> A) (g : A),
             match enc_names tup2 str with VUnbound => g | _ => f (enc_names tup2 str) end = f (enc_names tup2 str))
    by (intros; destruct tup2; reflexivity).
  unfold fn__overlap_walk, run_fun. rewrite ow_shape.
  cbn [fparams flocals fbody bind_params app map].
  unfold ow_sort.
  cbn -[enc_names enc_sorted sort_samples while_loop ow_cond ow_body].
  unfold read_var at 1. cbn -[enc_names enc_sorted sort_samples while_loop ow_cond ow_body].
  rewrite R1. cbn [bind]. unfold ext_fn at 1. rewrite Hs.
  cbn -[enc_names sort_samples while_loop ow_cond ow_body].
  unfold read_var at 1. cbn -[enc_names enc_sorted sort_samples while_loop ow_cond ow_body].
  rewrite R2. cbn [bind]. unfold ext_fn at 1. rewrite Hs.
  cbn -[enc_names sort_samples while_loop ow_cond ow_body].
  match goal with
  | |- context [while_loop _ _ _ ?en] =>
      change en with (oenv (enc_names tup1 snp) (enc_names tup2 str) [] [] ([] ++ sort_samples snp) ([] ++ sort_samples str)
                           (lenZ (@nil (Z * Z))) (lenZ (@nil (Z * Z)))
                           (enc_sorted (sort_samples snp)) (enc_sorted (sort_samples str)))
  end.
  destruct (ow_while fdiv eL eC sortf (enc_names tup1 snp) (enc_names tup2 str) fuel fuel
              [] (sort_samples snp) [] (sort_samples str) [] [] (enc_sorted (sort_samples snp)) (enc_sorted (sort_samples str))
              (List.length snp + List.length str)%nat) as (i' & j' & E).
  - rewrite !sort_samples_length. exact Hf.
  - rewrite !sort_samples_length. lia.
  - rewrite E. unfold oenv. cbn -[enc_names sort_samples overlap].
    rewrite ?app_nil_l. reflexivity.
Qed.

(* ================= the theorems ================= *)

(* for ALL sample tuples (or lists), any fuel above the two lengths: the translated GetOverlappingSamples returns the
   index lists of the model's `overlapping`, and leaves its arguments alone *)
Theorem TV_overlap_walk_refines :
  forall fdiv eL eC sortf, sort_contract sortf ->
  forall tup1 tup2 snp str fuel, (List.length snp + List.length str < fuel)%nat ->
  fn__overlap_walk fdiv eL eC sortf fuel [enc_names tup1 snp; enc_names tup2 str]
  = Ok (enc_overlap (overlapping snp str), [enc_names tup1 snp; enc_names tup2 str]).
Proof. exact overlap_walk_refines. Qed.
Print Assumptions TV_overlap_walk_refines.

(* the evaluation function of the tv_overlap relation is the model *)
Theorem TV_overlap_eval :
  forall snp str, tv_overlap snp str = Ok (map fst (overlapping snp str), map snd (overlapping snp str)).
Proof.
  intros snp str. unfold tv_overlap.
  rewrite (overlap_walk_refines no_fdiv no_ext no_ext sort_fn).
  - unfold enc_overlap.
    assert (D : forall l, dec_ints (map VInt l) = Some l)
      by (induction l as [|x r IH]; [reflexivity|cbn [map dec_ints]; rewrite IH; reflexivity]).
    rewrite !D. reflexivity.
  - intros tup names. unfold sort_fn.
    assert (D : forall l, dec_ints (map VInt l) = Some l)
      by (induction l as [|x r IH]; [reflexivity|cbn [map dec_ints]; rewrite IH; reflexivity]).
    destruct tup; cbn [enc_names as_seq]; rewrite D; reflexivity.
  - unfold ov_fuel. lia.
Qed.
Print Assumptions TV_overlap_eval.

(* C17_overlapping_same_sample about the translated code: it pairs only indices that name the same sample *)
Theorem TV_overlap_same_sample :
  forall fdiv eL eC sortf, sort_contract sortf ->
  forall tup1 tup2 snp str fuel r finals, (List.length snp + List.length str < fuel)%nat ->
  fn__overlap_walk fdiv eL eC sortf fuel [enc_names tup1 snp; enc_names tup2 str] = Ok (r, finals) ->
  exists ov, r = enc_overlap ov /\
  forall i j, In (i, j) ov -> exists s, nthZ snp i = Some s /\ nthZ str j = Some s.
Proof.
  intros fdiv eL eC sortf Hs tup1 tup2 snp str fuel r finals Hf H.
  rewrite (overlap_walk_refines fdiv eL eC sortf Hs) in H by exact Hf. inversion H; subst.
  exists (overlapping snp str). split; [reflexivity|].
  intros i j Hin. exact (overlapping_same_sample snp str i j Hin).
Qed.
Print Assumptions TV_overlap_same_sample.

(* C17_overlapping_complete about the translated code: it finds every sample the two files share *)
Theorem TV_overlap_complete :
  forall fdiv eL eC sortf, sort_contract sortf ->
  forall tup1 tup2 snp str fuel, (List.length snp + List.length str < fuel)%nat ->
  NoDup snp -> NoDup str ->
  exists ov,
  fn__overlap_walk fdiv eL eC sortf fuel [enc_names tup1 snp; enc_names tup2 str]
  = Ok (enc_overlap ov, [enc_names tup1 snp; enc_names tup2 str]) /\
  forall i j s, nthZ snp i = Some s -> nthZ str j = Some s -> In (i, j) ov.
Proof.
  intros fdiv eL eC sortf Hs tup1 tup2 snp str fuel Hf N1 N2.
  exists (overlapping snp str). split; [exact (overlap_walk_refines fdiv eL eC sortf Hs tup1 tup2 snp str fuel Hf)|].
  intros i j s H1 H2. exact (overlapping_complete snp str i j s N1 N2 H1 H2).
Qed.
Print Assumptions TV_overlap_complete.

(* the contract is satisfiable (the function the correspondence run evaluates the code with), and an evaluation *)
Theorem TV_overlap_contract_satisfiable :
  sort_contract sort_fn
  /\ tv_overlap [5; 3; 9; 1] [9; 2; 5; 7] = Ok ([0; 2], [2; 0]).
Proof.
  split.
  - intros tup names. unfold sort_fn.
    assert (D : forall l, dec_ints (map VInt l) = Some l)
      by (induction l as [|x r IH]; [reflexivity|cbn [map dec_ints]; rewrite IH; reflexivity]).
    destruct tup; cbn [enc_names as_seq]; rewrite D; reflexivity.
  - vm_compute. reflexivity.
Qed.
Print Assumptions TV_overlap_contract_satisfiable.
