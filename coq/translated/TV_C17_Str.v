(* Translation validation for C17, end to end: clumpstr with the TRANSLATED clumping loop in place
   of the hand-written one (TVM_C17.tv_clumpstr - what the tv_clump relation evaluates, with
   LoadVariant := the model's genotype lookup and ComputeLD := the r2 oracle) IS the hand model
   C17_Model.clumpstr with the window test win_fdiv, for every configuration, every rounding of
   the float division and every r2 oracle that looks at a variant only through (ID, CHROM, POS). *)
From HV Require Import Prelude MiniPy MiniPyFacts PearsonQ C17_Model C17_Check C17_Proofs.
From HVG Require Import Gen_Clump TVM_C17 TV_C17.
From Coq Require Import String QArith.
Open Scope string_scope.
Open Scope list_scope.
Open Scope Z_scope.

Lemma dec_enc_var v : dec_var (enc_var v) = Some v.
Proof. destruct v. reflexivity. Qed.

Lemma dec_enc_calls v calls :
  dec_calls (enc_calls v calls) = Some (mksv (sv_id v) (sv_chrom v) (sv_pos v) 0 0 0, calls).
Proof.
  unfold dec_calls, enc_calls. f_equal. f_equal. rewrite map_map.
  induction calls as [|[a b] r IH]; [reflexivity|]. cbn [map fst snd]. rewrite IH. reflexivity.
Qed.

Lemma dec_enc_vars l :
  fold_right (fun m a => match dec_var m, a with Some s, Some t => Some (s :: t) | _, _ => None end)
             (Some []) (map enc_var l) = Some l.
Proof. induction l as [|v r IH]; [reflexivity|]. cbn [map fold_right]. rewrite IH, dec_enc_var. reflexivity. Qed.

Lemma dec_enc_out cl : dec_out (VList (map enc_clump cl)) = Some cl.
Proof.
  unfold dec_out. induction cl as [|[iv ms] r IH]; [reflexivity|].
  cbn [map fold_right]. rewrite IH. unfold enc_clump, enc_vars. cbn [fst snd].
  rewrite dec_enc_var, dec_enc_vars. reflexivity.
Qed.

(* two loops whose genotype lookups and r2 tests correspond give the same clumps *)
Lemma filter_res_ext {A} (f g : A -> res bool) l : (forall a, f a = g a) -> filter_res f l = filter_res g l.
Proof. intro H. induction l as [|a l IH]; [reflexivity|]. cbn. rewrite H, IH. reflexivity. Qed.

Lemma clump_loop_rel {G1 G2} (R : svar -> G1 -> G2 -> Prop) p1 win
      (load1 : svar -> res G1) (load2 : svar -> res G2) pass1 pass2 :
  (forall iv, match load1 iv, load2 iv with
              | Ok g1, Ok g2 => R iv g1 g2
              | Err a, Err b => a = b
              | _, _ => False end) ->
  (forall iv g1 g2 c, R iv g1 g2 -> pass1 g1 iv c = pass2 g2 iv c) ->
  forall n st, clump_loop n p1 win load1 pass1 st = clump_loop n p1 win load2 pass2 st.
Proof.
  intros HL HP. induction n as [|n IH]; intro st; cbn [clump_loop].
  - reflexivity.
  - destruct (next_index p1 st) as [iv|]; [|reflexivity].
    specialize (HL iv). destruct (load1 iv) as [g1|a], (load2 iv) as [g2|b]; try contradiction; cbn [bind].
    + rewrite (filter_res_ext _ _ _ (fun c => HP iv g1 g2 c HL)).
      destruct (filter_res (pass2 g2 iv) (query_window win iv st)) as [ms|k]; cbn [bind]; [|reflexivity].
      rewrite IH. reflexivity.
    + subst. reflexivity.
Qed.

Section Str.
  Variable fdiv : Z -> Z -> Q.
  Variable orc : r2oracle.
  (* the oracle identifies a variant by (ID, CHROM, POS): true of pearson_oracle (it looks at the
     genotypes only) and of tab_oracle (C17_Check) *)
  Hypothesis orc_sig : forall iv c iv' c' gc gi,
    sv_sig iv = sv_sig iv' -> sv_sig c = sv_sig c' -> orc iv c gc gi = orc iv' c' gc gi.

  Lemma ev_load_value gts a g : ev_load gts a = Ok g -> g <> VUnbound.
  Proof.
    unfold ev_load. destruct a as [|v [|x [|y [|? ?]]]]; try discriminate.
    destruct (dec_var v) as [sv|]; [|discriminate]. destruct (load_variant gts sv); [|discriminate].
    intro H. inversion H. discriminate.
  Qed.

  Lemma ev_ld_pair a t : ev_ld orc a = Ok t -> exists d r, t = VTuple [d; r] /\ as_flt r <> None.
  Proof.
    unfold ev_ld. destruct a as [|gc [|gi [|x [|y [|? ?]]]]]; try discriminate.
    destruct (dec_calls gc) as [[c cc]|]; [|discriminate]. destruct (dec_calls gi) as [[iv ci]|]; [|discriminate].
    destruct (orc iv c cc ci) as [[q|]|]; [| |discriminate]; intro H; inversion H.
    - exists VNone, (VQ q). split; [reflexivity|discriminate].
    - exists VNone, VNaN. split; [reflexivity|discriminate].
  Qed.

  Lemma loop_is_model gts p1 kq r2 st :
    NoDup (map sv_key st) ->
    bind (fn__clump_loop fdiv (ev_load gts) (ev_ld orc) (S (List.length st))
            [enc_stats st; VQ p1; VQ kq; VQ r2; VNone; VNone; VNone; VList []])
         (fun r => match dec_out (nth 7 (snd r) VNone) with Some cl => Ok cl | None => Err E_Unsupported end) =
    clump_loop (List.length st) p1 (win_fdiv fdiv kq) (load_variant gts) (r2_pass orc r2 gts) st.
  Proof.
    intro ND.
    pose proof (TV_clump_loop_refines fdiv (ev_load gts) (ev_ld orc) p1 kq r2 VNone VNone VNone
                  ltac:(discriminate) ltac:(discriminate) ltac:(discriminate)
                  (ev_load_value gts) ev_ld_pair st [] (S (List.length st))
                  (nodup_keys_id st ND) (Nat.lt_succ_diag_r _)) as R.
    rewrite (clump_loop_rel (fun iv g1 g2 => g1 = enc_calls iv g2) p1 (win_fdiv fdiv kq)
               (tv_load (ev_load gts) VNone VNone) (load_variant gts)
               (tv_pass (ev_load gts) (ev_ld orc) VNone VNone VNone r2) (r2_pass orc r2 gts)) in R.
    - destruct (fn__clump_loop fdiv (ev_load gts) (ev_ld orc) (S (List.length st)) _) as [r|k];
        destruct (clump_loop (List.length st) p1 (win_fdiv fdiv kq) (load_variant gts) (r2_pass orc r2 gts) st) as [cl|k'];
        cbn [res_map bind] in *; try discriminate.
      + inversion R as [E]. rewrite E. cbn [app]. rewrite dec_enc_out. reflexivity.
      + inversion R. reflexivity.
    - intro iv. unfold tv_load, ev_load. rewrite dec_enc_var. destruct (load_variant gts iv); reflexivity.
    - intros iv g1 g2 c ->. unfold tv_pass, r2_pass, ev_load. rewrite dec_enc_var.
      destruct (load_variant gts c) as [gc|k]; cbn [bind]; [|reflexivity].
      unfold ev_ld. rewrite !dec_enc_calls.
      rewrite (orc_sig (mksv (sv_id iv) (sv_chrom iv) (sv_pos iv) 0 0 0) (mksv (sv_id c) (sv_chrom c) (sv_pos c) 0 0 0)
                       iv c gc g2 eq_refl eq_refl).
      destruct (orc iv c gc g2) as [[q|]|k]; reflexivity.
  Qed.

  Theorem TV_clumpstr_refines : forall kq c,
    tv_clumpstr fdiv orc kq c = clumpstr orc (win_fdiv fdiv kq) c.
  Proof.
    intros kq c. unfold tv_clumpstr, clumpstr, clumpstr_gen.
    destruct (negb (Bool.eqb (is_some (k_rows_snp c)) (is_some (k_snps c)))); [reflexivity|].
    destruct (negb (Bool.eqb (is_some (k_rows_str c)) (is_some (k_strs c)))); [reflexivity|].
    destruct (k_exact c && is_some (k_rows_str c)); [reflexivity|].
    destruct (opt_load (k_hdr_snp c) (k_fields c) (k_p2 c) 0 (k_rows_snp c)) as [s1|]; cbn [bind]; [|reflexivity].
    destruct (opt_load (k_hdr_str c) (k_fields c) (k_p2 c) 1 (k_rows_str c)) as [s2|]; cbn [bind]; [|reflexivity].
    destruct (match k_snps c with Some a => existsb snp_calls_bad (gs_vars a) | None => false end); [reflexivity|].
    destruct (merged_gts (k_snps c) (k_strs c)) as [gts|]; cbn [bind]; [|reflexivity].
    apply loop_is_model. apply rekey_nodup.
  Qed.
End Str.

Print Assumptions TV_clumpstr_refines.

(* the two oracles the correspondence uses satisfy the hypothesis *)
Theorem TV_oracles_by_signature :
  (forall iv c iv' c' gc gi, sv_sig iv = sv_sig iv' -> sv_sig c = sv_sig c' ->
     pearson_oracle iv c gc gi = pearson_oracle iv' c' gc gi) /\
  (forall tab iv c iv' c' gc gi, sv_sig iv = sv_sig iv' -> sv_sig c = sv_sig c' ->
     tab_oracle tab iv c gc gi = tab_oracle tab iv' c' gc gi).
Proof.
  split; [reflexivity|]. intros tab iv c iv' c' gc gi E1 E2. unfold tab_oracle. rewrite E1, E2. reflexivity.
Qed.
Print Assumptions TV_oracles_by_signature.
