(* Translation validation for C18: the MiniPy syntax of haptools/karyogram.py's GetChrom and of the WHOLE of
   GetHaplotypeBlocks, REGENERATED FROM /repo's CURRENT SOURCE on every run (HVG.Gen_Karyogram, written by
   harness/pytrans.py), denotes exactly the hand-written C18_Model.get_chrom / run / chrom_ends / ext_strand /
   get_blocks that the C18 theorems are about - for ALL files (lists of raw lines), tokenisers, sample names and
   chromosome-ends files: same blocks or same error kind.

   What is interpreted: the control flow (for / break / continue / assert / sys.exit), the framing state
   (sample_blocks, parsing_sample, blocks), len(), ==, indexing incl. [-1], the dict literal, the nested store
   sample_blocks[hap][tind - 1]["end"] = ..., enumerate, .copy(), chrom[3:], "X" in chrom.
   What is NOT interpreted (Section variables of the generated module; their contracts are the hypotheses below,
   each exactly the piece of BpText / C18_Model the model uses): str.strip().split() (any tokeniser [tok]),
   str.split("_") / "_".join (split_on / join_with; TV_join_split_is_before_last ties them to before_last),
   str.startswith / endswith (BpText.starts_with / ends_with), int() (returns an int or raises), float() and
   x + 0.0001 (any functions: C18_Model is instantiated with F := val, see TVM_C18.v), os.path.exists, open().
   Compiled per run against the generated module; not part of the static build. *)
From HV Require Import Prelude MiniPy MiniPyFacts BpText C18_Model C18_Check C18_Proofs C18_Property.
From HVG Require Import Gen_Karyogram TVM_C18.
From Coq Require Import String QArith.
Open Scope string_scope.
Open Scope list_scope.
Open Scope Z_scope.

Lemma text_sub_char c s : text_sub [c] s = mem_char c s.
Proof.
  induction s as [|x r IH]; [reflexivity|].
  cbn [text_sub text_prefix mem_char existsb]. rewrite IH.
  unfold mem_char. destruct r; rewrite andb_true_r; reflexivity.
Qed.

Lemma last_opt_map {A B} (f : A -> B) (l : list A) : last_opt (map f l) = option_map f (last_opt l).
Proof. unfold last_opt. rewrite <- map_rev. destruct (rev l); reflexivity. Qed.

Lemma index_m1 (l : list val) :
  index_sem (VList l) (VInt (-1)) = match last_opt l with Some x => Ok x | None => Err 2 end.
Proof.
  induction l as [|y l0 _] using rev_ind; [reflexivity|].
  rewrite last_opt_app. unfold index_sem. cbn [as_seq].
  change (-1 <? 0) with true. cbv iota.
  rewrite nth_z_nthZ. unfold nthZ, lenZ. rewrite app_length. cbn [List.length].
  replace (-1 + Z.of_nat (List.length l0 + 1)) with (Z.of_nat (List.length l0)) by lia.
  destruct (Z.of_nat (List.length l0) <? 0) eqn:E; [apply Z.ltb_lt in E; lia|].
  rewrite Nat2Z.id. rewrite nth_error_app2 by lia. rewrite Nat.sub_diag. reflexivity.
Qed.

Lemma index_m1_map {A} (f : A -> val) (l : list A) :
  index_sem (VList (map f l)) (VInt (-1)) = match last_opt l with Some x => Ok (f x) | None => Err 2 end.
Proof. rewrite index_m1, last_opt_map. destruct (last_opt l); reflexivity. Qed.

Lemma lenZ_eq0 {A} (l : list A) : (lenZ l =? 0) = match l with [] => true | _ => false end.
Proof. destruct l; [reflexivity|]. unfold lenZ. cbn [List.length]. apply Z.eqb_neq. lia. Qed.

Lemma lenZ_two_ne1 {A} (a b : A) l : (lenZ (a :: b :: l) =? 1) = false.
Proof. unfold lenZ. cbn [List.length]. apply Z.eqb_neq. lia. Qed.

Lemma lenZ_eq2 {A} (l : list A) : (lenZ l =? 2) = Nat.eqb (List.length l) 2.
Proof.
  unfold lenZ. destruct (Nat.eqb (List.length l) 2) eqn:E.
  - apply Nat.eqb_eq in E. rewrite E. reflexivity.
  - apply Nat.eqb_neq in E. apply Z.eqb_neq. lia.
Qed.

(* s.split(c) has at least one part, and more than one exactly when c occurs in s *)
Lemma split_on_cons c s : exists p ps, split_on c s = p :: ps.
Proof.
  induction s as [|x r (p & ps & IH)]; [exists [], []; reflexivity|].
  cbn [split_on]. destruct (x =? c); [eexists _, _; reflexivity|]. rewrite IH. eexists _, _; reflexivity.
Qed.

Lemma split_on_single c s : mem_char c s = false -> split_on c s = [s].
Proof.
  induction s as [|x r IH]; [reflexivity|]. cbn [mem_char existsb split_on]. fold (mem_char c r).
  rewrite Z.eqb_sym. destruct (x =? c); cbn [orb]; [discriminate|]. intro H. rewrite (IH H). reflexivity.
Qed.

Lemma split_on_many c s : mem_char c s = true -> exists p q ps, split_on c s = p :: q :: ps.
Proof.
  induction s as [|x r IH]; [discriminate|]. cbn [mem_char existsb split_on]. fold (mem_char c r).
  rewrite Z.eqb_sym. destruct (x =? c); cbn [orb].
  - intros _. destruct (split_on_cons c r) as (p & ps & E). rewrite E. eexists _, _, _; reflexivity.
  - intro H. destruct (IH H) as (p & q & ps & E). rewrite E. eexists _, _, _; reflexivity.
Qed.

(* "_".join(h.split("_")[:-1]) is BpText.before_last *)
Lemma join_split_before_last c s : join_with c (removelast (split_on c s)) = before_last c s.
Proof.
  induction s as [|x r IH]; [reflexivity|].
  cbn [split_on before_last]. destruct (mem_char c r) eqn:M.
  - destruct (split_on_many c r M) as (p & q & ps & E). rewrite E in *.
    destruct (x =? c) eqn:X.
    + apply Z.eqb_eq in X. subst x. rewrite <- IH.
      change (removelast ([] :: p :: q :: ps)) with ([] :: removelast (p :: q :: ps)).
      cbn [removelast]. cbn [join_with app]. reflexivity.
    + rewrite <- IH. cbn [removelast join_with]. destruct ps; reflexivity.
  - rewrite (split_on_single c r M). destruct (x =? c); reflexivity.
Qed.

Lemma slice_drop_last (l : list val) : l <> [] ->
  slice_sem (VList l) None (Some (VInt (-1))) = Ok (VList (removelast l)).
Proof.
  intro H. cbn [slice_sem bind]. unfold clampi, slice_list. change (-1 <? 0) with true. cbv iota.
  assert (1 <= lenZ l) as L by (unfold lenZ; destruct l; [congruence|cbn [List.length]; lia]).
  destruct (-1 + lenZ l <? 0) eqn:E1; [apply Z.ltb_lt in E1; lia|].
  destruct (lenZ l <? -1 + lenZ l) eqn:E2; [apply Z.ltb_lt in E2; lia|].
  cbn [Z.to_nat skipn]. rewrite Z.sub_0_r. f_equal. f_equal.
  replace (Z.to_nat (-1 + lenZ l)) with (List.length l - 1)%nat by (unfold lenZ; lia).
  clear. induction l as [|a [|b r] IH]; [reflexivity|reflexivity|].
  change (removelast (a :: b :: r)) with (a :: removelast (b :: r)). rewrite <- IH.
  cbn [List.length]. replace (S (S (List.length r)) - 1)%nat with (S (S (List.length r) - 1)) by lia. reflexivity.
Qed.

Lemma removelast_map {A B} (f : A -> B) l : removelast (map f l) = map f (removelast l).
Proof. induction l as [|a [|b r] IH]; [reflexivity|reflexivity|]. cbn [map removelast] in *. rewrite IH. reflexivity. Qed.

Lemma index_0 (x : val) l : index_sem (VList (x :: l)) (VInt 0) = Ok x.
Proof. reflexivity. Qed.
Lemma index_1 (x y : val) l : index_sem (VList (x :: y :: l)) (VInt 1) = Ok y.
Proof. reflexivity. Qed.
Lemma index_t0 (x y : val) : index_sem (VTuple [x; y]) (VInt 0) = Ok x.
Proof. reflexivity. Qed.
Lemma index_t1 (x y : val) : index_sem (VTuple [x; y]) (VInt 1) = Ok y.
Proof. reflexivity. Qed.
Lemma index_nil i : index_sem (VList []) (VInt i) = Err 2.
Proof. unfold index_sem. cbn [as_seq lenZ List.length]. destruct (i <? 0); unfold nth_z; destruct (_ <? 0); reflexivity. Qed.
Lemma index_chrom b : index_sem (enc_block b) (VText [99; 104; 114; 111; 109]) = Ok (VInt (h_chrom b)).
Proof. reflexivity. Qed.
Lemma index_end b : index_sem (enc_block b) (VText [101; 110; 100]) = Ok (h_end b).
Proof. reflexivity. Qed.

Lemma set_index_ends d c (e : val) :
  set_index (enc_ends d) (VInt c) e = Ok (enc_ends (dict_set Z.eqb c e d)).
Proof.
  unfold enc_ends, set_index. f_equal. f_equal.
  induction d as [|[k w] d IH]; [reflexivity|].
  cbn [map dict_set fst snd]. cbn [py_eq as_num]. rewrite Z.eqb_sym.
  destruct (c =? k); cbn [map fst snd]; [reflexivity|]. rewrite IH. reflexivity.
Qed.

Lemma index_ends d c :
  index_sem (enc_ends d) (VInt c) = match assoc Z.eqb c d with Some e => Ok e | None => Err 3 end.
Proof.
  unfold enc_ends, index_sem.
  induction d as [|[k w] d IH]; [reflexivity|].
  cbn [map assoc fst snd]. cbn [py_eq as_num]. rewrite Z.eqb_sym.
  destruct (c =? k); [reflexivity|]. exact IH.
Qed.

(* ---- indexing / storing in the middle of a list ---- *)
Lemma index_app_mid (l1 : list val) x l2 : index_sem (VList (l1 ++ x :: l2)) (VInt (lenZ l1)) = Ok x.
Proof.
  assert (0 <= lenZ l1) as H by (unfold lenZ; lia).
  rewrite index_list_nonneg by exact H. unfold nthZ.
  destruct (lenZ l1 <? 0) eqn:E; [apply Z.ltb_lt in E; lia|].
  unfold lenZ. rewrite Nat2Z.id, nth_error_app2 by lia. rewrite Nat.sub_diag. reflexivity.
Qed.

Lemma set_index_app_mid (l1 : list val) x l2 y :
  set_index (VList (l1 ++ x :: l2)) (VInt (lenZ l1)) y = Ok (VList (l1 ++ y :: l2)).
Proof.
  rewrite set_index_list.
  2:{ unfold lenZ. rewrite app_length. cbn [List.length]. lia. }
  unfold lenZ. rewrite Nat2Z.id. f_equal. f_equal.
  rewrite firstn_app, Nat.sub_diag, firstn_all. cbn [firstn]. rewrite app_nil_r. f_equal.
  replace (S (List.length l1)) with (List.length l1 + 1)%nat by lia.
  rewrite skipn_app. rewrite skipn_all2 by lia.
  replace (List.length l1 + 1 - List.length l1)%nat with 1%nat by lia. reflexivity.
Qed.

Lemma set_end_block (x : vblock) e :
  set_index (enc_block x) (VText [101; 110; 100]) e = Ok (enc_block (set_end val x e)).
Proof. reflexivity. Qed.

Lemma set_end_path (pre post : list (list vblock)) (done rest : list vblock) p e :
  set_path (enc_sb (pre ++ (done ++ p :: rest) :: post))
           [VInt (lenZ pre); VInt (lenZ done); VText [101; 110; 100]] e =
  Ok (enc_sb (pre ++ (done ++ set_end val p e :: rest) :: post)).
Proof.
  unfold enc_sb, enc_blocks. cbn [set_path].
  rewrite !map_app. cbn [map]. rewrite !map_app. cbn [map].
  rewrite <- (lenZ_map enc_blocks pre). unfold enc_blocks.
  rewrite index_app_mid. cbn [bind].
  rewrite <- (lenZ_map enc_block done).
  rewrite index_app_mid. cbn [bind]. rewrite set_end_block. cbn [bind].
  rewrite set_index_app_mid. cbn [bind]. rewrite set_index_app_mid. reflexivity.
Qed.

Lemma update_nth_last {A} (f : A -> A) (front : list A) z :
  update_nth (List.length front) f (front ++ [z]) = front ++ [f z].
Proof. induction front as [|a r IH]; [reflexivity|]. cbn [List.length app update_nth]. rewrite IH. reflexivity. Qed.

Lemma ext_loop_length {F} ends (l : list (hblock F)) : forall r, ext_loop F ends l = Ok r -> List.length r = List.length l.
Proof.
  induction l as [|b l IH]; intros r H; cbn [ext_loop] in H.
  - inversion H. reflexivity.
  - destruct l as [|b' l']; [inversion H; reflexivity|].
    destruct (if h_chrom b' =? h_chrom b then Ok b else _) as [b1|]; cbn [bind] in H; [|discriminate].
    destruct (ext_loop F ends (b' :: l')) as [r'|]; cbn [bind] in H; [|discriminate].
    inversion H. cbn [List.length]. f_equal. apply IH. reflexivity.
Qed.

Section TV.
  Variables eStrip eSplit eJoin eEnds eStarts eInt eFloat eExists eOpen eAdd : list val -> res val.
  Local Notation ftb := (ft_base eStrip eSplit eJoin eEnds eStarts eInt eFloat eExists eOpen eAdd).
  Local Notation fnGetChrom := (fn_GetChrom eStrip eSplit eJoin eEnds eStarts eInt eFloat eExists eOpen eAdd).

  Hypothesis starts_ok : forall s p, eStarts [VText s; VText p] = Ok (VBool (starts_with p s)).
  Hypothesis int_int : forall a v, eInt a = Ok v -> exists z, v = VInt z.

  Lemma slice3 s : slice_sem (VText s) (Some (VInt 3)) None = Ok (VText (skipn 3 s)).
  Proof.
    cbn [slice_sem bind]. unfold slice_list, clampi.
    assert (0 <= lenZ s) as H by (unfold lenZ; lia).
    destruct (3 <? 0) eqn:E1; [lia|]. destruct (3 <? 0) eqn:E2; [lia|].
    destruct (lenZ s <? 3) eqn:E3.
    - apply Z.ltb_lt in E3. rewrite Z.sub_diag. cbn [Z.to_nat firstn].
      rewrite skipn_all2 by (unfold lenZ in E3; lia). reflexivity.
    - apply Z.ltb_ge in E3. f_equal. f_equal.
      change (Z.to_nat 3) with 3%nat. rewrite firstn_all2; [reflexivity|].
      rewrite skipn_length. unfold lenZ in *. lia.
  Qed.

  Theorem TV_GetChrom_refines : forall s fuel,
    fnGetChrom fuel [VText s] =
    match tv_get_chrom eInt s with Ok z => Ok (VInt z, [VText s]) | Err k => Err k end.
  Proof.
    intros s fuel. unfold fn_GetChrom, run_fun, src_GetChrom, tv_get_chrom, get_chrom.
    cbn -[text_sub slice_sem ext_fn starts_with skipn mem_char].
    rewrite !text_sub_char. fold c_X.
    destruct (mem_char c_X s); cbn -[text_sub slice_sem ext_fn starts_with skipn mem_char]; [reflexivity|].
    rewrite !text_sub_char. fold c_Y.
    destruct (mem_char c_Y s); cbn -[text_sub slice_sem ext_fn starts_with skipn mem_char]; [reflexivity|].
    unfold ext_fn at 1. rewrite starts_ok. fold s_chr. cbn -[slice_sem ext_fn starts_with skipn].
    destruct (starts_with s_chr s); cbn -[slice_sem ext_fn starts_with skipn].
    - rewrite slice3. cbn -[skipn ext_fn]. unfold tv_parse_int, ext_fn.
      destruct (eInt [VText (skipn 3 s)]) as [v|k] eqn:E; cbn -[skipn]; [|reflexivity].
      destruct (int_int _ _ E) as (z & ->). reflexivity.
    - unfold tv_parse_int, ext_fn.
      destruct (eInt [VText s]) as [v|k] eqn:E; cbn; [|reflexivity].
      destruct (int_int _ _ E) as (z & ->). reflexivity.
  Qed.

  (* ---- GetHaplotypeBlocks: the pieces of the regenerated syntax ---- *)

  Definition gh_body : stmt := Eval cbv in fbody src_GetHaplotypeBlocks.
  Definition parse_body : stmt :=
    Eval cbv in match gh_body with
                | SSeq _ (SSeq _ (SSeq _ (SSeq _ (SSeq (SSeq _ (SFor _ _ b)) _)))) => b
                | _ => SSkip end.
  Definition cen_part : stmt :=
    Eval cbv in match gh_body with
                | SSeq _ (SSeq _ (SSeq _ (SSeq _ (SSeq _ (SSeq _ (SSeq (SIf _ c _) _)))))) => c
                | _ => SSkip end.
  Definition cen_body : stmt :=
    Eval cbv in match cen_part with
                | SSeq _ (SSeq (SSeq _ (SFor _ _ b)) _) => b
                | _ => SSkip end.
  Definition ext_body : stmt :=
    Eval cbv in match cen_part with
                | SSeq _ (SSeq _ (SFor _ _ b)) => b
                | _ => SSkip end.
  Definition inner_body : stmt :=
    Eval cbv in match ext_body with
                | SSeq _ (SSeq _ (SSeq _ (SSeq (SFor _ _ b) _))) => b
                | _ => SSkip end.
  Definition final_store : stmt :=
    Eval cbv in match ext_body with
                | SSeq _ (SSeq _ (SSeq _ (SSeq (SFor _ _ _) t))) => t
                | _ => SSkip end.

  Lemma gh_shape :
    src_GetHaplotypeBlocks =
    mkfun ["bp_file"; "sample_name"; "centromeres_file"]
          ["sample_blocks"; "parsing_sample"; "blocks"; "f"; "line"; "chrom_ends"; "cfile"; "hap"; "block";
           "prev_chrom"; "tind"; "tract"; "hap_block"; "chrom_data"; "cur_chrom"; "start"; "_t1"; "_t2"]
      (SSeq (SAssign "sample_blocks" (EList []))
      (SSeq (SAssign "parsing_sample" (EBool false))
      (SSeq (SAssign "blocks" (EList []))
      (SSeq (SIf (ENot (ECall "$c.os.path.exists" [EVar "bp_file"])) (SSeq SSkip (SRaise 10)) SSkip)
      (SSeq (SSeq (SAssign "f" (ECall "$c.open" [EVar "bp_file"; EText s_r]))
                  (SFor "line" (EVar "f") parse_body))
      (SSeq (SIf (EVar "parsing_sample") (SAppend (LVar "sample_blocks") (EVar "blocks")) SSkip)
      (SSeq (SIf (EVar "centromeres_file") cen_part SSkip)
            (SReturn (EVar "sample_blocks"))))))))).
  Proof. reflexivity. Qed.

  Lemma cen_shape :
    cen_part =
    SSeq (SAssign "chrom_ends" (EDict []))
    (SSeq (SSeq (SAssign "cfile" (ECall "$c.open" [EVar "centromeres_file"; EText s_r]))
                (SFor "line" (EVar "cfile") cen_body))
          (SFor "_t1" (EEnumerate (EVar "sample_blocks")) ext_body)).
  Proof. reflexivity. Qed.

  Lemma ext_shape :
    ext_body =
    SSeq (SAssign "hap" (EIndex (EVar "_t1") (EInt 0)))
    (SSeq (SAssign "block" (EIndex (EVar "_t1") (EInt 1)))
    (SSeq (SAssign "prev_chrom" (EIndex (EIndex (EVar "block") (EInt 0)) (EText k_chrom)))
    (SSeq (SFor "_t2" (EEnumerate (EVar "block")) inner_body) final_store))).
  Proof. reflexivity. Qed.

  (* the environment: parameters, then the locals in the order the translator declares them *)
  Definition genv (bp nm cf sb ps bl f line ce cfile hap block pc tind tract hbk cd cc start t1 t2 : val) : env :=
    [("bp_file", bp); ("sample_name", nm); ("centromeres_file", cf);
     ("sample_blocks", sb); ("parsing_sample", ps); ("blocks", bl); ("f", f); ("line", line);
     ("chrom_ends", ce); ("cfile", cfile); ("hap", hap); ("block", block); ("prev_chrom", pc); ("tind", tind);
     ("tract", tract); ("hap_block", hbk); ("chrom_data", cd); ("cur_chrom", cc); ("start", start);
     ("_t1", t1); ("_t2", t2)].


  (* ---- contracts of the remaining untranslated operations ---- *)
  Hypothesis ends_ok : forall s p, eEnds [VText s; VText p] = Ok (VBool (ends_with p s)).
  Hypothesis split_ok : forall s c, eSplit [VText s; VText [c]] = Ok (VList (map VText (split_on c s))).
  Hypothesis join_ok : forall c l, eJoin [VText [c]; VList (map VText l)] = Ok (VText (join_with c l)).
  (* line.strip().split(): the tokens of a raw line, by any tokeniser [tok] *)
  Variable tok : str -> list str.
  Hypothesis tok_ok : forall r, exists x, eStrip [VText r] = Ok x /\ eSplit [x] = Ok (enc_toks (tok r)).
  (* float() returns a value to which 0.0001 can be added *)
  Definition isf (v : val) : Prop := exists a, eFloat a = Ok v.
  Hypothesis add_ok : forall v, isf v -> exists r, eAdd [v; VQ eps_q] = Ok r /\ r <> VUnbound.

  Local Notation ft0 := (ft_0 eStrip eSplit eJoin eEnds eStarts eInt eFloat eExists eOpen eAdd).
  Local Notation m_step := (step val (tv_parse_flt eFloat) (tv_parse_int eInt) tv_eps (tv_plus_eps eAdd)).
  Local Notation m_run := (run val (tv_parse_flt eFloat) (tv_parse_int eInt) tv_eps (tv_plus_eps eAdd)).
  Local Notation m_add_block := (add_block val (tv_parse_flt eFloat) (tv_parse_int eInt) tv_eps (tv_plus_eps eAdd)).

  Lemma nu_read (v : val) : v <> VUnbound -> match v with VUnbound => @Err val 6 | _ => Ok v end = Ok v.
  Proof. destruct v; intro H; try reflexivity. exfalso. apply H. reflexivity. Qed.
  Lemma nu_enc_sb l : match enc_sb l with VUnbound => @Err val 6 | _ => Ok (enc_sb l) end = Ok (enc_sb l).
  Proof. reflexivity. Qed.
  Lemma nu_enc_blocks l : match enc_blocks l with VUnbound => @Err val 6 | _ => Ok (enc_blocks l) end = Ok (enc_blocks l).
  Proof. reflexivity. Qed.
  Lemma nu_enc_block l : match enc_block l with VUnbound => @Err val 6 | _ => Ok (enc_block l) end = Ok (enc_block l).
  Proof. reflexivity. Qed.
  Lemma nu_enc_toks l : match enc_toks l with VUnbound => @Err val 6 | _ => Ok (enc_toks l) end = Ok (enc_toks l).
  Proof. reflexivity. Qed.

  Definition blocks_isf (l : list vblock) : Prop := Forall (fun b => isf (h_end b)) l.

  Definition hdr_stmt : stmt :=
    Eval cbv in match parse_body with SSeq _ (SSeq (SIf _ h _) _) => h | _ => SSkip end.
  Definition add_stmt : stmt :=
    Eval cbv in match parse_body with SSeq _ (SSeq _ (SIf _ a _)) => a | _ => SSkip end.
  Definition assert_stmt : stmt := Eval cbv in match hdr_stmt with SSeq a _ => a | _ => SSkip end.
  Definition app_stmt : stmt := Eval cbv in match hdr_stmt with SSeq _ (SSeq a _) => a | _ => SSkip end.
  Definition brk_stmt : stmt := Eval cbv in match hdr_stmt with SSeq _ (SSeq _ (SSeq a _)) => a | _ => SSkip end.
  Definition name_stmt : stmt := Eval cbv in match hdr_stmt with SSeq _ (SSeq _ (SSeq _ a)) => a | _ => SSkip end.
  Lemma parse_shape :
    parse_body =
    SSeq (SAssign "line" (ECall "$m.split" [ECall "$m.strip" [EVar "line"]]))
    (SSeq (SIf (ECmp CEq (ELen (EVar "line")) (EInt 1)) hdr_stmt SSkip)
          (SIf (EVar "parsing_sample") add_stmt SSkip)).
  Proof. reflexivity. Qed.
  Lemma hdr_shape : hdr_stmt = SSeq assert_stmt (SSeq app_stmt (SSeq brk_stmt name_stmt)).
  Proof. reflexivity. Qed.

  Section ParseLoop.
    Variable name : str.
    Variables bp cf fv ce cfile hap block pc tind tract cd cc t1 t2 : val.

    Definition penv (sb : list (list vblock)) (ps : bool) (bl : list vblock) (line hbk start : val) : env :=
      genv bp (VText name) cf (enc_sb sb) (VBool ps) (enc_blocks bl) fv line
           ce cfile hap block pc tind tract hbk cd cc start t1 t2.

    Ltac hx := cbn -[enc_sb enc_blocks enc_block fn_GetChrom ext_fn ends_with split_on join_with before_last
                     slice_sem lenZ str_eqb].

    Lemma assert_exec sb ps bl h hbk start fuel :
      exec (ft0 fuel) assert_stmt fuel (penv sb ps bl (VList [VText h]) hbk start) =
      if negb (ends_with sfx_1 h || ends_with sfx_2 h) then OErr 8
      else ONorm (penv sb ps bl (VList [VText h]) hbk start).
    Proof.
      unfold assert_stmt, penv, genv. hx. unfold ext_fn at 1. rewrite ends_ok. cbn [bind fst truthy].
      change [95; 49] with sfx_1. change [95; 50] with sfx_2.
      destruct (ends_with sfx_1 h); [reflexivity|].
      unfold ext_fn. rewrite ends_ok. cbn [bind fst truthy orb]. destruct (ends_with sfx_2 h); reflexivity.
    Qed.

    Lemma app_exec sb ps bl line hbk start fuel :
      exec (ft0 fuel) app_stmt fuel (penv sb ps bl line hbk start) =
      ONorm (penv (if ps then sb ++ [bl] else sb) ps bl line hbk start).
    Proof.
      unfold app_stmt, penv, genv. hx. destruct ps; [|reflexivity]. hx.
      unfold enc_sb. rewrite map_app. reflexivity.
    Qed.

    Lemma brk_exec sb ps bl line hbk start fuel :
      exec (ft0 fuel) brk_stmt fuel (penv sb ps bl line hbk start) =
      if Nat.eqb (List.length sb) 2 then OBrk (penv sb false bl line hbk start)
      else ONorm (penv sb ps bl line hbk start).
    Proof.
      unfold brk_stmt, penv, genv. hx.
      unfold enc_sb. cbn [bind py_eq as_num]. rewrite lenZ_map, lenZ_eq2. cbn [truthy].
      destruct (Nat.eqb (List.length sb) 2); reflexivity.
    Qed.

    Lemma name_exec sb ps bl h hbk start fuel :
      exec (ft0 fuel) name_stmt fuel (penv sb ps bl (VList [VText h]) hbk start) =
      if str_eqb name (before_last c_us h) then OCont (penv sb true [] (VList [VText h]) hbk start)
      else ONorm (penv sb false bl (VList [VText h]) hbk start).
    Proof.
      unfold name_stmt, penv, genv. hx. unfold ext_fn at 1. rewrite split_ok. cbn [bind fst].
      rewrite slice_drop_last.
      2:{ destruct (split_on_cons 95 h) as (p & q & ->). discriminate. }
      rewrite removelast_map. cbn [bind]. unfold ext_fn. rewrite join_ok. cbn [bind fst].
      rewrite join_split_before_last. cbn [py_eq as_num]. fold c_us. fold (str_eqb name (before_last c_us h)).
      destruct (str_eqb name (before_last c_us h)); reflexivity.
    Qed.

    Arguments assert_stmt : simpl never.
    Arguments app_stmt : simpl never.
    Arguments brk_stmt : simpl never.
    Arguments name_stmt : simpl never.

    Lemma hdr_exec sb ps bl h hbk start fuel :
      exec (ft0 fuel) hdr_stmt fuel (penv sb ps bl (VList [VText h]) hbk start) =
      if negb (ends_with sfx_1 h || ends_with sfx_2 h) then OErr 8 else
      let sb' := if ps then sb ++ [bl] else sb in
      if Nat.eqb (List.length sb') 2 then OBrk (penv sb' false bl (VList [VText h]) hbk start)
      else if str_eqb name (before_last c_us h) then OCont (penv sb' true [] (VList [VText h]) hbk start)
      else ONorm (penv sb' false bl (VList [VText h]) hbk start).
    Proof.
      rewrite hdr_shape, exec_seq, assert_exec.
      destruct (negb (ends_with sfx_1 h || ends_with sfx_2 h)); [reflexivity|].
      rewrite exec_seq, app_exec, exec_seq, brk_exec. cbv zeta.
      destruct (Nat.eqb (List.length (if ps then sb ++ [bl] else sb)) 2); [reflexivity|].
      apply name_exec.
    Qed.

    Lemma add_block_isf (l : list str) bl bl' : m_add_block l bl = Ok bl' -> blocks_isf bl -> blocks_isf bl'.
    Proof.
      unfold add_block. destruct l as [|k0 [|k1 l']]; try discriminate.
      destruct (get_chrom (tv_parse_int eInt) k1) as [c|]; cbn [bind]; [|discriminate].
      destruct (last_opt (k0 :: k1 :: l')) as [tl|]; [|discriminate].
      destruct (tv_parse_flt eFloat tl) as [e|] eqn:E; cbn [bind]; [|discriminate].
      intros H I. inversion H; subst. apply Forall_app. split; [exact I|].
      constructor; [|constructor]. cbn [h_end]. exists [VText tl]. exact E.
    Qed.

    Ltac hy := cbn -[enc_sb enc_blocks enc_block fn_GetChrom ext_fn ends_with split_on join_with before_last
                     slice_sem lenZ str_eqb index_sem last_opt].

    Lemma add_exec sb bl (l : list str) hbk start fuel :
      (forall h, l <> [h]) -> blocks_isf bl ->
      exists hbk' start',
      exec (ft0 fuel) add_stmt fuel (penv sb true bl (VList (map VText l)) hbk start) =
      match m_add_block l bl with
      | Err k => OErr k
      | Ok bl' => ONorm (penv sb true bl' (VList (map VText l)) hbk' start')
      end.
    Proof.
      intros NH ISF. unfold add_stmt, penv, genv.
      destruct l as [|a [|b l']]; [| exfalso; apply (NH a); reflexivity |].
      - (* a blank line *)
        destruct bl as [|lb0 bl0 _] using rev_ind.
        + exists hbk, (VQ eps_q). hy. rewrite index_nil. reflexivity.
        + exists hbk, start. hy. unfold enc_blocks. cbn [bind py_eq as_num]. rewrite lenZ_map, lenZ_eq0.
          destruct (bl0 ++ [lb0]) eqn:E; [destruct bl0; discriminate|]. rewrite <- E. cbn [truthy].
          hy. rewrite index_m1_map, last_opt_app. cbn [bind]. rewrite index_chrom, index_nil. reflexivity.
      - (* a block line *)
        pose proof (TV_GetChrom_refines b fuel) as GC.
        unfold add_block. change (get_chrom (tv_parse_int eInt) b) with (tv_get_chrom eInt b).
        cbn [map].
        assert (IDX : index_sem (VList (VText a :: VText b :: map VText l')) (VInt (-1)) =
                      match @last_opt str (a :: b :: l') with Some x => Ok (VText x) | None => Err 2 end).
        { change (VText a :: VText b :: map VText l') with (map VText (a :: b :: l')). exact (index_m1_map VText (a :: b :: l')). }
        destruct (tv_get_chrom eInt b) as [c|k] eqn:G; cbn [bind].
        2:{ (* the chromosome does not parse *)
            destruct bl as [|lb0 bl0 _] using rev_ind.
            - exists hbk, (VQ eps_q). unfold enc_blocks. hy. change (lenZ (@nil val) =? 0) with true. hy.
              rewrite index_0, index_1. cbn [bind]. rewrite GC. reflexivity.
            - exists hbk, start. hy. unfold enc_blocks. cbn [bind py_eq as_num]. rewrite lenZ_map, lenZ_eq0.
              destruct (bl0 ++ [lb0]) eqn:E; [destruct bl0; discriminate|]. rewrite <- E. cbn [truthy].
              hy. rewrite index_m1_map, last_opt_app. cbn [bind]. rewrite index_chrom, index_1. cbn [bind].
              rewrite GC. reflexivity. }
        unfold tv_parse_flt.
        assert (BL : bl = [] \/ exists bl0 lb0, bl = bl0 ++ [lb0]).
        { destruct bl as [|lb0 bl0 _] using rev_ind; [left; reflexivity|right; eexists _, _; reflexivity]. }
        destruct BL as [->|(bl0 & lb0 & ->)].
        + (* first block of the strand *)
          change (last_opt (@nil (hblock val))) with (@None (hblock val)). cbv iota.
          destruct (@last_opt str (a :: b :: l')) as [tl|] eqn:L.
          2:{ exists hbk, (VQ eps_q). unfold enc_blocks. hy. change (lenZ (@nil val) =? 0) with true. hy.
              rewrite index_0, index_1. cbn [bind]. rewrite GC. cbn [bind fst]. rewrite IDX. rewrite ?L. reflexivity. }
          destruct (eFloat [VText tl]) as [e|k] eqn:Fl; cbn [bind].
          2:{ exists hbk, (VQ eps_q). unfold enc_blocks. hy. change (lenZ (@nil val) =? 0) with true. hy.
              rewrite index_0, index_1. cbn [bind]. rewrite GC. cbn [bind fst]. rewrite IDX. cbn [bind].
              unfold ext_fn. rewrite ?L, Fl. reflexivity. }
          exists (enc_block (mkhb a c tv_eps e)), (VQ eps_q).
          unfold enc_blocks. hy. change (lenZ (@nil val) =? 0) with true. hy.
          rewrite index_0, index_1. cbn [bind]. rewrite GC. cbn [bind fst]. rewrite IDX. cbn [bind].
          unfold ext_fn. rewrite ?L, Fl. cbn [bind fst]. hy. rewrite ?L, ?Fl. reflexivity.
        + (* a further block *)
          apply Forall_app in ISF. destruct ISF as (_ & ISF). inversion ISF as [|? ? Hisf _]; subst.
          destruct (add_ok _ Hisf) as (rv & Hadd & Hnu).
          rewrite last_opt_app.
          set (sv := if h_chrom lb0 =? c then rv else VQ eps_q).
          assert (Hsv : sv <> VUnbound) by (unfold sv; destruct (h_chrom lb0 =? c); [exact Hnu|discriminate]).
          assert (Hst : (if h_chrom lb0 =? c then tv_plus_eps eAdd (h_end lb0) else tv_eps) = sv).
          { unfold sv, tv_plus_eps. rewrite Hadd. reflexivity. }
          rewrite Hst.
          assert (START : forall hb0 st0,
            exec (ft0 fuel)
              (match add_stmt with SSeq s _ => s | _ => SSkip end) fuel
              (genv bp (VText name) cf (enc_sb sb) (VBool true) (enc_blocks (bl0 ++ [lb0])) fv
                 (VList (VText a :: VText b :: map VText l')) ce cfile hap block pc tind tract hb0 cd cc st0 t1 t2) =
            ONorm (genv bp (VText name) cf (enc_sb sb) (VBool true) (enc_blocks (bl0 ++ [lb0])) fv
                 (VList (VText a :: VText b :: map VText l')) ce cfile hap block pc tind tract hb0 cd cc sv t1 t2)).
          { intros hb0 st0. unfold add_stmt, genv, enc_blocks. hy. rewrite lenZ_map, lenZ_eq0.
            destruct (bl0 ++ [lb0]) eqn:E; [destruct bl0; discriminate|]. rewrite <- E. cbn [truthy].
            hy. rewrite index_m1_map, last_opt_app. cbn [bind]. rewrite index_chrom, index_1. cbn [bind].
            rewrite GC. cbn [bind fst py_eq as_num]. unfold sv.
            destruct (h_chrom lb0 =? c); cbn [negb truthy]; [|reflexivity].
            hy. rewrite index_end. cbn [bind].
            unfold ext_fn. change (7378697629483821 # 73786976294838206464) with eps_q. rewrite Hadd. reflexivity. }
          unfold add_stmt, genv in START. cbv iota in START.
          rewrite exec_seq.
          destruct (@last_opt str (a :: b :: l')) as [tl|] eqn:L.
          2:{ exists hbk, sv. rewrite START. hy. rewrite index_0, index_1. cbn [bind]. rewrite GC. cbn [bind fst].
              rewrite (nu_read sv Hsv). cbn [bind]. rewrite IDX. reflexivity. }
          destruct (eFloat [VText tl]) as [e|k] eqn:Fl; cbn [bind].
          2:{ exists hbk, sv. rewrite START. hy. rewrite index_0, index_1. cbn [bind]. rewrite GC. cbn [bind fst].
              rewrite (nu_read sv Hsv). cbn [bind]. rewrite IDX. cbn [bind]. unfold ext_fn. rewrite Fl. reflexivity. }
          exists (enc_block (mkhb a c sv e)), sv. rewrite START. hy. rewrite index_0, index_1. cbn [bind]. rewrite GC. cbn [bind fst].
          rewrite (nu_read sv Hsv). cbn [bind]. rewrite IDX. cbn [bind]. unfold ext_fn. rewrite Fl. cbn [bind fst]. hy.
          unfold enc_blocks. hy. rewrite !map_app. reflexivity.
    Qed.

    Arguments hdr_stmt : simpl never.
    Arguments add_stmt : simpl never.

    Definition step_out (line : val) (m : res (gst val * bool)) (o : outcome) : Prop :=
      match m with
      | Err k => o = OErr k
      | Ok (st', brk) =>
          blocks_isf (g_blocks _ st') /\
          exists hbk' start',
            let en := penv (g_sb _ st') (g_parsing _ st') (g_blocks _ st') line hbk' start' in
            if brk then o = OBrk en else (o = ONorm en \/ o = OCont en)
      end.

    Lemma if_parsing sb ps bl line hbk start fuel :
      exec (ft0 fuel) (SIf (EVar "parsing_sample") add_stmt SSkip) fuel (penv sb ps bl line hbk start) =
      if ps then exec (ft0 fuel) add_stmt fuel (penv sb ps bl line hbk start)
      else ONorm (penv sb ps bl line hbk start).
    Proof. unfold penv, genv. destruct ps; reflexivity. Qed.

    Lemma parse_step sb ps bl r hbk start fuel :
      blocks_isf bl ->
      step_out (enc_toks (tok r)) (m_step name (mkg val sb ps bl) (tok r))
               (exec (ft0 fuel) parse_body fuel (penv sb ps bl (VText r) hbk start)).
    Proof.
      intro ISF. rewrite parse_shape, exec_seq.
      assert (T : exec (ft0 fuel) (SAssign "line" (ECall "$m.split" [ECall "$m.strip" [EVar "line"]])) fuel
                    (penv sb ps bl (VText r) hbk start) = ONorm (penv sb ps bl (enc_toks (tok r)) hbk start)).
      { unfold penv, genv. hx. unfold ext_fn at 1. destruct (tok_ok r) as (x & Hs & Hp). rewrite Hs. cbn [bind fst].
        unfold ext_fn. rewrite Hp. reflexivity. }
      rewrite T. clear T. rewrite exec_seq. unfold step.
      destruct (tok r) as [|a [|b l']] eqn:TK.
      - (* blank line *)
        assert (C : exec (ft0 fuel) (SIf (ECmp CEq (ELen (EVar "line")) (EInt 1)) hdr_stmt SSkip) fuel
                      (penv sb ps bl (enc_toks []) hbk start) = ONorm (penv sb ps bl (enc_toks []) hbk start)) by reflexivity.
        rewrite C, if_parsing. cbn [g_parsing g_sb g_blocks]. destruct ps.
        + destruct (add_exec sb bl [] hbk start fuel) as (hbk' & start' & E); [intros h; discriminate|exact ISF|].
          change (VList (map VText [])) with (enc_toks []) in E. rewrite E.
          destruct (m_add_block [] bl) as [bl'|k] eqn:A; cbn [bind step_out]; [|reflexivity].
          split; [exact (add_block_isf _ _ _ A ISF)|]. exists hbk', start'. left. reflexivity.
        + cbn [step_out g_blocks]. split; [exact ISF|]. exists hbk, start. left. reflexivity.
      - (* a header *)
        assert (C : exec (ft0 fuel) (SIf (ECmp CEq (ELen (EVar "line")) (EInt 1)) hdr_stmt SSkip) fuel
                      (penv sb ps bl (enc_toks [a]) hbk start) =
                    exec (ft0 fuel) hdr_stmt fuel (penv sb ps bl (enc_toks [a]) hbk start)) by reflexivity.
        rewrite C. change (enc_toks [a]) with (VList [VText a]). rewrite hdr_exec. cbn [g_parsing g_sb g_blocks].
        destruct (negb (ends_with sfx_1 a || ends_with sfx_2 a)); [reflexivity|]. cbv zeta.
        destruct (Nat.eqb (List.length (if ps then sb ++ [bl] else sb)) 2).
        + cbn [step_out g_blocks g_sb g_parsing]. split; [exact ISF|]. exists hbk, start. reflexivity.
        + destruct (str_eqb name (before_last c_us a)).
          * cbn [step_out g_blocks g_sb g_parsing]. split; [constructor|]. exists hbk, start. right. reflexivity.
          * rewrite if_parsing. cbn [step_out g_blocks g_sb g_parsing]. split; [exact ISF|]. exists hbk, start. left. reflexivity.
      - (* a block line *)
        assert (C : exec (ft0 fuel) (SIf (ECmp CEq (ELen (EVar "line")) (EInt 1)) hdr_stmt SSkip) fuel
                      (penv sb ps bl (enc_toks (a :: b :: l')) hbk start) =
                    ONorm (penv sb ps bl (enc_toks (a :: b :: l')) hbk start)).
        { unfold penv, genv, enc_toks. hx. rewrite lenZ_two_ne1. reflexivity. }
        rewrite C, if_parsing. cbn [g_parsing g_sb g_blocks]. destruct ps.
        + destruct (add_exec sb bl (a :: b :: l') hbk start fuel) as (hbk' & start' & E); [intros h; discriminate|exact ISF|].
          change (VList (map VText (a :: b :: l'))) with (enc_toks (a :: b :: l')) in E. rewrite E.
          destruct (m_add_block (a :: b :: l') bl) as [bl'|k] eqn:A; cbn [bind step_out]; [|reflexivity].
          split; [exact (add_block_isf _ _ _ A ISF)|]. exists hbk', start'. left. reflexivity.
        + cbn [step_out g_blocks]. split; [exact ISF|]. exists hbk, start. left. reflexivity.
    Qed.

    Arguments parse_body : simpl never.

    Lemma parse_loop fuel : forall raw sb ps bl line hbk start,
      blocks_isf bl ->
      exists line' hbk' start',
      for_loop (exec (ft0 fuel) parse_body fuel) "line" (map VText raw) (penv sb ps bl line hbk start) =
      match m_run name (map tok raw) (mkg val sb ps bl) with
      | Err k => OErr k
      | Ok st' => ONorm (penv (g_sb _ st') (g_parsing _ st') (g_blocks _ st') line' hbk' start')
      end.
    Proof.
      induction raw as [|r raw IH]; intros sb ps bl line hbk start ISF.
      - exists line, hbk, start. reflexivity.
      - cbn [map for_loop run].
        change (update "line" (VText r) (penv sb ps bl line hbk start)) with (penv sb ps bl (VText r) hbk start).
        pose proof (parse_step sb ps bl r hbk start fuel ISF) as P. unfold step_out in P.
        destruct (m_step name (mkg val sb ps bl) (tok r)) as [[[sb' ps' bl'] brk]|k]; cbn [bind snd fst].
        2:{ exists line, hbk, start. rewrite P. reflexivity. }
        cbn [g_sb g_parsing g_blocks] in P. destruct P as (ISF' & hbk' & start' & P).
        destruct brk.
        + rewrite P. exists (enc_toks (tok r)), hbk', start'. reflexivity.
        + destruct (IH sb' ps' bl' (enc_toks (tok r)) hbk' start' ISF') as (l2 & h2 & s2 & E).
          exists l2, h2, s2. destruct P as [P|P]; rewrite P; exact E.
    Qed.
  End ParseLoop.


  (* ---- the chromosome-ends file ---- *)
  Local Notation m_chrom_ends := (chrom_ends val (tv_parse_flt eFloat) (tv_parse_int eInt)).

  Definition cen_one (l : list str) (d : list (Z * val)) : res (list (Z * val)) :=
    match l, last_opt l with
    | t0 :: _, Some tl =>
        bind (tv_parse_flt eFloat tl) (fun e => bind (tv_get_chrom eInt t0) (fun c => Ok (dict_set Z.eqb c e d)))
    | _, _ => Err E_Index
    end.

  Lemma chrom_ends_cons l r d : m_chrom_ends (l :: r) d = bind (cen_one l d) (m_chrom_ends r).
  Proof.
    cbn [chrom_ends]. unfold cen_one, tv_get_chrom. destruct l as [|t0 l0]; [reflexivity|].
    destruct (last_opt (t0 :: l0)); [|reflexivity].
    destruct (tv_parse_flt eFloat s); cbn [bind]; [|reflexivity].
    destruct (get_chrom (tv_parse_int eInt) t0); reflexivity.
  Qed.

  Lemma nu_enc_ends d : match enc_ends d with VUnbound => @Err val 6 | _ => Ok (enc_ends d) end = Ok (enc_ends d).
  Proof. reflexivity. Qed.

  Section CenLoop.
    Variables bp nm cf sbv psv blv fv cfile hap block pc tind tract hbk cc start t1 t2 : val.

    Definition cenv (d : list (Z * val)) (line cd : val) : env :=
      genv bp nm cf sbv psv blv fv line (enc_ends d) cfile hap block pc tind tract hbk cd cc start t1 t2.

    Ltac hc := cbn -[enc_ends fn_GetChrom ext_fn lenZ index_sem last_opt set_index].

    Lemma cen_step d r cd fuel :
      exec (ft0 fuel) cen_body fuel (cenv d (VText r) cd) =
      match cen_one (tok r) d with
      | Err k => OErr k
      | Ok d' => ONorm (cenv d' (VText r) (enc_toks (tok r)))
      end.
    Proof.
      unfold cen_body, cenv, genv. hc.
      unfold ext_fn at 1. destruct (tok_ok r) as (x & Hs & Hp). rewrite Hs. cbn [bind fst].
      unfold ext_fn at 1. rewrite Hp. cbn [bind fst]. hc.
      unfold enc_toks. rewrite index_m1_map. unfold cen_one.
      destruct (tok r) as [|t0 l0]; [reflexivity|].
      change (@last_opt (list Z) (t0 :: l0)) with (@last_opt str (t0 :: l0)).
      destruct (@last_opt str (t0 :: l0)) as [tl|]; [|reflexivity]. cbn [bind].
      unfold ext_fn at 1. unfold tv_parse_flt. destruct (eFloat [VText tl]) as [e|k]; cbn [bind fst]; [|reflexivity].
      rewrite nu_enc_ends. cbn [bind map]. rewrite index_0. cbn [bind]. rewrite TV_GetChrom_refines.
      destruct (tv_get_chrom eInt t0) as [c|k]; cbn [bind fst]; [|reflexivity].
      cbn [set_path]. rewrite set_index_ends. reflexivity.
    Qed.

    Arguments cen_body : simpl never.

    Lemma cen_loop fuel : forall craw d line cd,
      exists line' cd',
      for_loop (exec (ft0 fuel) cen_body fuel) "line" (map VText craw) (cenv d line cd) =
      match m_chrom_ends (map tok craw) d with
      | Err k => OErr k
      | Ok d' => ONorm (cenv d' line' cd')
      end.
    Proof.
      induction craw as [|r craw IH]; intros d line cd.
      - exists line, cd. reflexivity.
      - cbn [map for_loop]. rewrite chrom_ends_cons.
        change (update "line" (VText r) (cenv d line cd)) with (cenv d (VText r) cd).
        rewrite cen_step. destruct (cen_one (tok r) d) as [d'|k]; cbn [bind].
        + apply IH.
        + exists line, cd. reflexivity.
    Qed.
  End CenLoop.


  (* ---- the extension pass ---- *)
  Section ExtLoop.
    Variables bp nm cf psv blv fv line cfile hbk cd start : val.
    Variable d : list (Z * val).

    Definition xenv (sb : list (list vblock)) (hap block pc tind tract cc t1 t2 : val) : env :=
      genv bp nm cf (enc_sb sb) psv blv fv line (enc_ends d) cfile hap block pc tind tract hbk cd cc start t1 t2.

    Ltac he := cbn -[enc_sb enc_ends enc_blocks enc_block fn_GetChrom ext_fn lenZ index_sem last_opt set_index set_path Z.add Z.sub].

    Lemma inner_step pre post done p b' rest blockv tv trv ccv t1v fuel :
      exec (ft0 fuel) inner_body fuel
        (xenv (pre ++ (done ++ p :: b' :: rest) :: post) (VInt (lenZ pre)) blockv (VInt (h_chrom p)) tv trv ccv t1v
              (VTuple [VInt (lenZ done + 1); enc_block b'])) =
      match (if h_chrom b' =? h_chrom p then Ok p
             else bind (end_of val d (h_chrom p)) (fun e => Ok (set_end val p e))) with
      | Err k => OErr k
      | Ok p1 =>
          ONorm (xenv (pre ++ (done ++ p1 :: b' :: rest) :: post) (VInt (lenZ pre)) blockv (VInt (h_chrom b'))
                      (VInt (lenZ done + 1)) (enc_block b') (VInt (h_chrom b')) t1v
                      (VTuple [VInt (lenZ done + 1); enc_block b']))
      end.
    Proof.
      unfold inner_body, xenv, genv. he.
      do 4 (rewrite ?index_t0, ?index_t1, ?nu_enc_block, ?index_chrom; cbn [bind]; he).
      cbn [py_eq as_num]. destruct (h_chrom b' =? h_chrom p); cbn [negb truthy].
      - he. reflexivity.
      - he. rewrite nu_enc_ends. cbn [bind]. rewrite index_ends. unfold end_of, E_Key.
        destruct (assoc Z.eqb (h_chrom p) d) as [e|]; cbn [bind]; [|reflexivity].
        rewrite nu_enc_sb. cbn [bind]. cbn [binop_sem as_num].
        replace (lenZ done + 1 - 1) with (lenZ done) by lia.
        rewrite set_end_path. cbn [bind]. he. reflexivity.
    Qed.

    Arguments inner_body : simpl never.

    Lemma lenZ_snoc {A} (l : list A) x : lenZ (l ++ [x]) = lenZ l + 1.
    Proof. unfold lenZ. rewrite app_length. cbn [List.length]. lia. Qed.
    Lemma lenZ_cons {A} (l : list A) x : lenZ (x :: l) = 1 + lenZ l.
    Proof. unfold lenZ. cbn [List.length]. lia. Qed.

    Lemma last_cons_any {A} (l : list A) : forall x y, last (x :: l) y = last l x.
    Proof. induction l as [|a l IH]; intros x y; [reflexivity|]. cbn [last] in *. destruct l; [reflexivity|]. apply IH. Qed.

    Lemma ext_loop_cons2 p b' (rest : list vblock) :
      ext_loop val d (p :: b' :: rest) =
      bind (if h_chrom b' =? h_chrom p then Ok p
            else bind (end_of val d (h_chrom p)) (fun e => Ok (set_end val p e)))
           (fun b1 => bind (ext_loop val d (b' :: rest)) (fun r' => Ok (b1 :: r'))).
    Proof. reflexivity. Qed.

    Lemma inner_loop pre post blockv t1v fuel : forall rest done p trv ccv t2v,
      exists trv' ccv' t2v',
      for_loop (exec (ft0 fuel) inner_body fuel) "_t2" (enum_from (lenZ done + 1) (map enc_block rest))
        (xenv (pre ++ (done ++ p :: rest) :: post) (VInt (lenZ pre)) blockv (VInt (h_chrom p)) (VInt (lenZ done))
              trv ccv t1v t2v) =
      match ext_loop val d (p :: rest) with
      | Err k => OErr k
      | Ok r' => ONorm (xenv (pre ++ (done ++ r') :: post) (VInt (lenZ pre)) blockv (VInt (h_chrom (last rest p)))
                             (VInt (lenZ done + lenZ rest)) trv' ccv' t1v t2v')
      end.
    Proof.
      induction rest as [|b' rest IH]; intros done p trv ccv t2v.
      - exists trv, ccv, t2v. cbn [map enum_from for_loop ext_loop last].
        change (lenZ (@nil vblock)) with 0. rewrite Z.add_0_r. reflexivity.
      - cbn [map enum_from for_loop].
        change (update "_t2" (VTuple [VInt (lenZ done + 1); enc_block b'])
                  (xenv (pre ++ (done ++ p :: b' :: rest) :: post) (VInt (lenZ pre)) blockv (VInt (h_chrom p))
                        (VInt (lenZ done)) trv ccv t1v t2v))
          with (xenv (pre ++ (done ++ p :: b' :: rest) :: post) (VInt (lenZ pre)) blockv (VInt (h_chrom p))
                     (VInt (lenZ done)) trv ccv t1v (VTuple [VInt (lenZ done + 1); enc_block b'])).
        rewrite inner_step. rewrite ext_loop_cons2.
        destruct (if h_chrom b' =? h_chrom p then Ok p
                  else bind (end_of val d (h_chrom p)) (fun e => Ok (set_end val p e))) as [p1|k]; cbn [bind].
        2:{ exists trv, ccv, t2v. reflexivity. }
        destruct (IH (done ++ [p1]) b' (enc_block b') (VInt (h_chrom b')) (VTuple [VInt (lenZ done + 1); enc_block b']))
          as (trv' & ccv' & t2v' & E).
        rewrite lenZ_snoc in E. rewrite <- !app_assoc in E. cbn [app] in E.
        exists trv', ccv', t2v'. rewrite E.
        destruct (ext_loop val d (b' :: rest)) as [r'|k]; cbn [bind]; [|reflexivity].
        rewrite <- app_assoc. cbn [app]. rewrite lenZ_cons.
        replace (lenZ done + 1 + lenZ rest) with (lenZ done + (1 + lenZ rest)) by lia.
        rewrite (last_cons_any rest b' p). reflexivity.
    Qed.

    Lemma inner_first sb hapv blockv p tv trv ccv t1v fuel :
      exec (ft0 fuel) inner_body fuel
        (xenv sb hapv blockv (VInt (h_chrom p)) tv trv ccv t1v (VTuple [VInt 0; enc_block p])) =
      ONorm (xenv sb hapv blockv (VInt (h_chrom p)) (VInt 0) (enc_block p) (VInt (h_chrom p)) t1v
                  (VTuple [VInt 0; enc_block p])).
    Proof.
      unfold inner_body, xenv, genv. he.
      do 4 (rewrite ?index_t0, ?index_t1, ?nu_enc_block, ?index_chrom; cbn [bind]; he).
      cbn [py_eq as_num]. rewrite Z.eqb_refl. reflexivity.
    Qed.

    Lemma last_opt_cons {A} (l : list A) x : last_opt (x :: l) = Some (last l x).
    Proof.
      revert x. induction l as [|a l IH] using rev_ind; intro x; [reflexivity|].
      rewrite app_comm_cons, last_opt_app, last_last. reflexivity.
    Qed.

    Lemma snoc_of_length {A} (r : list A) n : List.length r = S n -> exists front z, r = front ++ [z] /\ List.length front = n.
    Proof.
      intro H. destruct r as [|a r] using rev_ind; [discriminate|].
      exists r, a. split; [reflexivity|]. rewrite app_length in H. cbn [List.length] in H. lia.
    Qed.

    Arguments final_store : simpl never.

    Lemma ext_pre sb l R hapv blockv pcv tv trv ccv i t2v fuel :
      exec (ft0 fuel)
        (SSeq (SAssign "hap" (EIndex (EVar "_t1") (EInt 0)))
        (SSeq (SAssign "block" (EIndex (EVar "_t1") (EInt 1)))
        (SSeq (SAssign "prev_chrom" (EIndex (EIndex (EVar "block") (EInt 0)) (EText k_chrom))) R))) fuel
        (xenv sb hapv blockv pcv tv trv ccv (VTuple [VInt i; enc_blocks l]) t2v) =
      match l with
      | [] => OErr 2
      | p :: _ => exec (ft0 fuel) R fuel
                    (xenv sb (VInt i) (enc_blocks l) (VInt (h_chrom p)) tv trv ccv (VTuple [VInt i; enc_blocks l]) t2v)
      end.
    Proof.
      unfold xenv, genv. cbn -[enc_sb enc_ends enc_blocks enc_block index_sem].
      rewrite index_t0. cbn [bind]. cbn -[enc_sb enc_ends enc_blocks enc_block index_sem].
      rewrite index_t1. cbn [bind]. cbn -[enc_sb enc_ends enc_blocks enc_block index_sem].
      rewrite nu_enc_blocks. cbn [bind]. destruct l as [|p rest].
      - unfold enc_blocks. cbn [map]. rewrite index_nil. reflexivity.
      - unfold enc_blocks at 1. cbn [map]. rewrite index_0. cbn [bind]. rewrite index_chrom. reflexivity.
    Qed.

    Lemma ext_step pre post l hapv blockv pcv tv trv ccv t2v fuel :
      exists blockv' pcv' tv' trv' ccv' t2v',
      exec (ft0 fuel) ext_body fuel
        (xenv (pre ++ l :: post) hapv blockv pcv tv trv ccv (VTuple [VInt (lenZ pre); enc_blocks l]) t2v) =
      match ext_strand val false d l with
      | Err k => OErr k
      | Ok l' => ONorm (xenv (pre ++ l' :: post) (VInt (lenZ pre)) blockv' pcv' tv' trv' ccv'
                             (VTuple [VInt (lenZ pre); enc_blocks l]) t2v')
      end.
    Proof.
      rewrite ext_shape, ext_pre. unfold ext_strand.
      destruct l as [|p rest]; [exists blockv, pcv, tv, trv, ccv, t2v; reflexivity|].
      rewrite last_opt_cons. rewrite exec_seq.
      assert (FOR : exists trv' ccv' t2v',
        exec (ft0 fuel) (SFor "_t2" (EEnumerate (EVar "block")) inner_body) fuel
          (xenv (pre ++ (p :: rest) :: post) (VInt (lenZ pre)) (enc_blocks (p :: rest)) (VInt (h_chrom p)) tv trv ccv
                (VTuple [VInt (lenZ pre); enc_blocks (p :: rest)]) t2v) =
        match ext_loop val d (p :: rest) with
        | Err k => OErr k
        | Ok r' => ONorm (xenv (pre ++ r' :: post) (VInt (lenZ pre)) (enc_blocks (p :: rest))
                               (VInt (h_chrom (last rest p))) (VInt (lenZ rest)) trv' ccv'
                               (VTuple [VInt (lenZ pre); enc_blocks (p :: rest)]) t2v')
        end).
      { destruct (inner_loop pre post (enc_blocks (p :: rest)) (VTuple [VInt (lenZ pre); enc_blocks (p :: rest)]) fuel
                    rest [] p (enc_block p) (VInt (h_chrom p)) (VTuple [VInt 0; enc_block p])) as (a1 & a2 & a3 & E).
        exists a1, a2, a3.
        cbn [exec eval]. unfold xenv at 1, genv at 1. cbn [read_var lookup String.eqb Ascii.eqb Bool.eqb].
        rewrite nu_enc_blocks. cbn [bind]. unfold enc_blocks at 1. cbn [as_seq map enum_from for_loop].
        fold (genv bp nm cf (enc_sb (pre ++ (p :: rest) :: post)) psv blv fv line (enc_ends d) cfile (VInt (lenZ pre))
                   (enc_blocks (p :: rest)) (VInt (h_chrom p)) tv trv ccv hbk cd start
                   (VTuple [VInt (lenZ pre); enc_blocks (p :: rest)]) t2v).
        change (update "_t2" (VTuple [VInt 0; enc_block p])
                  (xenv (pre ++ (p :: rest) :: post) (VInt (lenZ pre)) (enc_blocks (p :: rest)) (VInt (h_chrom p)) tv trv ccv
                        (VTuple [VInt (lenZ pre); enc_blocks (p :: rest)]) t2v))
          with (xenv (pre ++ (p :: rest) :: post) (VInt (lenZ pre)) (enc_blocks (p :: rest)) (VInt (h_chrom p)) tv trv ccv
                     (VTuple [VInt (lenZ pre); enc_blocks (p :: rest)]) (VTuple [VInt 0; enc_block p])).
        rewrite inner_first.
        cbn [app] in E. change (lenZ (@nil vblock)) with 0 in E. change (0 + lenZ rest) with (lenZ rest) in E.
        exact E. }
      destruct FOR as (trv1 & ccv1 & t2v1 & FOR). rewrite FOR. clear FOR.
      destruct (ext_loop val d (p :: rest)) as [r'|k] eqn:XL; cbn [bind].
      2:{ exists blockv, pcv, tv, trv, ccv, t2v. reflexivity. }
      pose proof (ext_loop_length d _ _ XL) as LEN. cbn [List.length] in LEN.
      destruct (snoc_of_length r' _ LEN) as (front & z & -> & LF).
      assert (FIN : exec (ft0 fuel) final_store fuel
                (xenv (pre ++ (front ++ [z]) :: post) (VInt (lenZ pre)) (enc_blocks (p :: rest))
                      (VInt (h_chrom (last rest p))) (VInt (lenZ front)) trv1 ccv1
                      (VTuple [VInt (lenZ pre); enc_blocks (p :: rest)]) t2v1) =
              match end_of val d (h_chrom (last rest p)) with
              | Err k => OErr k
              | Ok e => ONorm (xenv (pre ++ (front ++ [set_end val z e]) :: post) (VInt (lenZ pre)) (enc_blocks (p :: rest))
                      (VInt (h_chrom (last rest p))) (VInt (lenZ front)) trv1 ccv1
                      (VTuple [VInt (lenZ pre); enc_blocks (p :: rest)]) t2v1)
              end).
      { unfold final_store, xenv, genv. he. rewrite nu_enc_ends. cbn [bind]. rewrite index_ends. unfold end_of, E_Key.
        destruct (assoc Z.eqb (h_chrom (last rest p)) d) as [e|]; cbn [bind]; [|reflexivity].
        rewrite nu_enc_sb. cbn [bind]. rewrite set_end_path. reflexivity. }
      replace (lenZ rest) with (lenZ front) by (unfold lenZ; rewrite LF; reflexivity).
      rewrite FIN.
      destruct (end_of val d (h_chrom (last rest p))) as [e|k]; cbn [bind].
      2:{ exists blockv, pcv, tv, trv, ccv, t2v. reflexivity. }
      replace (List.length (p :: rest) - 1)%nat with (List.length front) by (cbn [List.length]; lia).
      rewrite update_nth_last. eexists _, _, _, _, _, _. reflexivity.
    Qed.

    Arguments ext_body : simpl never.

    Lemma outer_loop fuel : forall todo donesb hapv blockv pcv tv trv ccv t1v t2v,
      exists hapv' blockv' pcv' tv' trv' ccv' t1v' t2v',
      for_loop (exec (ft0 fuel) ext_body fuel) "_t1" (enum_from (lenZ donesb) (map enc_blocks todo))
        (xenv (donesb ++ todo) hapv blockv pcv tv trv ccv t1v t2v) =
      match C18_Model.mapM (ext_strand val false d) todo with
      | Err k => OErr k
      | Ok todo' => ONorm (xenv (donesb ++ todo') hapv' blockv' pcv' tv' trv' ccv' t1v' t2v')
      end.
    Proof.
      induction todo as [|l todo IH]; intros donesb hapv blockv pcv tv trv ccv t1v t2v.
      - eexists _, _, _, _, _, _, _, _. reflexivity.
      - cbn [map enum_from for_loop C18_Model.mapM].
        change (update "_t1" (VTuple [VInt (lenZ donesb); enc_blocks l])
                  (xenv (donesb ++ l :: todo) hapv blockv pcv tv trv ccv t1v t2v))
          with (xenv (donesb ++ l :: todo) hapv blockv pcv tv trv ccv (VTuple [VInt (lenZ donesb); enc_blocks l]) t2v).
        destruct (ext_step donesb todo l hapv blockv pcv tv trv ccv t2v fuel) as (b1 & p1 & tv1 & tr1 & cc1 & t21 & E).
        rewrite E. destruct (ext_strand val false d l) as [l'|k]; cbn [bind].
        2:{ exists hapv, blockv, pcv, tv, trv, ccv, t1v, t2v. reflexivity. }
        destruct (IH (donesb ++ [l']) (VInt (lenZ donesb)) b1 p1 tv1 tr1 cc1 (VTuple [VInt (lenZ donesb); enc_blocks l]) t21)
          as (h2 & b2 & p2 & tv2 & tr2 & cc2 & t12 & t22 & E2).
        rewrite lenZ_snoc, <- app_assoc in E2. cbn [app] in E2. rewrite E2.
        destruct (C18_Model.mapM (ext_strand val false d) todo) as [todo'|k]; cbn [bind].
        + eexists _, _, _, _, _, _, _, _. rewrite <- app_assoc. reflexivity.
        + exists hapv, blockv, pcv, tv, trv, ccv, t1v, t2v. reflexivity.
    Qed.
  End ExtLoop.


  (* ---- the whole function ---- *)
  Arguments parse_body : simpl never.
  Arguments cen_part : simpl never.
  Arguments cen_body : simpl never.
  Arguments ext_body : simpl never.

  Local Notation fnGHB := (fn_GetHaplotypeBlocks eStrip eSplit eJoin eEnds eStarts eInt eFloat eExists eOpen eAdd).
  Local Notation m_get_blocks := (tv_get_blocks eInt eFloat eAdd).

  Section Whole.
    Variable bp : val.
    Variable name : str.
    Variable raw : list str.
    Hypothesis bp_nu : bp <> VUnbound.

    (* the .bp file does not exist: sys.exit(1) *)
    Theorem TV_GetHaplotypeBlocks_missing_file : forall cfv fuel,
      eExists [bp] = Ok (VBool false) ->
      fnGHB fuel [bp; VText name; cfv] = Err 10.
    Proof.
      intros cfv fuel HE. unfold fn_GetHaplotypeBlocks, run_fun. rewrite gh_shape.
      cbn [fparams flocals fbody bind_params app map].
      cbn -[ext_fn for_loop enc_sb enc_blocks].
      rewrite (nu_read bp bp_nu). cbn [bind]. unfold ext_fn. rewrite HE. reflexivity.
    Qed.

    Hypothesis exists_ok : eExists [bp] = Ok (VBool true).
    Hypothesis open_ok : eOpen [bp; VText s_r] = Ok (VList (map VText raw)).

    Lemma whole_parse cfv R fuel :
      exists fv line hbk start,
      exec (ft0 fuel)
        (SSeq (SAssign "sample_blocks" (EList []))
        (SSeq (SAssign "parsing_sample" (EBool false))
        (SSeq (SAssign "blocks" (EList []))
        (SSeq (SIf (ENot (ECall "$c.os.path.exists" [EVar "bp_file"])) (SSeq SSkip (SRaise 10)) SSkip)
        (SSeq (SSeq (SAssign "f" (ECall "$c.open" [EVar "bp_file"; EText s_r]))
                    (SFor "line" (EVar "f") parse_body))
        (SSeq (SIf (EVar "parsing_sample") (SAppend (LVar "sample_blocks") (EVar "blocks")) SSkip) R)))))) fuel
        (genv bp (VText name) cfv VUnbound VUnbound VUnbound VUnbound VUnbound VUnbound VUnbound VUnbound VUnbound
              VUnbound VUnbound VUnbound VUnbound VUnbound VUnbound VUnbound VUnbound VUnbound) =
      match run val (tv_parse_flt eFloat) (tv_parse_int eInt) tv_eps (tv_plus_eps eAdd) name (map tok raw) (mkg val [] false []) with
      | Err k => OErr k
      | Ok st => exec (ft0 fuel) R fuel
                      (genv bp (VText name) cfv (enc_sb (finish val st)) (VBool (g_parsing _ st)) (enc_blocks (g_blocks _ st))
                             fv line VUnbound VUnbound VUnbound VUnbound VUnbound VUnbound VUnbound hbk VUnbound VUnbound
                             start VUnbound VUnbound)
      end.
    Proof.
      unfold genv.
      cbn -[ext_fn for_loop enc_sb enc_blocks].
      rewrite (nu_read bp bp_nu). cbn [bind]. unfold ext_fn at 1. rewrite exists_ok. cbn [bind fst truthy negb].
      cbn -[ext_fn for_loop enc_sb enc_blocks].
      rewrite (nu_read bp bp_nu). cbn [bind]. unfold ext_fn at 1. rewrite open_ok. cbn [bind fst].
      cbn -[ext_fn for_loop enc_sb enc_blocks].
      match goal with |- context [for_loop _ _ _ ?en] =>
        change en with (penv name bp cfv (VList (map VText raw)) VUnbound VUnbound VUnbound VUnbound VUnbound VUnbound VUnbound
                             VUnbound VUnbound VUnbound VUnbound [] false [] VUnbound VUnbound VUnbound) end.
      destruct (parse_loop name bp cfv (VList (map VText raw)) VUnbound VUnbound VUnbound VUnbound VUnbound VUnbound VUnbound
                           VUnbound VUnbound VUnbound VUnbound fuel raw [] false [] VUnbound VUnbound VUnbound (Forall_nil _))
        as (line' & hbk' & start' & E).
      rewrite E. clear E.
      destruct (m_run name (map tok raw) (mkg val [] false [])) as [[sb ps bl]|k].
      2:{ exists VUnbound, VUnbound, VUnbound, VUnbound. reflexivity. }
      exists (VList (map VText raw)), line', hbk', start'.
      unfold penv, genv, finish. cbn [g_sb g_parsing g_blocks].
      cbn -[enc_sb enc_blocks]. destruct ps; cbn -[enc_sb enc_blocks]; [|reflexivity].
      unfold enc_sb, enc_blocks. cbn [bind]. rewrite map_app. reflexivity.
    Qed.

    (* without a chromosome-ends file (centromeres_file None, or any falsy value) *)
    Theorem TV_GetHaplotypeBlocks_refines_plain : forall cfv fuel,
      cfv <> VUnbound -> truthy cfv = Some false ->
      fnGHB fuel [bp; VText name; cfv] =
      match m_get_blocks name (map tok raw) None with
      | Ok sb => Ok (enc_sb sb, [bp; VText name; cfv])
      | Err k => Err k
      end.
    Proof.
      intros cfv fuel Hnu Htr. unfold fn_GetHaplotypeBlocks, run_fun. rewrite gh_shape.
      cbn [fparams flocals fbody bind_params app map].
      destruct (whole_parse cfv (SSeq (SIf (EVar "centromeres_file") cen_part SSkip) (SReturn (EVar "sample_blocks"))) fuel)
        as (fv & line & hbk & start & E).
      unfold genv in E. rewrite E. clear E.
      unfold tv_get_blocks, get_blocks, get_blocks_with, parse_blocks.
      destruct (m_run name (map tok raw) (mkg val [] false [])) as [st|k]; cbn [bind]; [|reflexivity].
      cbn -[enc_sb enc_blocks cen_part]. rewrite (nu_read cfv Hnu), Htr. reflexivity.
    Qed.

    (* with a chromosome-ends file: any truthy path value whose file iterates as [craw] *)
    Theorem TV_GetHaplotypeBlocks_refines_ends : forall cfv craw fuel,
      cfv <> VUnbound -> truthy cfv = Some true ->
      eOpen [cfv; VText s_r] = Ok (VList (map VText craw)) ->
      fnGHB fuel [bp; VText name; cfv] =
      match m_get_blocks name (map tok raw) (Some (map tok craw)) with
      | Ok sb => Ok (enc_sb sb, [bp; VText name; cfv])
      | Err k => Err k
      end.
    Proof.
      intros cfv craw fuel Hnu Htr Hop. unfold fn_GetHaplotypeBlocks, run_fun. rewrite gh_shape.
      cbn [fparams flocals fbody bind_params app map].
      destruct (whole_parse cfv (SSeq (SIf (EVar "centromeres_file") cen_part SSkip) (SReturn (EVar "sample_blocks"))) fuel)
        as (fv & line & hbk & start & E).
      unfold genv in E. rewrite E. clear E.
      unfold tv_get_blocks, get_blocks, get_blocks_with, parse_blocks.
      destruct (m_run name (map tok raw) (mkg val [] false [])) as [st|k]; cbn [bind]; [|reflexivity].
      set (sbF := finish val st).
      cbn -[enc_sb enc_blocks cen_part]. rewrite (nu_read cfv Hnu), Htr.
      rewrite cen_shape.
      cbn -[enc_sb enc_blocks cen_body ext_body for_loop ext_fn].
      rewrite (nu_read cfv Hnu). cbn [bind]. unfold ext_fn at 1. rewrite Hop. cbn [bind fst].
      cbn -[enc_sb enc_blocks cen_body ext_body for_loop ext_fn].
      match goal with |- context [for_loop _ _ _ ?en] =>
        change en with (cenv bp (VText name) cfv (enc_sb sbF) (VBool (g_parsing val st)) (enc_blocks (g_blocks val st)) fv
                             (VList (map VText craw)) VUnbound VUnbound VUnbound VUnbound VUnbound hbk VUnbound start
                             VUnbound VUnbound [] line VUnbound) end.
      destruct (cen_loop bp (VText name) cfv (enc_sb sbF) (VBool (g_parsing val st)) (enc_blocks (g_blocks val st)) fv
                         (VList (map VText craw)) VUnbound VUnbound VUnbound VUnbound VUnbound hbk VUnbound start
                         VUnbound VUnbound fuel craw [] line VUnbound) as (line' & cd' & E).
      rewrite E. clear E.
      change (chrom_ends val (tv_parse_flt eFloat) (tv_parse_int eInt) (map tok craw) []) with (m_chrom_ends (map tok craw) []).
      destruct (m_chrom_ends (map tok craw) []) as [d|k]; cbn [bind]; [|reflexivity].
      unfold cenv, genv. cbn -[enc_sb enc_blocks enc_ends ext_body for_loop].
      rewrite nu_enc_sb. cbn [bind]. unfold enc_sb at 1. cbn [as_seq].
      match goal with |- context [for_loop _ _ _ ?en] =>
        change en with (xenv bp (VText name) cfv (VBool (g_parsing val st)) (enc_blocks (g_blocks val st)) fv line'
                             (VList (map VText craw)) hbk cd' start d ([] ++ sbF) VUnbound VUnbound VUnbound VUnbound VUnbound
                             VUnbound VUnbound VUnbound) end.
      destruct (outer_loop bp (VText name) cfv (VBool (g_parsing val st)) (enc_blocks (g_blocks val st)) fv line'
                           (VList (map VText craw)) hbk cd' start d fuel sbF [] VUnbound VUnbound VUnbound VUnbound VUnbound
                           VUnbound VUnbound VUnbound) as (a1 & a2 & a3 & a4 & a5 & a6 & a7 & a8 & E).
      change (lenZ (@nil (list vblock))) with 0 in E. rewrite E. clear E.
      destruct (C18_Model.mapM (ext_strand val false d) sbF) as [sb'|k]; [|reflexivity].
      unfold xenv, genv. cbn -[enc_sb enc_blocks enc_ends]. rewrite nu_enc_sb. reflexivity.
    Qed.

    (* both cases at once: [cen] = the lines of the chromosome-ends file, if one is given *)
    Theorem TV_GetHaplotypeBlocks_refines : forall cfv (cen : option (list str)) fuel,
      cfv <> VUnbound ->
      match cen with
      | None => truthy cfv = Some false
      | Some craw => truthy cfv = Some true /\ eOpen [cfv; VText s_r] = Ok (VList (map VText craw))
      end ->
      fnGHB fuel [bp; VText name; cfv] =
      match m_get_blocks name (map tok raw) (option_map (map tok) cen) with
      | Ok sb => Ok (enc_sb sb, [bp; VText name; cfv])
      | Err k => Err k
      end.
    Proof.
      intros cfv [craw|] fuel Hnu H; cbn [option_map].
      - destruct H as (Ht & Ho). apply TV_GetHaplotypeBlocks_refines_ends; assumption.
      - apply TV_GetHaplotypeBlocks_refines_plain; assumption.
    Qed.

    (* C18_blocks_are_samples_lines about the translated code: on a file whose token lines are
       pre ++ [name_1] :: l1 ++ [name_2] :: l2 ++ post (pre: other samples, post: empty or starting with a
       header) GetHaplotypeBlocks returns exactly the two strands read from l1 and l2, or their error *)
    Theorem TV_blocks_are_samples_lines : forall cfv fuel (pre l1 l2 post : list (list str)),
      cfv <> VUnbound -> truthy cfv = Some false ->
      map tok raw = pre ++ [name ++ sfx_1] :: l1 ++ [name ++ sfx_2] :: l2 ++ post ->
      Forall (foreign_header name) pre -> Forall not_header l1 -> Forall not_header l2 ->
      (post = [] \/ exists h r, post = [h] :: r /\ good_header h) ->
      fnGHB fuel [bp; VText name; cfv] =
      match bind (blocks_of val (tv_parse_flt eFloat) (tv_parse_int eInt) tv_eps (tv_plus_eps eAdd) l1) (fun b1 =>
            bind (blocks_of val (tv_parse_flt eFloat) (tv_parse_int eInt) tv_eps (tv_plus_eps eAdd) l2) (fun b2 => Ok [b1; b2])) with
      | Ok sb => Ok (enc_sb sb, [bp; VText name; cfv])
      | Err k => Err k
      end.
    Proof.
      intros cfv fuel pre l1 l2 post Hnu Htr Hraw Hpre H1 H2 Hpost.
      rewrite (TV_GetHaplotypeBlocks_refines_plain cfv fuel Hnu Htr).
      unfold tv_get_blocks, get_blocks, get_blocks_with. rewrite Hraw.
      rewrite (C18_blocks_are_samples_lines val (tv_parse_flt eFloat) (tv_parse_int eInt) tv_eps (tv_plus_eps eAdd)
                 name pre l1 l2 post Hpre H1 H2 Hpost).
      match goal with |- context [bind (blocks_of ?a ?b ?c ?d ?e l1) ?f] =>
        destruct (bind (blocks_of a b c d e l1) f) end; reflexivity.
    Qed.

    (* C18_extension_only_last about the translated code: whatever GetHaplotypeBlocks returns with a
       chromosome-ends file is, strand by strand, the result without one (sb0), changed exactly at the last
       block of every maximal run of one chromosome, whose end is the listed end of that chromosome *)
    Theorem TV_extension_only_last : forall cfv craw fuel v ps,
      cfv <> VUnbound -> truthy cfv = Some true ->
      eOpen [cfv; VText s_r] = Ok (VList (map VText craw)) ->
      fnGHB fuel [bp; VText name; cfv] = Ok (v, ps) ->
      exists sb0 ends sb,
        m_get_blocks name (map tok raw) None = Ok sb0 /\
        tv_chrom_ends eInt eFloat (map tok craw) [] = Ok ends /\
        v = enc_sb sb /\
        Forall2 (fun l l' =>
          List.length l' = List.length l /\
          forall i b, nth_error l i = Some b ->
            exists b', nth_error l' i = Some b' /\ same_but_end val b b' /\
              ((run_end val l i b /\ end_of val ends (h_chrom b) = Ok (h_end b')) \/
               (~ run_end val l i b /\ h_end b' = h_end b))) sb0 sb.
    Proof.
      intros cfv craw fuel v ps Hnu Htr Hop H.
      rewrite (TV_GetHaplotypeBlocks_refines_ends cfv craw fuel Hnu Htr Hop) in H.
      unfold tv_get_blocks, tv_chrom_ends, get_blocks, get_blocks_with in *.
      destruct (parse_blocks val (tv_parse_flt eFloat) (tv_parse_int eInt) tv_eps (tv_plus_eps eAdd) name (map tok raw))
        as [sb0|k]; cbn [bind] in *; [|discriminate].
      destruct (chrom_ends val (tv_parse_flt eFloat) (tv_parse_int eInt) (map tok craw) []) as [ends|k];
        cbn [bind] in *; [|discriminate].
      destruct (C18_Model.mapM (ext_strand val false ends) sb0) as [sb|k] eqn:M; [|discriminate].
      inversion H; subst. exists sb0, ends, sb. repeat split; try reflexivity.
      clear H. revert sb M. induction sb0 as [|l sb0 IH]; intros sb M; cbn [C18_Model.mapM] in M.
      - inversion M. constructor.
      - destruct (ext_strand val false ends l) as [l'|] eqn:X; cbn [bind] in M; [|discriminate].
        destruct (C18_Model.mapM (ext_strand val false ends) sb0) as [r|]; cbn [bind] in M; [|discriminate].
        inversion M; subst. constructor; [|apply IH; reflexivity].
        exact (C18_extension_only_last val ends l l' X).
    Qed.
  End Whole.


  (* the pieces, as theorems about the corresponding pieces of the regenerated syntax *)

  (* the loop over the lines of the .bp file = C18_Model.run (state machine step by step, break included) *)
  Theorem TV_parse_loop_refines : forall name bp cf fv ce cfile hap block pc tind tract cd cc t1 t2 fuel raw sb ps bl line hbk start,
    blocks_isf bl ->
    exists line' hbk' start',
    for_loop (exec (ft0 fuel) parse_body fuel) "line" (map VText raw)
      (penv name bp cf fv ce cfile hap block pc tind tract cd cc t1 t2 sb ps bl line hbk start) =
    match m_run name (map tok raw) (mkg val sb ps bl) with
    | Err k => OErr k
    | Ok st' => ONorm (penv name bp cf fv ce cfile hap block pc tind tract cd cc t1 t2
                            (g_sb _ st') (g_parsing _ st') (g_blocks _ st') line' hbk' start')
    end.
  Proof. intros. apply parse_loop. assumption. Qed.

  (* the loop over the lines of the chromosome-ends file = C18_Model.chrom_ends *)
  Theorem TV_chrom_ends_refines : forall bp nm cf sbv psv blv fv cfile hap block pc tind tract hbk cc start t1 t2 fuel craw d line cd,
    exists line' cd',
    for_loop (exec (ft0 fuel) cen_body fuel) "line" (map VText craw)
      (cenv bp nm cf sbv psv blv fv cfile hap block pc tind tract hbk cc start t1 t2 d line cd) =
    match m_chrom_ends (map tok craw) d with
    | Err k => OErr k
    | Ok d' => ONorm (cenv bp nm cf sbv psv blv fv cfile hap block pc tind tract hbk cc start t1 t2 d' line' cd')
    end.
  Proof. intros. apply cen_loop. Qed.

  (* the body of `for hap, block in enumerate(sample_blocks)` on strand l = C18_Model.ext_strand false *)
  Theorem TV_ext_strand_refines : forall bp nm cf psv blv fv line cfile hbk cd start d pre post l hapv blockv pcv tv trv ccv t2v fuel,
    exists blockv' pcv' tv' trv' ccv' t2v',
    exec (ft0 fuel) ext_body fuel
      (xenv bp nm cf psv blv fv line cfile hbk cd start d (pre ++ l :: post) hapv blockv pcv tv trv ccv
            (VTuple [VInt (lenZ pre); enc_blocks l]) t2v) =
    match ext_strand val false d l with
    | Err k => OErr k
    | Ok l' => ONorm (xenv bp nm cf psv blv fv line cfile hbk cd start d (pre ++ l' :: post) (VInt (lenZ pre))
                           blockv' pcv' tv' trv' ccv' (VTuple [VInt (lenZ pre); enc_blocks l]) t2v')
    end.
  Proof. intros. apply ext_step. Qed.

End TV.
Print Assumptions TV_GetChrom_refines.
Print Assumptions TV_GetHaplotypeBlocks_missing_file.
Print Assumptions TV_GetHaplotypeBlocks_refines_plain.
Print Assumptions TV_GetHaplotypeBlocks_refines_ends.
Print Assumptions TV_GetHaplotypeBlocks_refines.
Print Assumptions TV_parse_loop_refines.
Print Assumptions TV_chrom_ends_refines.
Print Assumptions TV_ext_strand_refines.
Print Assumptions TV_blocks_are_samples_lines.
Print Assumptions TV_extension_only_last.

(* "_".join(h.split("_")[:-1]) computed with Python's split / join is BpText.before_last (the sample name
   of a header): the one place where the model abbreviates two string methods by one function *)
Theorem TV_join_split_is_before_last : forall c s, join_with c (removelast (split_on c s)) = before_last c s.
Proof. exact join_split_before_last. Qed.
Print Assumptions TV_join_split_is_before_last.

(* ---- the contracts are satisfiable, and the statement is not vacuous: concrete string methods (tokens
   separated by blanks), one-digit int() / float(), exact addition; the theorem then computes the run ---- *)
Definition xStrip (a : list val) : res val := match a with [v] => Ok v | _ => Err E_Unsupported end.
Definition xSplit (a : list val) : res val :=
  match a with
  | [VText s] => Ok (enc_toks (split_on 32 s))
  | [VText s; VText [c]] => Ok (VList (map VText (split_on c s)))
  | _ => Err E_Unsupported
  end.
Definition xJoin (a : list val) : res val :=
  match a with
  | [VText [c]; VList l] => match texts l with Some ss => Ok (VText (join_with c ss)) | None => Err 4 end
  | _ => Err E_Unsupported
  end.
Definition xEnds (a : list val) : res val :=
  match a with [VText s; VText p] => Ok (VBool (ends_with p s)) | _ => Err E_Unsupported end.
Definition xStarts (a : list val) : res val :=
  match a with [VText s; VText p] => Ok (VBool (starts_with p s)) | _ => Err E_Unsupported end.
Definition xInt (a : list val) : res val := match a with [VText [z]] => Ok (VInt (z - 48)) | _ => Err 1 end.
Definition xFloat (a : list val) : res val := match a with [VText [z]] => Ok (VQ (inject_Z (z - 48))) | _ => Err 1 end.
Definition xAdd (a : list val) : res val := match a with [VQ x; VQ y] => Ok (VQ (x + y)) | _ => Err 4 end.
Definition xExists (a : list val) : res val := Ok (VBool true).
Definition xOpen (raw craw : list str) (a : list val) : res val :=
  match a with
  | [VInt 0; _] => Ok (VList (map VText raw))
  | [VInt 1; _] => Ok (VList (map VText craw))
  | _ => Err 15
  end.

Lemma texts_map l : texts (map VText l) = Some l.
Proof. induction l as [|a l IH]; [reflexivity|]. cbn [map texts]. rewrite IH. reflexivity. Qed.

(* a_1 / P 1 3 / Q 1 7 / P 2 4 / a_2 / P 1 9 / b_1 / Q 1 5, ends file: 1 8 / 2 6 *)
Definition ex_raw : list str :=
  [[97; 95; 49]; [80; 32; 49; 32; 51]; [81; 32; 49; 32; 55]; [80; 32; 50; 32; 52]; [97; 95; 50]; [80; 32; 49; 32; 57];
   [98; 95; 49]; [81; 32; 49; 32; 53]].
Definition ex_craw : list str := [[49; 32; 56]; [50; 32; 54]].

Lemma x_starts_ok : forall s p, xStarts [VText s; VText p] = Ok (VBool (starts_with p s)).
Proof. reflexivity. Qed.
Lemma x_int_int : forall a v, xInt a = Ok v -> exists z, v = VInt z.
Proof.
  intros a v H. unfold xInt in H.
  repeat match type of H with context [match ?t with _ => _ end] => destruct t; try discriminate end.
  inversion H. eexists; reflexivity.
Qed.
Lemma x_ends_ok : forall s p, xEnds [VText s; VText p] = Ok (VBool (ends_with p s)).
Proof. reflexivity. Qed.
Lemma x_split_ok : forall s c, xSplit [VText s; VText [c]] = Ok (VList (map VText (split_on c s))).
Proof. reflexivity. Qed.
Lemma x_join_ok : forall c l, xJoin [VText [c]; VList (map VText l)] = Ok (VText (join_with c l)).
Proof. intros c l. unfold xJoin. rewrite texts_map. reflexivity. Qed.
Lemma x_tok_ok : forall r, exists x, xStrip [VText r] = Ok x /\ xSplit [x] = Ok (enc_toks (split_on 32 r)).
Proof. intro r. exists (VText r). split; reflexivity. Qed.
Lemma x_add_ok : forall v, isf xFloat v -> exists r, xAdd [v; VQ eps_q] = Ok r /\ r <> VUnbound.
Proof.
  intros v (a & H). unfold xFloat in H.
  repeat match type of H with context [match ?t with _ => _ end] => destruct t; try discriminate end.
  inversion H. eexists. split; [reflexivity|discriminate].
Qed.

Example TV_contracts_satisfiable :
  fn_GetHaplotypeBlocks xStrip xSplit xJoin xEnds xStarts xInt xFloat xExists (xOpen ex_raw ex_craw) xAdd 0%nat
    [VInt 0; VText [97]; VInt 1] =
  Ok (enc_sb [[mkhb [80] 1 (VQ eps_q) (VQ 3); mkhb [81] 1 (VQ (3 + eps_q)) (VQ 8); mkhb [80] 2 (VQ eps_q) (VQ 6)];
              [mkhb [80] 1 (VQ eps_q) (VQ 8)]],
      [VInt 0; VText [97]; VInt 1]).
Proof.
  rewrite (TV_GetHaplotypeBlocks_refines_ends xStrip xSplit xJoin xEnds xStarts xInt xFloat xExists (xOpen ex_raw ex_craw) xAdd
             x_starts_ok x_int_int x_ends_ok x_split_ok x_join_ok (split_on 32) x_tok_ok x_add_ok
             (VInt 0) [97] ex_raw ltac:(discriminate) eq_refl eq_refl (VInt 1) ex_craw 0%nat ltac:(discriminate) eq_refl eq_refl).
  vm_compute. reflexivity.
Qed.
Print Assumptions TV_contracts_satisfiable.
