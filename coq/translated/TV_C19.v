(* Translation validation for C19: the MiniPy syntax of the option post-processing that the click commands
   transform, simphenotype and ld (haptools/__main__.py) perform before calling the Python entry point - the
   statements from `if samples and samples_file: raise click.UsageError(...)` up to and including the call
   `transform_haps(...)` / `simulate_pt(...)` / `calc_ld(...)`, cut out as the synthetic functions
   <cmd>_front(samples, samples_file, ids, ids_file, ..., $out) - REGENERATED FROM /repo's CURRENT SOURCE on every
   run (HVG.Gen_Main, written by harness/pytrans.py), denotes exactly the hand-written C19_Model.resolve_samples /
   resolve_ids / front_end that the C19 theorems are about: for ALL option tuples and ALL file texts the entry point
   is called exactly once, with the model's collections (a set, for ld's ids a tuple, None for "no restriction"),
   or click.UsageError is raised before anything else happens.
   Compiled per run against the generated module; not part of the static build. *)
From HV Require Import Prelude MiniPy MiniPyFacts C19_Model C19_Check C19_Proofs.
From HVG Require Import Gen_Main TVM_C19.
From Coq Require Import String.
Open Scope string_scope.
Open Scope list_scope.
Open Scope Z_scope.

(* ---- sets of strings as MiniPy values ---- *)

Lemma hashable_texts l : forallb hashable (enc_texts l) = true.
Proof. induction l as [|a r IH]; [reflexivity|exact IH]. Qed.

Lemma hashable_map l : forallb hashable (map VText l) = true.
Proof. exact (hashable_texts l). Qed.

Lemma py_eq_text a b : py_eq (VText a) (VText b) = str_eqb a b.
Proof. reflexivity. Qed.

Lemma str_eqb_eq a b : str_eqb a b = true <-> a = b.
Proof. unfold str_eqb. apply list_eqb_spec. intros x y. apply Z.eqb_eq. Qed.

Lemma str_eqb_sym a b : str_eqb a b = str_eqb b a.
Proof.
  destruct (str_eqb a b) eqn:E.
  - apply str_eqb_eq in E. subst. symmetry. apply str_eqb_eq. reflexivity.
  - destruct (str_eqb b a) eqn:F; [|reflexivity]. apply str_eqb_eq in F. subst.
    assert (H : str_eqb a a = true) by (apply str_eqb_eq; reflexivity). rewrite H in E. discriminate.
Qed.

Lemma texts_in acc x : existsb (fun y => py_eq y (VText x)) (enc_texts acc) = mem x acc.
Proof.
  unfold mem. induction acc as [|k r IH]; [reflexivity|].
  cbn [enc_texts map existsb]. rewrite py_eq_text. fold (enc_texts r). rewrite IH, str_eqb_sym. reflexivity.
Qed.

(* the distinct entries of a list, in order of first occurrence *)
Fixpoint dedup_from (acc l : list str) : list str :=
  match l with
  | [] => acc
  | x :: r => dedup_from (if mem x acc then acc else acc ++ [x]) r
  end.
Definition dedup (l : list str) : list str := dedup_from [] l.

Lemma set_of_from acc l :
  fold_left set_add (enc_texts l) (enc_texts acc) = enc_texts (dedup_from acc l).
Proof.
  revert acc. induction l as [|x r IH]; intro acc; [reflexivity|].
  cbn [enc_texts map fold_left dedup_from]. fold (enc_texts r).
  unfold set_add at 2. rewrite texts_in. destruct (mem x acc).
  - apply IH.
  - replace (enc_texts acc ++ [VText x]) with (enc_texts (acc ++ [x])) by (unfold enc_texts; rewrite map_app; reflexivity).
    apply IH.
Qed.

Lemma set_of_texts l : set_of (enc_texts l) = enc_texts (dedup l).
Proof. unfold set_of, dedup. exact (set_of_from [] l). Qed.

Lemma mem_app x a b : mem x (a ++ b) = mem x a || mem x b.
Proof. unfold mem. apply existsb_app. Qed.

Lemma mem_dedup_from x l : forall acc, mem x (dedup_from acc l) = mem x acc || mem x l.
Proof.
  induction l as [|y r IH]; intro acc; cbn [dedup_from].
  - cbn [mem existsb]. rewrite orb_false_r. reflexivity.
  - rewrite IH. destruct (mem y acc) eqn:E.
    + change (mem x (y :: r)) with (str_eqb x y || mem x r).
      destruct (str_eqb x y) eqn:F; [|reflexivity].
      apply str_eqb_eq in F. subst y. rewrite E. reflexivity.
    + rewrite mem_app. change (mem x [y]) with (str_eqb x y || false).
      change (mem x (y :: r)) with (str_eqb x y || mem x r).
      rewrite orb_false_r, orb_assoc. reflexivity.
Qed.

Lemma nodup_snoc (a : list str) y : NoDup a -> ~ In y a -> NoDup (a ++ [y]).
Proof.
  induction a as [|x r IH]; intros H N; cbn [app].
  - constructor; [intros []|constructor].
  - inversion H as [|x' r' Hx Hr]; subst. constructor.
    + rewrite in_app_iff. intros [I|[I|[]]]; [exact (Hx I)|]. subst. apply N. left. reflexivity.
    + apply IH; [exact Hr|]. intro I. apply N. right. exact I.
Qed.

Lemma nodup_dedup_from l : forall acc, NoDup acc -> NoDup (dedup_from acc l).
Proof.
  induction l as [|y r IH]; intros acc H; cbn [dedup_from]; [exact H|].
  apply IH. destruct (mem y acc) eqn:E; [exact H|].
  apply nodup_snoc; [exact H|].
  intro Hin. assert (mem y acc = true); [|congruence].
  unfold mem. apply existsb_exists. exists y. split; [exact Hin|apply str_eqb_eq; reflexivity].
Qed.

(* ---- the contracts of the two untranslated methods ---- *)

Definition read_contract (rd : list val -> res val) : Prop :=
  forall t, rd [VObj file_cls [VText t]] = Ok (VText t).
Definition splitlines_contract (sp : list val -> res val) : Prop :=
  forall t, sp [VText t] = Ok (VList (enc_texts (splitlines t))).

(* what the model's front end hands the entry point, as the final state of the slice: the pair is appended to $out,
   samples / ids are rebound to the collections, the two file parameters are untouched *)
Definition front_result (tuple : bool) (sfile ifile : option str) (out : list val)
  (r : res (option (list str) * option (list str))) : res (val * list val) :=
  match r with
  | Err k => Err k
  | Ok (s, i) =>
      Ok (VNone, [enc_coll false s; enc_file sfile; enc_coll tuple i; enc_file ifile;
                  VList (out ++ [VTuple [enc_coll false s; enc_coll tuple i]])])
  end.

Definition model_front (sopts : list str) (sfile : option str) (iopts : list str) (ifile : option str) :=
  match resolve_samples sopts sfile with
  | Err k => Err k
  | Ok s => match resolve_ids false iopts ifile with Err k => Err k | Ok i => Ok (s, i) end
  end.

Lemma model_front_is_front_end sopts sfile iopts ifile :
  model_front sopts sfile iopts ifile = front_end false sopts sfile iopts ifile (fun s i => Ok (s, i)).
Proof.
  unfold model_front, front_end, bind.
  destruct (resolve_samples sopts sfile); [|reflexivity]. destruct (resolve_ids false iopts ifile); reflexivity.
Qed.

Section Contracts.
  Variables rd sp : list val -> res val.
  Hypothesis Hrd : read_contract rd.
  Hypothesis Hsp : splitlines_contract sp.

  Ltac step :=
    cbn -[set_of splitlines]; unfold ext_fn; rewrite ?Hrd, ?Hsp; cbn -[set_of splitlines];
    rewrite ?hashable_map; cbn -[set_of splitlines].

  Lemma transform_front_refines fuel sopts sfile iopts ifile out :
    fn_transform_front rd sp fuel [enc_opts sopts; enc_file sfile; enc_opts iopts; enc_file ifile; VList out]
    = front_result false sfile ifile out (model_front sopts sfile iopts ifile).
  Proof.
    unfold fn_transform_front, run_fun, model_front, front_result.
    destruct sopts as [|s0 so]; destruct sfile as [st|]; destruct iopts as [|i0 io]; destruct ifile as [it|];
      repeat step; reflexivity.
  Qed.

  Lemma ld_front_refines fuel sopts sfile iopts ifile out :
    fn_ld_front rd sp fuel [enc_opts sopts; enc_file sfile; enc_opts iopts; enc_file ifile; VList out]
    = front_result true sfile ifile out (model_front sopts sfile iopts ifile).
  Proof.
    unfold fn_ld_front, run_fun, model_front, front_result.
    destruct sopts as [|s0 so]; destruct sfile as [st|]; destruct iopts as [|i0 io]; destruct ifile as [it|];
      repeat step; reflexivity.
  Qed.

  (* simphenotype: the slice also contains `if heritability is None and environment is None and not normalize:
     log.error(...)`; whatever the three values are it has no effect on what the entry point receives *)
  Lemma simphenotype_front_refines fuel sopts sfile iopts ifile out h e nz :
    h <> VUnbound -> e <> VUnbound ->
    fn_simphenotype_front rd sp fuel
      [enc_opts sopts; enc_file sfile; enc_opts iopts; enc_file ifile; h; e; VBool nz; VList out]
    = match model_front sopts sfile iopts ifile with
      | Err k => Err k
      | Ok (s, i) =>
          Ok (VNone, [enc_coll false s; enc_file sfile; enc_coll false i; enc_file ifile; h; e; VBool nz;
                      VList (out ++ [VTuple [enc_coll false s; enc_coll false i]])])
      end.
  Proof.
    intros Hh He.
    assert (Rh : forall (A : Type) (f : val -> A) (g : A), match h with VUnbound => g | _ => f h end = f h)
      by (intros; destruct h; try reflexivity; contradiction).
    assert (Re : forall (A : Type) (f : val -> A) (g : A), match e with VUnbound => g | _ => f e end = f e)
      by (intros; destruct e; try reflexivity; contradiction).
    unfold fn_simphenotype_front, run_fun, model_front.
    destruct sopts as [|s0 so]; destruct sfile as [st|]; destruct iopts as [|i0 io]; destruct ifile as [it|];
      repeat step; try reflexivity;
      unfold read_var; cbn -[set_of splitlines py_eq];
      (destruct h; try contradiction; cbn -[set_of splitlines];
       try reflexivity;
       destruct e; try contradiction; cbn -[set_of splitlines];
       try reflexivity; destruct nz; reflexivity).
  Qed.

  (* the three commands at once: C19_Check's numbering 0 transform, 1 simphenotype, 2 ld *)
  Lemma front_refines cmd fuel sopts sfile iopts ifile out h e nz :
    cmd = 0 \/ cmd = 1 \/ cmd = 2 -> h <> VUnbound -> e <> VUnbound ->
    fn_front rd sp cmd h e nz fuel (enc_opts sopts) (enc_file sfile) (enc_opts iopts) (enc_file ifile) (VList out)
    = front_result (cmd =? 2) sfile ifile out (front_end false sopts sfile iopts ifile (fun s i => Ok (s, i))).
  Proof.
    intros Hc Hh He. rewrite <- model_front_is_front_end. unfold fn_front.
    destruct Hc as [->|[->| ->]]; cbn [Z.eqb Pos.eqb].
    - apply transform_front_refines.
    - rewrite simphenotype_front_refines by assumption. unfold front_result.
      destruct (model_front sopts sfile iopts ifile) as [[s i]|k]; reflexivity.
    - apply ld_front_refines.
  Qed.

  (* the entry point is called exactly once, with the model's (samples, ids), or not at all *)
  Lemma front_calls cmd fuel sopts sfile iopts ifile out h e nz :
    cmd = 0 \/ cmd = 1 \/ cmd = 2 -> h <> VUnbound -> e <> VUnbound ->
    called_with (fn_front rd sp cmd h e nz fuel (enc_opts sopts) (enc_file sfile) (enc_opts iopts) (enc_file ifile)
                   (VList out))
    = match front_end false sopts sfile iopts ifile (fun s i => Ok (s, i)) with
      | Err k => Err k
      | Ok (s, i) => Ok (out ++ [VTuple [enc_coll false s; enc_coll (cmd =? 2) i]])
      end.
  Proof.
    intros Hc Hh He. rewrite front_refines by assumption. unfold front_result, called_with.
    destruct (front_end false sopts sfile iopts ifile _) as [[s i]|k]; reflexivity.
  Qed.

  (* C19_file_eq_repeated about the translated code: a list written one entry per line (LF) and the same list given
     by repeating the option make the command call its entry point with the same arguments *)
  Lemma file_eq_repeated cmd fuel samples ids out h e nz :
    cmd = 0 \/ cmd = 1 \/ cmd = 2 -> h <> VUnbound -> e <> VUnbound ->
    samples <> [] -> ids <> [] -> Forall cleanP samples -> Forall cleanP ids ->
    called_with (fn_front rd sp cmd h e nz fuel (enc_opts []) (enc_file (Some (join_lines samples)))
                   (enc_opts []) (enc_file (Some (join_lines ids))) (VList out))
    = called_with (fn_front rd sp cmd h e nz fuel (enc_opts samples) (enc_file None) (enc_opts ids) (enc_file None)
                     (VList out))
    /\ called_with (fn_front rd sp cmd h e nz fuel (enc_opts samples) (enc_file None) (enc_opts ids) (enc_file None)
                      (VList out))
       = Ok (out ++ [VTuple [enc_coll false (Some samples); enc_coll (cmd =? 2) (Some ids)]]).
  Proof.
    intros Hc Hh He Hs Hi Cs Ci. rewrite !front_calls by assumption.
    rewrite (front_end_file_eq samples ids (fun s i => Ok (s, i)) Hs Hi Cs Ci).
    split; [reflexivity|].
    unfold front_end, resolve_samples, resolve_ids, from_opts, bind.
    destruct samples; [contradiction|]. destruct ids; [contradiction|]. reflexivity.
  Qed.

  (* every file shape in which a user writes the list (LF, unterminated last line, CRLF, CRLF unterminated) *)
  Lemma file_eq_repeated_shapes cmd fuel shs shi samples ids ts ti out h e nz :
    cmd = 0 \/ cmd = 1 \/ cmd = 2 -> h <> VUnbound -> e <> VUnbound ->
    In shs strict_shapes -> In shi strict_shapes -> samples <> [] -> ids <> [] ->
    Forall cleanP samples -> Forall cleanP ids -> file_of shs samples = Some ts -> file_of shi ids = Some ti ->
    called_with (fn_front rd sp cmd h e nz fuel (enc_opts []) (enc_file (Some ts)) (enc_opts []) (enc_file (Some ti))
                   (VList out))
    = called_with (fn_front rd sp cmd h e nz fuel (enc_opts samples) (enc_file None) (enc_opts ids) (enc_file None)
                     (VList out)).
  Proof.
    intros Hc Hh He H1 H2 Hs Hi Cs Ci F1 F2. rewrite !front_calls by assumption.
    rewrite (front_end_shape_eq shs shi samples ids ts ti (fun s i => Ok (s, i)) H1 H2 Hs Hi Cs Ci F1 F2).
    reflexivity.
  Qed.

  (* --id next to --ids-file: the file wins (no usage error), as the model says *)
  Lemma ids_file_wins cmd fuel iopts itxt out h e nz :
    cmd = 0 \/ cmd = 1 \/ cmd = 2 -> h <> VUnbound -> e <> VUnbound ->
    called_with (fn_front rd sp cmd h e nz fuel (enc_opts []) (enc_file None) (enc_opts iopts) (enc_file (Some itxt))
                   (VList out))
    = Ok (out ++ [VTuple [VNone; enc_coll (cmd =? 2) (Some (splitlines itxt))]]).
  Proof. intros Hc Hh He. rewrite front_calls by assumption. reflexivity. Qed.
End Contracts.

(* C19_both_forms_usage_error about the translated code: whatever .read() / .splitlines() do (no contract), giving
   -s/--sample together with -S/--samples-file raises click.UsageError before a file is read and before the entry
   point is reached; click turns it into exit status 2 *)
Lemma both_forms_usage rd sp cmd fuel sopts stxt iopts ifile out h e nz :
  cmd = 0 \/ cmd = 1 \/ cmd = 2 -> sopts <> [] ->
  fn_front rd sp cmd h e nz fuel (enc_opts sopts) (enc_file (Some stxt)) (enc_opts iopts) (enc_file ifile) (VList out)
  = Err E_Usage
  /\ exit_code (fn_front rd sp cmd h e nz fuel (enc_opts sopts) (enc_file (Some stxt)) (enc_opts iopts) (enc_file ifile)
                  (VList out)) = 2.
Proof.
  intros Hc Hs. destruct sopts as [|s0 so]; [contradiction|].
  assert (E : fn_front rd sp cmd h e nz fuel (enc_opts (s0 :: so)) (enc_file (Some stxt)) (enc_opts iopts)
                (enc_file ifile) (VList out) = Err E_Usage).
  { unfold fn_front. destruct Hc as [->|[->| ->]]; cbn [Z.eqb Pos.eqb]; reflexivity. }
  rewrite E. split; reflexivity.
Qed.

(* ================= the theorems ================= *)

Theorem TV_transform_front_refines :
  forall rd sp, read_contract rd -> splitlines_contract sp ->
  forall fuel sopts sfile iopts ifile out,
  fn_transform_front rd sp fuel [enc_opts sopts; enc_file sfile; enc_opts iopts; enc_file ifile; VList out]
  = match resolve_samples sopts sfile with
    | Err k => Err k
    | Ok s =>
      match resolve_ids false iopts ifile with
      | Err k => Err k
      | Ok i => Ok (VNone, [enc_coll false s; enc_file sfile; enc_coll false i; enc_file ifile;
                            VList (out ++ [VTuple [enc_coll false s; enc_coll false i]])])
      end
    end.
Proof.
  intros rd sp Hrd Hsp fuel sopts sfile iopts ifile out.
  rewrite (transform_front_refines rd sp Hrd Hsp). unfold front_result, model_front.
  destruct (resolve_samples sopts sfile); [|reflexivity]. destruct (resolve_ids false iopts ifile); reflexivity.
Qed.
Print Assumptions TV_transform_front_refines.

Theorem TV_simphenotype_front_refines :
  forall rd sp, read_contract rd -> splitlines_contract sp ->
  forall fuel sopts sfile iopts ifile out h e nz, h <> VUnbound -> e <> VUnbound ->
  fn_simphenotype_front rd sp fuel
    [enc_opts sopts; enc_file sfile; enc_opts iopts; enc_file ifile; h; e; VBool nz; VList out]
  = match resolve_samples sopts sfile with
    | Err k => Err k
    | Ok s =>
      match resolve_ids false iopts ifile with
      | Err k => Err k
      | Ok i => Ok (VNone, [enc_coll false s; enc_file sfile; enc_coll false i; enc_file ifile; h; e; VBool nz;
                            VList (out ++ [VTuple [enc_coll false s; enc_coll false i]])])
      end
    end.
Proof.
  intros rd sp Hrd Hsp fuel sopts sfile iopts ifile out h e nz Hh He.
  rewrite (simphenotype_front_refines rd sp Hrd Hsp) by assumption. unfold model_front.
  destruct (resolve_samples sopts sfile); [|reflexivity]. destruct (resolve_ids false iopts ifile); reflexivity.
Qed.
Print Assumptions TV_simphenotype_front_refines.

(* ld hands its ids over as a tuple (order and repetitions kept), its samples as a set *)
Theorem TV_ld_front_refines :
  forall rd sp, read_contract rd -> splitlines_contract sp ->
  forall fuel sopts sfile iopts ifile out,
  fn_ld_front rd sp fuel [enc_opts sopts; enc_file sfile; enc_opts iopts; enc_file ifile; VList out]
  = match resolve_samples sopts sfile with
    | Err k => Err k
    | Ok s =>
      match resolve_ids false iopts ifile with
      | Err k => Err k
      | Ok i => Ok (VNone, [enc_coll false s; enc_file sfile; enc_coll true i; enc_file ifile;
                            VList (out ++ [VTuple [enc_coll false s; enc_coll true i]])])
      end
    end.
Proof.
  intros rd sp Hrd Hsp fuel sopts sfile iopts ifile out.
  rewrite (ld_front_refines rd sp Hrd Hsp). unfold front_result, model_front.
  destruct (resolve_samples sopts sfile); [|reflexivity]. destruct (resolve_ids false iopts ifile); reflexivity.
Qed.
Print Assumptions TV_ld_front_refines.

(* the whole front end of the model (resolve both, then call the entry point) = the translated slice *)
Theorem TV_front_end_refines :
  forall rd sp, read_contract rd -> splitlines_contract sp ->
  forall cmd fuel sopts sfile iopts ifile out h e nz,
  cmd = 0 \/ cmd = 1 \/ cmd = 2 -> h <> VUnbound -> e <> VUnbound ->
  called_with (fn_front rd sp cmd h e nz fuel (enc_opts sopts) (enc_file sfile) (enc_opts iopts) (enc_file ifile)
                 (VList out))
  = match front_end false sopts sfile iopts ifile (fun s i => Ok (s, i)) with
    | Err k => Err k
    | Ok (s, i) => Ok (out ++ [VTuple [enc_coll false s; enc_coll (cmd =? 2) i]])
    end.
Proof. intros rd sp Hrd Hsp cmd fuel sopts sfile iopts ifile out h e nz. exact (front_calls rd sp Hrd Hsp _ _ _ _ _ _ _ _ _ _). Qed.
Print Assumptions TV_front_end_refines.

Theorem TV_file_eq_repeated :
  forall rd sp, read_contract rd -> splitlines_contract sp ->
  forall cmd fuel samples ids out h e nz,
  cmd = 0 \/ cmd = 1 \/ cmd = 2 -> h <> VUnbound -> e <> VUnbound ->
  samples <> [] -> ids <> [] -> Forall cleanP samples -> Forall cleanP ids ->
  called_with (fn_front rd sp cmd h e nz fuel (enc_opts []) (enc_file (Some (join_lines samples)))
                 (enc_opts []) (enc_file (Some (join_lines ids))) (VList out))
  = called_with (fn_front rd sp cmd h e nz fuel (enc_opts samples) (enc_file None) (enc_opts ids) (enc_file None)
                   (VList out))
  /\ called_with (fn_front rd sp cmd h e nz fuel (enc_opts samples) (enc_file None) (enc_opts ids) (enc_file None)
                    (VList out))
     = Ok (out ++ [VTuple [enc_coll false (Some samples); enc_coll (cmd =? 2) (Some ids)]]).
Proof. intros rd sp Hrd Hsp. exact (file_eq_repeated rd sp Hrd Hsp). Qed.
Print Assumptions TV_file_eq_repeated.

Theorem TV_file_eq_repeated_shapes :
  forall rd sp, read_contract rd -> splitlines_contract sp ->
  forall cmd fuel shs shi samples ids ts ti out h e nz,
  cmd = 0 \/ cmd = 1 \/ cmd = 2 -> h <> VUnbound -> e <> VUnbound ->
  In shs strict_shapes -> In shi strict_shapes -> samples <> [] -> ids <> [] ->
  Forall cleanP samples -> Forall cleanP ids -> file_of shs samples = Some ts -> file_of shi ids = Some ti ->
  called_with (fn_front rd sp cmd h e nz fuel (enc_opts []) (enc_file (Some ts)) (enc_opts []) (enc_file (Some ti))
                 (VList out))
  = called_with (fn_front rd sp cmd h e nz fuel (enc_opts samples) (enc_file None) (enc_opts ids) (enc_file None)
                   (VList out)).
Proof. intros rd sp Hrd Hsp. exact (file_eq_repeated_shapes rd sp Hrd Hsp). Qed.
Print Assumptions TV_file_eq_repeated_shapes.

Theorem TV_both_forms_usage_error :
  forall rd sp cmd fuel sopts stxt iopts ifile out h e nz,
  cmd = 0 \/ cmd = 1 \/ cmd = 2 -> sopts <> [] ->
  fn_front rd sp cmd h e nz fuel (enc_opts sopts) (enc_file (Some stxt)) (enc_opts iopts) (enc_file ifile) (VList out)
  = Err E_Usage
  /\ exit_code (fn_front rd sp cmd h e nz fuel (enc_opts sopts) (enc_file (Some stxt)) (enc_opts iopts) (enc_file ifile)
                  (VList out)) = 2.
Proof. exact both_forms_usage. Qed.
Print Assumptions TV_both_forms_usage_error.

Theorem TV_ids_file_wins :
  forall rd sp, read_contract rd -> splitlines_contract sp ->
  forall cmd fuel iopts itxt out h e nz,
  cmd = 0 \/ cmd = 1 \/ cmd = 2 -> h <> VUnbound -> e <> VUnbound ->
  called_with (fn_front rd sp cmd h e nz fuel (enc_opts []) (enc_file None) (enc_opts iopts) (enc_file (Some itxt))
                 (VList out))
  = Ok (out ++ [VTuple [VNone; enc_coll (cmd =? 2) (Some (splitlines itxt))]]).
Proof. intros rd sp Hrd Hsp. exact (ids_file_wins rd sp Hrd Hsp). Qed.
Print Assumptions TV_ids_file_wins.

(* what enc_set means: the set handed to the entry point has exactly the model list's members, each once *)
Theorem TV_enc_set_is_the_set :
  forall l, enc_set l = VSet (enc_texts (dedup l))
  /\ NoDup (dedup l)
  /\ (forall x, mem x (dedup l) = mem x l)
  /\ (forall x, existsb (fun y => py_eq y (VText x)) (set_of (enc_texts l)) = mem x l).
Proof.
  intro l. unfold enc_set. rewrite set_of_texts. split; [reflexivity|]. split.
  - apply nodup_dedup_from. constructor.
  - split; intro x.
    + unfold dedup. rewrite mem_dedup_from. reflexivity.
    + rewrite texts_in. unfold dedup. rewrite mem_dedup_from. reflexivity.
Qed.
Print Assumptions TV_enc_set_is_the_set.

(* the contracts are satisfiable: the functions the correspondence run evaluates the slice with *)
Theorem TV_front_contracts_satisfiable :
  read_contract read_fn /\ splitlines_contract splitlines_fn
  /\ tv_model_inv 2 (mkinv [] (Some [83; 49; 10; 83; 48; 10; 83; 49; 10]) [[72; 50]; [72; 49]; [72; 50]] None
                       0 None (0, 0) false)
     = Ok ((1, 2), (Some [[83; 49]; [83; 48]], Some [[72; 50]; [72; 49]; [72; 50]])).
Proof.
  split; [|split].
  - intro t. reflexivity.
  - intro t. reflexivity.
  - vm_compute. reflexivity.
Qed.
Print Assumptions TV_front_contracts_satisfiable.
