(* MiniPy.dec_text (Coq's own decimal printer of Z.to_int, the str(int) of the translated
   f-strings) is the decimal printer [dec] of C02_Reader (the str(int) of the written text). *)
From HV Require Import Prelude MiniPy C02_Reader.
From Coq Require Import DecimalString DecimalZ DecimalPos DecimalN DecimalFacts Ascii.
From Coq Require String.
Open Scope Z_scope.

(* a digit code in front of a decimal number *)
Definition dcons (c : Z) (d : Decimal.uint) : Decimal.uint :=
  match c with
  | 48 => Decimal.D0 d | 49 => Decimal.D1 d | 50 => Decimal.D2 d | 51 => Decimal.D3 d
  | 52 => Decimal.D4 d | 53 => Decimal.D5 d | 54 => Decimal.D6 d | 55 => Decimal.D7 d
  | 56 => Decimal.D8 d | 57 => Decimal.D9 d | _ => Decimal.D0 d
  end.

Fixpoint uint_of (l : list Z) : Decimal.uint :=
  match l with [] => Decimal.Nil | c :: r => dcons c (uint_of r) end.

Ltac digit_cases c H :=
  let E := fresh "E" in
  assert (E : c = 48 \/ c = 49 \/ c = 50 \/ c = 51 \/ c = 52 \/ c = 53 \/ c = 54 \/ c = 55
              \/ c = 56 \/ c = 57) by (unfold is_digit in H; lia);
  destruct E as [E|[E|[E|[E|[E|[E|[E|[E|[E|E]]]]]]]]]; subst c.

Definition codes (s : String.string) : list Z :=
  map (fun a => Z.of_N (Ascii.N_of_ascii a)) (String.list_ascii_of_string s).

(* (1) rendering *)
Lemma render_uint l : Forall is_digit l -> codes (NilEmpty.string_of_uint (uint_of l)) = l.
Proof.
  induction 1 as [|c r Hc _ IH]; [reflexivity|].
  digit_cases c Hc; cbn [uint_of dcons NilEmpty.string_of_uint]; unfold codes in *;
    cbn [String.list_ascii_of_string map]; rewrite IH; reflexivity.
Qed.

(* (2) Decimal.rev against List.rev *)
Lemma revapp_uint_of l : forall m, Forall is_digit l ->
  Decimal.revapp (uint_of l) (uint_of m) = uint_of (rev l ++ m).
Proof.
  induction l as [|c r IH]; intros m H; [reflexivity|].
  pose proof (Forall_inv H) as Hc. pose proof (Forall_inv_tail H) as Hr.
  cbn [rev]. rewrite <- List.app_assoc. cbn [app]. rewrite <- IH by exact Hr.
  cbn [uint_of]. digit_cases c Hc; reflexivity.
Qed.

Lemma rev_uint_of l : Forall is_digit l -> Decimal.rev (uint_of l) = uint_of (rev l).
Proof.
  intros H. unfold Decimal.rev. rewrite <- (List.app_nil_r (rev l)). exact (revapp_uint_of l [] H).
Qed.

(* the value of a little-endian number *)
Lemma of_lu_uint_of l : Forall is_digit l ->
  Z.of_N (DecimalPos.Unsigned.of_lu (uint_of l)) = val_rev l.
Proof.
  induction 1 as [|c r Hc _ IH]; [reflexivity|].
  cbn [uint_of val_rev]. rewrite <- IH.
  digit_cases c Hc; cbn [dcons DecimalPos.Unsigned.of_lu]; lia.
Qed.

(* the most significant digit of a positive number is not 0 *)
Lemma msd fuel : forall z, 0 < z -> z < 2 ^ Z.of_nat fuel ->
  exists c l, rev (digits_rev fuel z) = c :: l /\ 49 <= c <= 57.
Proof.
  induction fuel as [|f IH]; intros z Hz Hlt; [cbn in Hlt; lia|].
  cbn [digits_rev]. destruct (z <? 10) eqn:E.
  - apply Z.ltb_lt in E. exists (48 + z mod 10), []. split; [reflexivity|].
    rewrite Z.mod_small by lia. lia.
  - apply Z.ltb_ge in E. destruct (IH (z / 10)) as (c & l & Hr & Hc).
    + apply Z.div_str_pos; lia.
    + rewrite Nat2Z.inj_succ, Z.pow_succ_r in Hlt by lia.
      apply Z.div_lt_upper_bound; lia.
    + exists c, (l ++ [48 + z mod 10]). cbn [rev]. rewrite Hr. split; [reflexivity|exact Hc].
Qed.

Lemma to_uint_dec_nat p : Pos.to_uint p = uint_of (dec_nat (Zpos p)).
Proof.
  assert (Hd : Forall is_digit (digits_rev (S (Z.to_nat (Z.log2 (Zpos p)))) (Zpos p))).
  { apply digits_rev_digits. lia. }
  assert (Hv : Pos.of_uint (uint_of (dec_nat (Zpos p))) = Npos p).
  { rewrite DecimalPos.Unsigned.of_uint_alt. unfold dec_nat.
    rewrite rev_uint_of by (apply Forall_rev; exact Hd). rewrite rev_involutive.
    apply N2Z.inj. rewrite of_lu_uint_of by exact Hd.
    rewrite digits_rev_val; [reflexivity|lia|apply log2_fuel; lia]. }
  change (Pos.to_uint p) with (N.to_uint (Npos p)).
  rewrite <- Hv, DecimalPos.Unsigned.to_of.
  destruct (msd (S (Z.to_nat (Z.log2 (Zpos p)))) (Zpos p)) as (c & l & Hr & Hc);
    [lia|apply log2_fuel; lia|].
  unfold dec_nat. rewrite Hr. cbn [uint_of].
  assert (E : c = 49 \/ c = 50 \/ c = 51 \/ c = 52 \/ c = 53 \/ c = 54 \/ c = 55
              \/ c = 56 \/ c = 57) by lia.
  destruct E as [E|[E|[E|[E|[E|[E|[E|[E|E]]]]]]]]; subst c; reflexivity.
Qed.

(* (3) *)
Theorem TV_dec_text_is_dec : forall z : Z, MiniPy.dec_text z = C02_Reader.dec z.
Proof.
  intros [|p|p].
  - reflexivity.
  - unfold dec_text. cbn [Z.to_int NilEmpty.string_of_int]. rewrite to_uint_dec_nat.
    rewrite dec_nonneg by lia. apply render_uint.
    rewrite <- dec_nonneg by lia. apply dec_digits. lia.
  - unfold dec_text, dec. cbn [Z.to_int NilEmpty.string_of_int Z.ltb Z.compare Z.opp].
    rewrite to_uint_dec_nat. cbn [String.list_ascii_of_string map]. f_equal.
    apply render_uint. rewrite <- dec_nonneg by lia. apply dec_digits. lia.
Qed.
Print Assumptions TV_dec_text_is_dec.
