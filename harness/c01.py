"""C01 - simulated local ancestry is inherited unchanged from the parents.

Relations
  kernel : sim_genotype.get_segment / start_segment called on constructed parents
  child  : every child of every generation of simulate_gt, with np.random.* and
           _simulate wrapped so that draws and parents are known
"""
import os
import shutil
import tempfile

import numpy as np

from . import coqlit as L
from .core import Relation, err_kind

PROP = "C01"
CLAIMED = True
COQ_MODULES = ["C01_Check", "C01_Proofs", "C01_Bsearch", "C01_Kernel", "C01_Mosaic", "C01_MosaicInst", "C01_MosaicDraws"]
PROPERTY_MODULE = "C01_Property"
ALLOWED_AXIOMS = []

# The MiniPy model of these functions is regenerated from the current source on every run
# (harness/pytrans.py) and proved equal to the hand-written models in coq/translated/TV_C01.v.
TRANSLATION = {
    "spec": {
        "module": "Gen_SimGenotype",
        "classes": [("haptools/admix_storage.py", "HaplotypeSegment", 1),
                    ("haptools/admix_storage.py", "GeneticMarker", 2)],
        "functions": [
            ("haptools/sim_genotype.py", "_find_coord"),
            ("haptools/sim_genotype.py", "_find_random_sample"),
            ("haptools/sim_genotype.py", "start_segment"),
            ("haptools/sim_genotype.py", "get_segment"),
            # the per-child loop of _simulate: from `prev_chrom = chroms[0]` to just before `hap_samples.append(segments)`
            ("haptools/sim_genotype.py", "_simulate", {
                "name": "_simulate_child", "loop_target": "sample", "from_assign": "prev_chrom",
                "until_append_to": "hap_samples", "result": "segments",
                "params": ["chroms", "end_coords", "p_pop", "haps", "homolog", "true_coords", "prev_gen_samples",
                           "segments"]}),
        ],
    },
    "models": ["TVM_C01"],   # definitions only: evaluation of the translated code (tv_kernel relation)
    "proofs": ["TV_C01", "TV_C01_Child"],    # translation-validation theorems
}
RULE = (
    "kernel: parents of 1-3 chromosomes x 1-8 tracts with coordinates from a small grid so that "
    "start/end collide with tract ends (+-1), a tenth of them with the grid shifted to 2^31-53 .. 2^31-3 so that "
    "tract ends, starts and ends touch the int32 sentinel (intervals [2^31-2, 2^31-1], [2^31-1, 2^31-1]); non-trivial = "
    "admixed copy whose interval crosses or ends on a parental boundary. child: simulate_gt on generated maps/models with "
    "recorded draws, half of them with width-boundary features (a marker at 2^31-2 before a last marker at or beyond 2^31-1 / "
    "2^32, single-marker chromosomes, cM values printed in exponent form); "
    "non-trivial = admixed child with >= 1 recombination event. Distinct = distinct canonical JSON."
)
TRUSTED = [
    "numpy RNG draws are recorded, not modelled (universally quantified in the theorems)",
    "cM values are opaque tokens (only copied by the code)",
]
ASSUMPTIONS = [
    "kernel precondition of the theorems: parent sorted by (chrom,end), some tract of chrom reaches end, start<=end",
]
MAXI = 2**31 - 1


def seg_term(s):
    return f"(mkseg {L.z(s[0])} {L.z(s[1])} {L.z(s[2])} {L.z(s[3])})"


def segs_term(l):
    return L.lst(l, seg_term)


def rsegs(x):
    return L.res(x, segs_term)


class Kernel(Relation):
    name = "kernel"
    coq_module = "C01_Check"
    coq_check = "check_kernel"
    coq_case_type = "kcase"
    coq_model = "model_kernel"
    coq_imports = ["Tracts", "C01_Model"]
    budget = {"quick": 1500, "thorough": 20000}
    anchors = [
        ("haptools/sim_genotype.py", "get_segment"),
        ("haptools/sim_genotype.py", "start_segment"),
    ]

    def _parent(self, rng, grid):
        out = []
        nchrom = int(rng.integers(1, 4))
        for c in sorted(rng.choice(np.arange(1, 6), size=nchrom, replace=False).tolist()):
            k = int(rng.integers(1, 9))
            ends = sorted(set(rng.choice(grid, size=k - 1).tolist())) if k > 1 else []
            ends.append(MAXI)
            for e in ends:
                out.append([int(rng.integers(1, 5)), int(c), int(e), int(rng.integers(0, 50))])
        return out

    def generate(self, rng, n, tier):
        cases = []
        grid = np.array([1, 2, 3, 5, 8, 9, 10, 11, 20, 21, 22, 30, 40, 41, 50])
        grid_lo = grid
        grid_hi = MAXI - 1 - grid[::-1]            # tract ends MAXI-51 .. MAXI-2: intervals touching the int32 sentinel
        for i in range(n):
            hi = rng.random() < 0.1
            grid = grid_hi if hi else grid_lo
            nprev = int(rng.integers(1, 4))
            prev = [self._parent(rng, grid) for _ in range(nprev)]
            h = int(rng.integers(0, nprev))
            par = prev[h]
            c = int(rng.choice([s[1] for s in par]))
            ends = [s[2] for s in par if s[1] == c]
            starts = [0] + [e + d for e in ends[:-1] for d in (0, 1)] + [int(rng.choice(grid))] + ([MAXI - 1, MAXI] if hi else [])
            stops = [MAXI] + [e + d for e in ends[:-1] for d in (-1, 0, 1)] + [int(rng.choice(grid)) + 1]
            a, b = int(rng.choice(starts)), int(rng.choice(stops))
            if b < a:
                a, b = b, a
            pop = 0
            kind = "wellformed"
            r = rng.random()
            if r < 0.07:
                pop = int(rng.integers(1, 5))
                kind = "founder"
            elif r < 0.12:
                # malformed: unsorted parent
                perm = rng.permutation(len(par)).tolist()
                prev[h] = [par[j] for j in perm]
                kind = "unsorted"
            elif r < 0.16:
                c = 7  # chromosome the parent lacks
                kind = "missing-chrom"
            elif r < 0.19:
                h = nprev + int(rng.integers(0, 2))
                kind = "bad-index"
            elif r < 0.23:
                # parent whose chromosome does not reach the interval end
                prev[h] = [s for s in par if not (s[1] == c and s[2] == MAXI)]
                kind = "short-chrom"
            cases.append({"pop": pop, "h": h, "chrom": c, "start": a, "end": b,
                          "cm": int(rng.integers(50, 60)), "prev": prev, "kind": kind, "near_sentinel": bool(hi)})
        return cases

    def exhaustive(self, tier):
        # all layouts of <= 3 tracts over a 4-point grid x 2 labels, all intervals over the grid
        import itertools

        pts = [2, 3, 5, 6]
        qs = [0, 1, 2, 3, 4, 5, 6, 7, MAXI]
        out = []
        for k in range(0, 3):
            for ends in itertools.combinations(pts, k):
                for labs in itertools.product([1, 2], repeat=k + 1):
                    par = [[labs[i], 1, e, 10 + i] for i, e in enumerate(list(ends) + [MAXI])]
                    par = par + [[1, 2, MAXI, 3]]
                    for a in qs:
                        for b in qs:
                            if a <= b:
                                out.append({"pop": 0, "h": 0, "chrom": 1, "start": a, "end": b, "cm": 55,
                                            "prev": [par], "kind": "exhaustive"})
        return out

    def run_impl(self, inp):
        from haptools.admix_storage import HaplotypeSegment as S
        from haptools.sim_genotype import get_segment, start_segment

        prev = [[S(s[0], s[1], s[2], float(s[3])) for s in hap] for hap in inp["prev"]]
        try:
            out = get_segment(inp["pop"], inp["h"], inp["chrom"], inp["start"], inp["end"], float(inp["cm"]), prev)
            seg = {"ok": [[int(s.get_pop()), int(s.get_chrom()), int(s.get_end_coord()), int(s.get_end_pos())] for s in out]}
        except Exception as e:  # noqa
            seg = {"err": err_kind(e)}
        try:
            idx = {"ok": int(start_segment(inp["start"], inp["chrom"], prev[inp["h"]]))}
        except Exception as e:  # noqa
            idx = {"err": err_kind(e)}
        return {"seg": seg, "idx": idx}

    def encode(self, inp, obs):
        if "seg" not in obs:
            obs = {"seg": {"err": obs.get("kind", 99)}, "idx": {"err": obs.get("kind", 99)}}
        return (
            f"(mkk {L.z(inp['pop'])} {L.z(inp['h'])} {L.z(inp['chrom'])} {L.z(inp['start'])} {L.z(inp['end'])} "
            f"{L.z(inp['cm'])} {L.lst(inp['prev'], segs_term)} {rsegs(obs['seg'])} {L.res(obs['idx'], L.z)})"
        )

    def _crosses(self, inp):
        if inp["pop"] or inp["h"] >= len(inp["prev"]):
            return False
        ends = [s[2] for s in inp["prev"][inp["h"]] if s[1] == inp["chrom"]]
        return any(inp["start"] <= e <= inp["end"] for e in ends[:-1])

    def nontrivial(self, inp, obs):
        return self._crosses(inp)

    def classes(self, inp, obs):
        out = [inp["kind"]]
        if inp.get("near_sentinel"):
            out.append("coordinates-within-52-of-2^31-1")
        if inp["kind"] in ("wellformed", "exhaustive"):
            ends = [s[2] for s in inp["prev"][inp["h"]] if s[1] == inp["chrom"]]
            if inp["end"] in ends:
                out.append("ends-on-tract-end")
            if inp["start"] == 0 and inp["end"] == MAXI:
                out.append("whole-chromosome")
            out.append("spans-boundary" if self._crosses(inp) else "inside-one-tract")
        if isinstance(obs, dict) and "seg" in obs and "err" in obs["seg"]:
            out.append(f"err{obs['seg']['err']}")
        return out

    def shrink(self, inp):
        # drop other haplotypes, drop tracts, drop other chromosomes
        prev, h = inp["prev"], inp["h"]
        if len(prev) > 1 and h < len(prev):
            yield dict(inp, prev=[prev[h]], h=0)
        if h < len(prev):
            par = prev[h]
            for j in range(len(par)):
                q = par[:j] + par[j + 1:]
                yield dict(inp, prev=prev[:h] + [q] + prev[h + 1:])
        for key in ("start", "end"):
            for v in (0, inp[key] - 1, inp[key] // 2):
                if 0 <= v != inp[key] and (key == "end" or v <= inp["end"]) and (key == "start" or v >= inp["start"]):
                    yield dict(inp, **{key: v})

    def mutate(self, inp, rng):
        if inp["h"] >= len(inp["prev"]):
            return
        ends = [s[2] for s in inp["prev"][inp["h"]] if s[1] == inp["chrom"]]
        for e in ends:
            for d in (-1, 0, 1):
                if 0 <= e + d:
                    yield dict(inp, end=max(inp["start"], e + d))
                    yield dict(inp, start=min(inp["end"], e + d))

    def signature(self, inp, obs):
        return f"kernel get_segment crosses-parental-boundary={self._crosses(inp)} pop={'founder' if inp['pop'] else 'admixed'}"


# ---------------------------------------------------------------------------


# population labels: the reader's 'U6' field holds 6 characters
SHORT_POPS = ["CEU", "YRI", "P0", "P1", "P2", "AB_CDE", "pop123", "x", "Nat_1", "1"]
LONG_POPS = ["African", "European", "Admixed_European", "EuropeB", "EuropeC", "pop1234", "pop1235", "East_Asian_1"]


def widen(cfg, rng):
    """Width-boundary features on top of a configuration (each with its own probability): population labels of
    6 / 7 / more characters (also pairs sharing their first 6), a chromosome with a single marker, a marker at
    2^31-2 followed by a last marker at or beyond 2^31-1 (and 2^32), cM values whose repr is exponential."""
    cfg = dict(cfg, maps={c: [list(r) for r in rows] for c, rows in cfg["maps"].items()})
    feats = []
    K = len(cfg["pops"])
    r = rng.random()
    if r < 0.35:
        names = [str(x) for x in rng.choice(SHORT_POPS, size=K, replace=False)]
        cfg["pops"] = names
        feats.append("labels<=6")
    elif r < 0.6:
        pool = SHORT_POPS + LONG_POPS
        names = [str(x) for x in rng.choice(pool, size=K, replace=False)]
        if not any(len(n) > 6 for n in names):
            names[int(rng.integers(0, K))] = str(rng.choice(LONG_POPS))
        if rng.random() < 0.5 and K >= 2:
            i, j = [int(x) for x in rng.choice(K, size=2, replace=False)]
            names[i], names[j] = ("EuropeB", "EuropeC") if rng.random() < 0.5 else ("pop1234", "pop1235")
            feats.append("labels-share-6-prefix")
        if len(set(names)) == K:
            cfg["pops"] = names
            feats.append("labels>6")
    chs = list(cfg["maps"])
    free = [c for c in chs if not (cfg["region"] and cfg["region"]["chr"] == c)]
    if free and rng.random() < 0.3:
        c = free[int(rng.integers(0, len(free)))]
        cfg["maps"][c] = cfg["maps"][c][:1]
        if rng.random() < 0.5:
            cfg["maps"][c][0][1] = float(rng.choice([0.000001, 0.00001, 1e16, 123456789.123456]))
            feats.append("cm-repr-exponential")
        feats.append("single-marker-chromosome")
    free = [c for c in free if len(cfg["maps"][c]) >= 3]
    if free and rng.random() < 0.35:
        c = free[int(rng.integers(0, len(free)))]
        rows = cfg["maps"][c]
        rows[-2][2] = 2**31 - 2                       # the largest position below the sentinel
        rows[-1][2] = int(rng.choice([2**31 - 1, 2**31 + 5, 2**32 + 7]))
        rows[-2][1] = round(rows[-3][1] + 300.0, 6)   # events at the last two markers are likely
        rows[-1][1] = round(rows[-2][1] + 300.0, 6)
        feats.append("marker-at-2^31-2")
    cfg["wide"] = feats
    return cfg


def make_config(rng, small=False, wide=False):
    """A simgenotype configuration: maps, model, popsize, optional region.  With wide=True the width-boundary
    features of [widen] are drawn on top (the draws of the plain configuration come first and are unchanged)."""
    cfg = _make_config(rng)
    return widen(cfg, rng) if wide else cfg


def _make_config(rng):
    allch = [str(c) for c in range(1, 23)] + ["X"]
    k = int(rng.integers(1, 5))
    idx = sorted(rng.choice(23, size=k, replace=False).tolist())
    chroms = [allch[i] for i in idx]
    maps = {}
    for c in chroms:
        nm = int(rng.integers(2, 10))
        cm = 0.0
        bp = int(rng.integers(1, 1000))
        rows = []
        for i in range(nm):
            rows.append([c, round(cm, 6), bp])
            cm += float(rng.choice([0, 0.5, 20, 80, 300]))
            bp += int(rng.integers(1, 100000))
        maps[c] = rows
    K = int(rng.integers(2, 4))
    G = int(rng.integers(1, 5))
    lines = []
    g = 0
    for gi in range(G):
        g += int(rng.integers(1, 3))
        adm = 0.0 if gi == 0 else float(rng.choice([0, 0.5, 1]))
        rest = 1 - adm
        w = rng.dirichlet(np.ones(K))
        if rng.random() < 0.3:
            w[int(rng.integers(0, K))] = 0
            w = w / w.sum() if w.sum() > 0 else np.ones(K) / K
        fr = [round(rest * float(x), 4) for x in w]
        fr[-1] = round(rest - sum(fr[:-1]), 4)
        if fr[-1] < 0:
            fr = [rest / K] * K
        lines.append([g, adm] + fr)
    region = None
    if rng.random() < 0.25:
        c = chroms[int(rng.integers(0, len(chroms)))]
        bps = [r[2] for r in maps[c]]
        a = int(rng.choice(bps)) - int(rng.integers(0, 3))
        b = a + int(rng.integers(1, 300000))
        region = {"chr": c, "start": a, "end": b}
        chroms = [c]
    return {
        "chroms": chroms, "maps": {c: maps[c] for c in chroms} if region else maps,
        "pops": [f"P{i}" for i in range(K)], "nsamples": int(rng.integers(1, 4)),
        "model": lines, "popsize": int(rng.choice([2, 3, 5, 10, 12])),
        "region": region, "seed": int(rng.integers(1, 2**31 - 1)),
    }


def write_config(cfg, d):
    for c, rows in cfg["maps"].items():
        with open(os.path.join(d, f"g.chr{c}.map"), "w") as f:
            for r in rows:
                f.write(f"{r[0]}\t.\t{r[1]:.6f}\t{r[2]}\n")
    with open(os.path.join(d, "model.dat"), "w") as f:
        f.write(f"{cfg['nsamples']}\tAdmixed\t" + "\t".join(cfg["pops"]) + "\n")
        for ln in cfg["model"]:
            f.write("\t".join(str(x) for x in ln) + "\n")
    return os.path.join(d, "model.dat")


class Recorder:
    """Wraps np.random.{choice,randint,rand} and sim_genotype._simulate."""

    def __init__(self):
        import haptools.sim_genotype as sg

        self.sg = sg
        self.log = []
        self.gens = []
        self.saved = (np.random.randint, np.random.rand, np.random.choice, sg._simulate)
        ri, rd, ch, sim = self.saved

        def randint(*a, **k):
            r = ri(*a, **k)
            # a copy: _simulate overwrites cells of the parental array in its re-draw loop
            self.log.append(("randint", a, k, r.copy() if isinstance(r, np.ndarray) else r))
            return r

        def rand(*a):
            r = rd(*a)
            self.log.append(("rand", a, None, r))
            return r

        def choice(*a, **k):
            r = ch(*a, **k)
            self.log.append(("choice", a, k, r))
            return r

        def simwrap(samples, pops, pop_fracs, pop_gen, chroms, coords, end_coords, recomb_probs, prev=None):
            start = len(self.log)
            out = sim(samples, pops, pop_fracs, pop_gen, chroms, coords, end_coords, recomb_probs, prev)
            self.gens.append(dict(samples=samples, chroms=list(chroms), coords=coords, end_coords=end_coords,
                                  probs=recomb_probs, prev=prev, out=out, log=self.log[start:], gen=pop_gen))
            return out

        np.random.randint, np.random.rand, np.random.choice = randint, rand, choice
        sg._simulate = simwrap

    def close(self):
        np.random.randint, np.random.rand, np.random.choice, self.sg._simulate = self.saved


def children_of(gen, intern):
    """Decode the draw log of one _simulate call into per-child records."""
    lg = gen["log"]
    n = gen["samples"]
    assert lg[0][0] == "choice" and lg[1][0] == "randint", "draw protocol changed"
    parent_pop = lg[0][3]
    haps = lg[1][3].copy()
    i = 2
    for s, pp in enumerate(parent_pop):
        if not pp:
            while haps[2 * s] == haps[2 * s + 1]:
                assert lg[i][0] == "randint" and lg[i][1] == (n,), "draw protocol changed"
                haps[2 * s + 1] = lg[i][3]
                i += 1
    chnum = [int(c) if c != "X" else 23 for c in gen["chroms"]]
    rpos = [j for j in range(i, len(lg)) if lg[j][0] == "rand"]
    assert len(rpos) == n, "draw protocol changed"
    ends = [[int(e.get_bp_pos()), intern(float(e.get_map_pos()))] for e in gen["end_coords"]]
    seg = lambda s: [int(s.get_pop()), int(s.get_chrom()), int(s.get_end_coord()), intern(float(s.get_end_pos()))]
    out = []
    for s in range(n):
        j = rpos[s]
        assert lg[j - 1][0] == "randint" and lg[j - 1][1] == (2,), "draw protocol changed"
        h0 = int(lg[j - 1][3])
        pv = lg[j][3]
        stop = (rpos[s + 1] - 1) if s + 1 < n else len(lg)
        hd = [int(x[3]) for x in lg[j + 1:stop]]
        assert all(x[0] == "randint" and x[1] == (2,) for x in lg[j + 1:stop]), "draw protocol changed"
        ev = gen["coords"][pv < gen["probs"]]
        ev = sorted(ev, key=lambda x: (x.get_chrom(), x.get_map_pos()))
        evs = [[int(e.get_chrom()), int(e.get_prev_coord().get_bp_pos()), intern(float(e.get_prev_coord().get_map_pos()))] for e in ev]
        pp = int(parent_pop[s])
        prev = gen["prev"] or []
        pa = [seg(x) for x in prev[int(haps[2 * s])]] if (not pp and prev) else []
        pb = [seg(x) for x in prev[int(haps[2 * s + 1])]] if (not pp and prev) else []
        out.append({"gen": int(gen["gen"]), "child": s, "chroms": chnum, "ends": ends, "pop": pp, "pa": pa, "pb": pb,
                    "ia": int(haps[2 * s]), "ib": int(haps[2 * s + 1]),
                    "h0": h0, "hd": hd, "evs": evs, "obs": {"ok": [seg(x) for x in gen["out"][s]]}})
    return out


def simulate_recorded(cfg, d):
    """Run simulate_gt on cfg (files in directory d) with recorders on."""
    from haptools.logging import getLogger
    import haptools.sim_genotype as sg

    log = getLogger("hv", "CRITICAL")
    model = write_config(cfg, d)
    rec = Recorder()
    intern = L.Interner()
    try:
        try:
            ret = sg.simulate_gt(model, d, cfg["chroms"], cfg["region"], cfg["popsize"], log, cfg["seed"])
            err = None
        except Exception as e:  # noqa
            ret, err = None, {"err": err_kind(e), "msg": str(e)[:200], "cls": type(e).__name__}
    finally:
        rec.close()
    return rec, ret, err, intern


class Child(Relation):
    name = "child"
    coq_module = "C01_Check"
    coq_check = "check_child"
    coq_case_type = "ccase"
    coq_model = "model_child"
    coq_imports = ["Tracts", "C01_Model"]
    budget = {"quick": 40, "thorough": 1200}
    max_cases_per_shard = 300
    anchors = [("haptools/sim_genotype.py", "_simulate"), ("haptools/sim_genotype.py", "simulate_gt"),
               ("haptools/sim_genotype.py", "get_segment")]

    def generate(self, rng, n, tier):
        # half of the configurations carry width-boundary features (a marker at 2^31-2 before a last marker
        # at/after 2^31-1, single-marker chromosomes, long population labels, exponential cM reprs)
        return [make_config(rng, wide=bool(rng.random() < 0.5)) for _ in range(n)]

    def run_impl(self, cfg):
        d = tempfile.mkdtemp(prefix="hv_c01_")
        try:
            rec, ret, err, intern = simulate_recorded(cfg, d)
            if err is not None:
                return {"failed": err}
            try:
                kids = []
                for g in rec.gens:
                    kids += children_of(g, intern)
            except AssertionError as e:
                return {"unobserved": str(e)}
            return {"children": kids}
        finally:
            shutil.rmtree(d, ignore_errors=True)

    def _term(self, k):
        ev = lambda e: f"(mkev {L.z(e[0])} {L.z(e[1])} {L.z(e[2])})"
        pr = lambda p: f"({L.z(p[0])}, {L.z(p[1])})"
        return (f"(mkc {L.zl(k['chroms'])} {L.lst(k['ends'], pr)} {L.z(k['pop'])} {segs_term(k['pa'])} "
                f"{segs_term(k['pb'])} {L.b(k['h0'])} {L.bl(k['hd'])} {L.lst(k['evs'], ev)} {rsegs(k['obs'])})")

    def encode(self, cfg, obs):
        dummy = {"chroms": [1], "ends": [[MAXI, 0]], "pop": 1, "pa": [], "pb": [], "h0": 0, "hd": [], "evs": []}
        if "children" in obs:
            return [self._term(k) for k in obs["children"]]
        if "failed" in obs:
            # a well-formed configuration must simulate to completion
            return [self._term(dict(dummy, obs={"err": obs["failed"]["err"]}))]
        return [self._term(dict(dummy, obs={"err": 97}))]

    def nontrivial(self, cfg, obs):
        return "children" in obs and any(k["pop"] == 0 and k["evs"] for k in obs["children"])

    def classes(self, cfg, obs):
        out = [f"chroms={len(cfg['chroms'])}", f"region={'y' if cfg['region'] else 'n'}"] + list(cfg.get("wide", []))
        if "children" in obs:
            ks = obs["children"]
            if any(s[2] == MAXI - 1 for k in ks for s in k["obs"].get("ok", [])):
                out.append("tract-ending-at-2^31-2")
            out.append(f"children~{min(len(ks) // 20 * 20, 200)}")
            if any(k["pop"] == 0 and any(e[0] != k["chroms"][0] for e in k["evs"]) for k in ks):
                out.append("event-on-later-chrom")
            if any(k["pop"] == 0 and not k["evs"] for k in ks):
                out.append("admixed-no-event")
        else:
            out.append("failed" if "failed" in obs else "unobserved")
        return out

    def shrink(self, cfg):
        if len(cfg["model"]) > 1:
            yield dict(cfg, model=cfg["model"][:-1])
        if cfg["popsize"] > 2:
            yield dict(cfg, popsize=max(2, cfg["popsize"] // 2))
        if len(cfg["chroms"]) > 1 and not cfg["region"]:
            for j in range(len(cfg["chroms"])):
                ch = cfg["chroms"][:j] + cfg["chroms"][j + 1:]
                yield dict(cfg, chroms=ch, maps={c: cfg["maps"][c] for c in ch})
        for c, rows in cfg["maps"].items():
            if len(rows) > 2:
                for j in range(1, len(rows)):
                    yield dict(cfg, maps=dict(cfg["maps"], **{c: rows[:j] + rows[j + 1:]}))
        for s in range(1, 4):
            yield dict(cfg, seed=s)

    def mutate(self, cfg, rng):
        for s in range(8):
            yield dict(cfg, seed=int(rng.integers(1, 2**31 - 1)))

    def signature(self, cfg, obs):
        if "failed" in obs:
            return f"child simulate_gt raised {obs['failed'].get('cls')}"
        return "child mosaic of recorded parents"


class TVKernel(Kernel):
    """The same generated calls, evaluated against the MiniPy syntax regenerated from the current source
    (translator + interpreter validation); holds is the kernel relation's property checker."""
    name = "tv_kernel"
    coq_lib = "HVG"
    coq_module = "TVM_C01"
    coq_check = "check_tv_kernel"
    coq_case_type = "C01_Check.kcase"
    coq_model = "model_tv_kernel"
    coq_imports = Kernel.coq_imports + ["C01_Check"]
    budget = {"quick": 500, "thorough": 6000}

    def signature(self, inp, obs):
        return "tv_" + super().signature(inp, obs)



class TVChild(Child):
    """Every child of every generation, evaluated against the MiniPy syntax of _simulate's per-child loop
    regenerated from the current source (slice _simulate_child) under the recorded draws."""
    name = "tv_child"
    coq_lib = "HVG"
    coq_module = "TVM_C01"
    coq_check = "check_tv_child"
    coq_case_type = "C01_Check.ccase"
    coq_model = "model_tv_child"
    coq_imports = Child.coq_imports + ["C01_Check"]
    budget = {"quick": 15, "thorough": 300}

    def signature(self, inp, obs):
        return "tv_" + super().signature(inp, obs)



RELATIONS = [Kernel(), Child(), TVKernel(), TVChild()]

LEVEL_TEXT = (
    "Coq theorems over all parental tract layouts, intervals and draw streams (no size bound) about a Gallina model of "
    "start_segment/get_segment/_simulate's per-child loop; the model is tied to /repo on every run by evaluating, inside "
    "Coq, model-vs-implementation agreement and the property's finite checker on thousands of generated kernel calls and "
    "on every child of every generation of recorded simulate_gt runs. In addition the MiniPy syntax of start_segment, "
    "get_segment and of the per-child loop of _simulate is regenerated from /repo's current source on every run "
    "(harness/pytrans.py) and proved, for all inputs, to denote exactly the hand-written model (coq/translated/TV_C01*.v)."
)
LEVEL_NOTE = (
    "Trusted: Coq kernel/vm_compute; for start_segment/get_segment/the per-child loop the translator (Python ast -> "
    "MiniPy syntax) and the MiniPy interpreter's reading of Python, both exercised by the tv_kernel/tv_child relations; "
    "the numpy statements of _simulate before the loop (parent draws, re-draw loop, mask selection and sort of recombination "
    "points) are the hand model C02_Draws.decode_gen, compared with the recorded raw draws on every generation (C02's relation "
    "draws); numpy's contract on the raw draws is a hypothesis (C01_generation_mosaic_from_contract); cM values are opaque tokens. Theorems are stated under the "
    "kernel precondition _simulate establishes (sorted parent reaching the interval end)."
)
TECHNIQUE = ("Coq proof by induction on tract lists; model regenerated from the source by a translator and proved equal to "
             "the hand-written model (translation validation) + vm_compute-evaluated correspondence against the implementation")
