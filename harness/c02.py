"""C02 - breakpoint output tiles every simulated chromosome and respects the model.

Relations
  bpfile : simulate_gt -> write_breakpoints end to end; the .bp file parsed by an
           independent parser, re-read by haptools' Breakpoints and karyogram
  gen    : every child of every generation tiles the chromosomes (shares the
           recorded-draw machinery and the model of C01)
  seq    : HISTORIES of 2-4 simulate_gt + write_breakpoints calls made one after the other in ONE
           interpreter on the SAME map directory, with different regions / chromosome subsets /
           models / population sizes / seeds (a region ending inside the chromosome, then a wider
           one, then the whole chromosome, then several chromosomes; overlapping chromosome
           subsets; the same run again).  Demanded, because the property is about EVERY run and
           says nothing about what the interpreter did before (C10: "whatever ran earlier in the
           same process"):
             holds - every run of the history satisfies the file-level property (as bpfile), and
                     writes exactly the file the same run (same files, same seed) writes alone in
                     a fresh interpreter;
             agree - the markers _prepare_coords hands to _simulate are C02_Coords.prepare_coords
                     of THIS run's map files / chromosomes / region (per chromosome the file's
                     markers, sliced by the region, the last one's bp replaced by the sentinel), and
                     the file is C02_Coords.model_run of this run's inputs and recorded draws
                     (prepare_coords -> sim_generations -> write_breakpoints).  The model of a run
                     has no access to the history (C02_run_independent_of_history).
  bptext : the TEXT of the .bp file.  agree - the file's token lines are C02_Reader.render of the rows (the text
           the theorems C02_reader_accepts / C02_karyogram_accepts are about), C05's model of Breakpoints.read
           and C18's model of GetHaplotypeBlocks run on the file's lines return what the real readers returned;
           holds - the clause "in a form that haptools' own breakpoint reader and karyogram accept", evaluated in
           Coq on what the two readers returned (C02_holds_text_sound).
  draws  : one case per _simulate call of recorded runs: the RAW numpy draws (choice, randint array as drawn, the
           re-draws of the while loops, per child the homolog draws and the boolean mask rand < recomb_probs).
           agree - C02_Draws.decode_gen (re-draw loop, row-major mask selection, stable sort) equals the harness's
           decoding used by child / gen / seq, and every clause of the numpy contract holds on the recorded draws
           (C02_gen_contractb_sound), so C02_run_tiles_from_contracts applies to the run; holds - the children tile.
"""
import os
import re
import shutil
import tempfile
from fractions import Fraction

import numpy as np

from . import coqlit as L
from . import c01
from .core import Relation, err_kind

PROP = "C02"
CLAIMED = True
COQ_MODULES = ["C02_Check", "C02_Tiling", "C02_Generations", "C02_Proofs", "C02_Cm", "C02_Coords", "C02_SeqCheck",
               "C02_Reader", "C02_ReaderCheck", "C02_ReaderRun", "C02_Draws", "C02_DrawsCheck", "C02_CmRun", "C20_Model"]
PROPERTY_MODULE = "C02_Property"
ALLOWED_AXIOMS = []

# The MiniPy model of these functions is regenerated from the current source on every run
# (harness/pytrans.py) and proved equal to the hand-written models in coq/translated/TV_C01.v.
TRANSLATION = {
    "spec": {
        "module": "Gen_SimGenotype",
        "classes": [("haptools/admix_storage.py", "HaplotypeSegment", 1),
                    ("haptools/admix_storage.py", "GeneticMarker", 2)],
        "functions": [
            ("haptools/sim_genotype.py", "_find_coord"),
            ("haptools/sim_genotype.py", "_find_random_sample"),
            ("haptools/sim_genotype.py", "start_segment"),
            ("haptools/sim_genotype.py", "get_segment"),
            # the per-child loop of _simulate: from `prev_chrom = chroms[0]` to just before `hap_samples.append(segments)`
            ("haptools/sim_genotype.py", "_simulate", {
                "name": "_simulate_child", "loop_target": "sample", "from_assign": "prev_chrom",
                "until_append_to": "hap_samples", "result": "segments",
                "params": ["chroms", "end_coords", "p_pop", "haps", "homolog", "true_coords", "prev_gen_samples",
                           "segments"]}),
            # the tail of _prepare_coords, from `if region:` to `end_coords = [...]`: the region loop over coords[0], the
            # sentinel store chrom_coord[-1].bp_map_pos = np.iinfo(np.int32).max (a store through the loop variable into
            # the object held by `coords`) and the list of end markers; `coords` and `region` are the slice's free
            # variables, the result is end_coords and the final value of `coords`.  String keys by code points here.
            ("haptools/sim_genotype.py", "_prepare_coords", {
                "name": "_prepare_coords_tail", "top": True, "start": {"if_name": "region"},
                "stop": {"through_assign": "end_coords"}, "params": ["coords", "region"], "result": "end_coords",
                "text": True}),
            # the writing loop of write_breakpoints: the body of `with open(breakpt_file, 'w') as output:` (everything after
            # the numpy sub-sampling); output.write(e) appends the string e to $out.  String literals by code points and
            # f-strings interpreted in this slice only; str() of the cM float is the Section variable ext_str (Section
            # GenStr starts here: the text of the functions above is unchanged, TV_C01*.v compile against it as before)
            ("haptools/sim_genotype.py", "write_breakpoints", {
                "name": "write_breakpoints_lines", "top": True, "start": {"with_open": True}, "stop": {"before_return": True},
                "write": {"method": "write", "stream": "$out"}, "params": ["pop_dict", "breakpoints"],
                "text": True, "ext_str": True}),
        ],
    },
    # definitions only: evaluation of the translated code (tv_kernel, tv_bpwrite, tv_coords)
    "models": ["TVM_C01", "TVM_C02W", "TVM_C02P"],
    # translation-validation theorems (TV_DecText: MiniPy's str(int) = C02_Reader.dec)
    "proofs": ["TV_C01", "TV_C01_Child", "TV_DecText", "TV_C02W", "TV_C02P"],
}
# the integer the expression np.iinfo(np.int32).max is read as (checked against the running numpy by tv_coords)
TRANSLATION["spec"]["ext_dotted_consts"] = {"np.iinfo(np.int32).max": 2147483647}
RULE = (
    "configurations: 1-4 chromosomes of 1..22,X, 2-9 markers with zero/tiny/huge cM gaps, 2-3 source populations "
    "incl. zero fractions and pulses, 1-4 model lines, optional --region, popsize 2..30, 1-3 samples; about 40% carry "
    "width-boundary features (population labels of exactly 6, of 7+ characters, pairs sharing their first 6; a chromosome "
    "with a single marker; a marker at 2^31-2 before a last marker at 2^31-1 / beyond 2^31 / beyond 2^32; cM values printed "
    "in exponent form); every run adds the boundary configurations 2n written haplotypes out of N with index / sample "
    "number straddling 127|128 and 255|256 (N = 127..520, n = 63..257) and one chromosome of 65535..70000 markers; "
    "non-trivial = some written haplotype has >= 2 tracts on one chromosome. Distinct = distinct canonical JSON of the configuration. "
    "seq: one directory of 1-5 map files (4-10 markers) and 2-4 runs on it: region ending inside the chromosome -> wider region -> "
    "whole chromosome -> all chromosomes; moving regions; overlapping chromosome subsets; the same run repeated; each run with its "
    "own model / population size / seed; non-trivial = two runs share a chromosome with different chromosome lists or regions and "
    "some haplotype has >= 2 tracts on one chromosome. bptext: small files (1-2 samples, <= 3 chromosomes), all with the "
    "width-boundary features; non-trivial = some haplotype has more tracts than chromosomes. draws: populations of 2-8 "
    "individuals (the re-draw loop runs in most generations); non-trivial = some re-draw loop ran."
)
TRUSTED = [
    "numpy RNG draws are recorded, not modelled; what numpy guarantees about them is the explicit contract C02_Draws.gen_contract, "
    "evaluated on every recorded _simulate call (relation draws) and universally quantified in the theorems",
    "cM values are compared through order-preserving integer ranks computed by the harness",
    "Python float repr / float() round-trip for the cM column (hypothesis flt_codec of C02_run_file_accepted; the file's cM texts are "
    "recorded per token and parsed back by table in relation bptext)",
    "C05_Model.bp_read / C18_Model.parse_blocks are the models of Breakpoints.read / GetHaplotypeBlocks: validated by C05's and C18's "
    "relations on generated files and, here, on every file simgenotype wrote (relation bptext, agree)",
]
ASSUMPTIONS = [
    "chromosome list strictly increasing (documented: sorted), map positions strictly increasing, every position but a chromosome's last "
    "below 2^31-1 (the sentinel; human chromosomes are < 2^28), cM never decreasing (C02_Draws.map_ok; the stable sort by "
    "(chromosome, cM) is then the identity: C02_sort_sorted_id), first model line has admixed fraction 0",
    "seq: one map file per chromosome, its first column = the chromosome of its name; a region is given with chroms = [its chromosome] (as the command does); every run has a seed",
    "reader clause: population labels do not start with '#' and - while STRICT_LABEL_WIDTH is off - have at most 6 characters "
    "(a model naming a longer one is judged on everything but Breakpoints.read: open finding, fixes/C02_label_width.patch, "
    "corpus/C02/bptext_long_labels.json)",
]
MAXI = 2**31 - 1


def parse_bp(path, pops):
    """Independent parser of the .bp format: [(sample_no, strand, [[pop_idx, chrom, end, cm_float]])]."""
    rows = []
    with open(path) as f:
        for line in f:
            line = line.rstrip("\n")
            parts = line.split("\t")
            if len(parts) == 1:
                m = re.fullmatch(r"Sample_(\d+)_([12])", parts[0])
                if not m:
                    raise ValueError(f"bad header line {line!r}")
                rows.append([int(m.group(1)), int(m.group(2)), []])
            elif len(parts) == 4:
                if not rows:
                    raise ValueError("block before header")
                chrom = 23 if parts[1] == "X" else int(parts[1])
                rows[-1][2].append([pops.index(parts[0]), chrom, int(parts[2]), float(parts[3])])
            else:
                raise ValueError(f"bad line {line!r}")
    return rows


# Switch for the integrator.  simgenotype copies the population labels of the model file's header into the .bp
# file; Breakpoints.read stores a label in a 'U6' field and (since fix 0bcb215, fixes/C05_field_width.patch) refuses
# a block line whose label has more than 6 characters with a ValueError (before that fix it silently cut the label
# to 6 characters: "EuropeB" and "EuropeC" became one population).  So for a model whose header names a population
# with more than 6 characters simgenotype writes a file that haptools' own breakpoint reader does not accept - the
# last clause of the property fails.  Witness: corpus/C02/bptext_long_labels.json; Coq: C02_long_label_mangled; the
# theorems C02_reader_accepts / C02_run_file_accepted carry the hypothesis "labels have at most 6 characters".
# The defect is recorded, not repaired (known_findings.json, id C02-label-width: the proposed repair
# fixes/C02_label_width.patch makes validate_params refuse such models, which removes behaviour; widening the reader's
# fixed-width field is not a small change).  True (default) = the demand is made: whatever simgenotype writes must be
#   read back by Breakpoints.read in full; on the current tree the corpus witness fails it on every run and is printed as
#   KNOWN-FINDING: property=C02 ... (signature "... a population label of more than 6 characters is refused ...").
# False = for a model that names a population with more than 6 characters what Breakpoints.read does with the file is
#   compared with the reader's model only (agree), not judged (holds).
# Also settable with HV_C02_STRICT_LABEL_WIDTH=1.
STRICT_LABEL_WIDTH = os.environ.get("HV_C02_STRICT_LABEL_WIDTH", "1") == "1"


def judge_read(cfg):
    return STRICT_LABEL_WIDTH or not any(len(p) > 6 for p in cfg["pops"])


def run_once(d, cfg, model_name, prefix, children=False, text=False, raw=False):
    """validate_params (as the command does) + simulate_gt + write_breakpoints on the map directory d with the model
    file d/model_name; the .bp file parsed by the independent parser and re-read by haptools' Breakpoints and
    karyogram.  With children=True also the markers handed to _simulate and the decoded draws of every child of
    every generation; with text=True the file's token lines and what the two readers returned; with raw=True the
    raw numpy draws of every _simulate call."""
    from haptools.logging import getLogger
    import haptools.sim_genotype as sg
    from haptools.data import Breakpoints
    from haptools import karyogram
    import logging

    log = getLogger("hv", "CRITICAL")
    model = os.path.join(d, model_name)
    out = os.path.join(d, prefix)
    pops = ["Admixed"] + cfg["pops"]
    try:
        sg.validate_params(model, d, cfg["chroms"], cfg["popsize"], None, None, False, cfg["region"], True)
    except Exception as e:  # noqa
        if any(len(p) > 6 for p in cfg["pops"]):
            return {"rejected": f"{type(e).__name__}: {e}"[:200]}
        return {"failed": {"err": err_kind(e), "cls": type(e).__name__, "msg": "validate_params: " + str(e)[:180]}}
    rec = c01.Recorder()
    extra = {}
    try:
        try:
            ns, pop_dict, gen = sg.simulate_gt(model, d, cfg["chroms"], cfg["region"], cfg["popsize"], log, cfg["seed"])
            mark = len(rec.log)
            sg.write_breakpoints(ns, pop_dict, gen, out, log)
        except Exception as e:  # noqa
            extra = {"failed": {"err": err_kind(e), "cls": type(e).__name__, "msg": str(e)[:200]}}
    finally:
        rec.close()
    if children or raw:
        # the markers as _simulate received them in its first call, and every child's draws
        try:
            if rec.gens:
                g0 = rec.gens[0]
                extra["coords"] = [[[int(m.get_bp_pos()), float(m.get_map_pos())] for m in row if hasattr(m, "get_bp_pos")]
                                   for row in g0["coords"]]
            if "failed" not in extra:
                ident = lambda x: x
                kids = [c01.children_of(g, ident) for g in rec.gens]
                extra["gens"] = [[[k["pop"], k["ia"], k["ib"], k["h0"], k["hd"], k["evs"]] for k in ks] for ks in kids]
                if raw:
                    extra["raw"] = [raw_of(g) for g in rec.gens]
                    extra["outs"] = [[k["obs"]["ok"] for k in ks] for ks in kids]
                    extra["gen_chroms"] = [[int(c) if c != "X" else 23 for c in g["chroms"]] for g in rec.gens]
        except AssertionError as e:
            return {"unobserved": str(e)}
    if "failed" in extra:
        return extra
    draws = [x for x in rec.log[mark:] if x[0] == "choice"]
    if len(draws) != 1 or rec.log[mark:] != draws:
        return {"unobserved": "write_breakpoints draw protocol changed"}
    idx = [int(i) for i in draws[0][3]]
    rows = parse_bp(out + ".bp", pops)
    final = [[[int(s.get_pop()), int(s.get_chrom()), int(s.get_end_coord()), float(s.get_end_pos())] for s in h] for h in gen]
    # haptools' own readers
    reader_ok = True
    why = ""
    tobs = {}
    try:
        bps = Breakpoints(out + ".bp", log=log)
        recs = []

        class Cap(logging.Handler):
            def emit(self, r):
                recs.append(r.levelname)

        cap = Cap()
        log.addHandler(cap)
        try:
            bps.read()
        finally:
            log.removeHandler(cap)
        if text:
            tobs["read"] = {"ok": [[str(k), [[[str(b["pop"]), str(b["chrom"]), int(b["bp"]), float(b["cm"])] for b in arr]
                                             for arr in v]] for k, v in bps.data.items()]}
        if any(r in ("WARNING", "ERROR") for r in recs):
            reader_ok, why = False, "reader logged " + ",".join(recs)
        if list(bps.data.keys()) != [f"Sample_{i + 1}" for i in range(cfg["nsamples"])]:
            reader_ok, why = False, "sample list differs"
        else:
            for i in range(cfg["nsamples"]):
                for st in range(2):
                    arr = bps.data[f"Sample_{i + 1}"][st]
                    exp = rows[2 * i + st][2]
                    if len(arr) != len(exp) or any(
                            str(b["pop"]) != pops[e[0]]
                            or (23 if str(b["chrom"]) == "X" else int(b["chrom"])) != e[1]
                            or int(b["bp"]) != e[2] or float(b["cm"]) != e[3] for b, e in zip(arr, exp)):
                        reader_ok, why = False, "blocks differ"
                        if any(len(pops[e[0]]) > 6 for e in exp):
                            why = "labels longer than 6 characters are not read back"
    except Exception as e:  # noqa
        reader_ok, why = False, f"{type(e).__name__}: {e}"
        if text:
            tobs["read"] = {"err": err_kind(e)}
    read_unjudged = False
    if not reader_ok and not judge_read(cfg):
        # a model with a population label of more than 6 characters on the unrepaired tree (see STRICT_LABEL_WIDTH)
        reader_ok, why, read_unjudged = True, "", True
    # karyogram finds every sample with, per strand, one block per line: same label, chromosome number, cM end
    kary = []
    for i in range(cfg["nsamples"]):
        try:
            sb = karyogram.GetHaplotypeBlocks(out + ".bp", f"Sample_{i + 1}")
            kary.append({"ok": [[[str(b["pop"]), int(b["chrom"]), float(b["end"])] for b in strand] for strand in sb]})
            exp = [[[pops[e[0]], e[1], e[3]] for e in rows[2 * i + st][2]] for st in range(2)]
            if kary[-1]["ok"] != exp:
                reader_ok, why = False, "karyogram blocks differ"
        except BaseException as e:  # noqa  (sys.exit for an absent sample)
            if isinstance(e, KeyboardInterrupt):
                raise
            kary.append({"err": err_kind(e)})
            reader_ok, why = False, f"karyogram {type(e).__name__}: {e}"
    if text:
        raw_lines = [ln.rstrip("\n") for ln in open(out + ".bp")]
        tobs["lines"] = [ln.split("\t") for ln in raw_lines]
        tobs["ws_same"] = all(ln.split() == ln.split("\t") for ln in raw_lines)
        tobs["kary"] = kary
    return dict(extra, rows=rows, final=final, idx=idx, reader_ok=reader_ok, why=why, read_unjudged=read_unjudged, **tobs)


def raw_of(gen):
    """The raw numpy draws of one _simulate call, from the recorder's log (see c01.children_of for the protocol)."""
    lg = gen["log"]
    n = int(gen["samples"])
    assert lg[0][0] == "choice" and lg[1][0] == "randint", "draw protocol changed"
    pp = [int(x) for x in lg[0][3]]
    haps = [int(x) for x in lg[1][3]]
    rpos = [j for j in range(2, len(lg)) if lg[j][0] == "rand"]
    assert len(rpos) == n, "draw protocol changed"
    # the first child's homolog draw is the entry just before the first rand: everything between the randint array
    # and it is a draw of a re-draw loop, np.random.randint(samples)
    red = lg[2:rpos[0] - 1]
    assert all(x[0] == "randint" and x[1] == (n,) and not x[2] for x in red), "draw protocol changed"
    redraw = [int(x[3]) for x in red]
    assert len(rpos) == n, "draw protocol changed"
    kids = []
    for s in range(n):
        j = rpos[s]
        assert lg[j - 1][0] == "randint" and lg[j - 1][1] == (2,), "draw protocol changed"
        stop = (rpos[s + 1] - 1) if s + 1 < n else len(lg)
        hd = [int(x[3]) for x in lg[j + 1:stop]]
        mask = (lg[j][3] < gen["probs"])
        kids.append([int(lg[j - 1][3]), hd, [[bool(x) for x in row] for row in mask]])
    nprev = len(gen["prev"]) if gen["prev"] else 0
    return {"n": n, "nprev": nprev, "pp": pp, "haps": haps, "redraw": redraw, "kids": kids}


# (population size N, written samples n): the written haplotype index runs to 2n-1, the sample number to n
POPSIZE_SMALL = [(127, 63), (128, 64), (130, 65), (255, 127), (256, 128)]      # index / number up to 127 | 128 | 255
POPSIZE_BIG = [(258, 129), (300, 129), (514, 257), (520, 257)]                 # sample number 129 (> int8), 257 (> uint8); index > 255


def boundary_config(rng, kind, which=None):
    """Width-boundary configurations.  popsize-*: 2n written haplotypes drawn without replacement out of N, with the
    haplotype index and the sample number straddling 127|128 and 255|256 (N = 2n: every haplotype is written, in a
    drawn order).  markers: one chromosome with 65535..70000 markers (flat cM but a few large gaps, so that a
    handful of events occur)."""
    cfg = c01.make_config(rng)
    if kind.startswith("popsize"):
        table = POPSIZE_SMALL if kind == "popsize-small" else POPSIZE_BIG
        if which is None and kind == "popsize-big":
            which = 2 + int(rng.integers(0, 2))       # quick: always past both 128 and 256 samples
        N, ns = table[int(rng.integers(0, len(table))) if which is None else which]
        c = cfg["chroms"][0]
        keep = {c: cfg["maps"][c][:3]}
        lines = cfg["model"][:2]
        if len(lines) == 2:
            lines = [lines[0], [lines[0][0] + 1] + lines[1][1:]]       # two consecutive generations: 2N children in all
        return dict(cfg, chroms=[c], maps=keep, region=None, model=lines, popsize=N, nsamples=ns, boundary=f"haplotypes={N},samples={ns}")
    nm = int(rng.choice([65535, 65536, 65537, 70000]))
    c = cfg["chroms"][0]
    jumps = set(int(x) for x in rng.choice(np.arange(1, nm), size=6, replace=False))
    cm, bp, rows = 0.0, 10, []
    for i in range(nm):
        if i in jumps:
            cm += 60.0
        rows.append([c, round(cm, 6), bp])
        bp += int(1 + (i * 7) % 29)
    ns = 1
    return dict(cfg, chroms=[c], maps={c: rows}, region=None, model=cfg["model"][:2], popsize=4, nsamples=ns, boundary=f"markers={nm}")


class BpFile(Relation):
    name = "bpfile"
    coq_module = "C02_Check"
    coq_check = "check_bp"
    coq_case_type = "bcase"
    coq_model = "model_bp"
    coq_imports = ["Tracts", "C01_Model", "C02_Model"]
    budget = {"quick": 60, "thorough": 1500}
    max_cases_per_shard = 40

    def preamble(self):
        return "From Coq Require Import QArith.\nOpen Scope Z_scope."

    anchors = [
        ("haptools/sim_genotype.py", "_prepare_coords"),
        ("haptools/sim_genotype.py", "_simulate"),
        ("haptools/sim_genotype.py", "write_breakpoints"),
        ("haptools/sim_genotype.py", "simulate_gt"),
        ("haptools/data/breakpoints.py", "Breakpoints.__iter__"),
    ]

    def generate(self, rng, n, tier):
        out = []
        for _ in range(n):
            cfg = c01.make_config(rng, wide=bool(rng.random() < 0.4))
            ns = cfg["nsamples"]
            cfg["popsize"] = int(max(cfg["popsize"], 2 * ns) if rng.random() < 0.5 else 10 * ns)
            out.append(cfg)
        # width boundaries, a few per run: the draw without replacement and the sample numbering around 127|128 and
        # 255|256 haplotypes, a chromosome of more than 65535 markers
        if tier == "quick":
            out += [boundary_config(rng, "popsize-small"), boundary_config(rng, "popsize-big"), boundary_config(rng, "markers")]
        else:
            out += [boundary_config(rng, "popsize-small", j) for j in range(len(POPSIZE_SMALL))]
            out += [boundary_config(rng, "popsize-big", j) for j in range(len(POPSIZE_BIG))]
            out += [boundary_config(rng, "markers") for _ in range(4)]
        return out

    def run_impl(self, cfg):
        d = tempfile.mkdtemp(prefix="hv_c02_")
        try:
            c01.write_config(cfg, d)
            return run_once(d, cfg, "model.dat", "out")
        finally:
            shutil.rmtree(d, ignore_errors=True)

    def encode(self, cfg, obs):
        chnum = [23 if c == "X" else int(c) for c in cfg["chroms"]]
        fr = L.lst(cfg["model"], lambda ln: L.lst(ln[1:], lambda x: L.q(Fraction(str(x)))))
        if "rejected" in obs:
            return []          # a model with a label of more than 6 characters, refused up front: not judged
        if "rows" not in obs:
            e = obs["failed"]["err"] if "failed" in obs else (97 if "unobserved" in obs else obs.get("kind", 99))
            return f"(mkb {L.zl(chnum)} {L.z(cfg['nsamples'])} {fr} [] [] (Err {L.z(e)}) true)"
        vals = sorted({s[3] for r in obs["rows"] for s in r[2]} | {s[3] for h in obs["final"] for s in h})
        rank = {v: i for i, v in enumerate(vals)}
        seg = lambda s: c01.seg_term([s[0], s[1], s[2], rank[s[3]]])
        row = lambda r: f"({L.z(r[0])}, {L.z(r[1])}, {L.lst(r[2], seg)})"
        return (f"(mkb {L.zl(chnum)} {L.z(cfg['nsamples'])} {fr} {L.lst(obs['final'], lambda h: L.lst(h, seg))} "
                f"{L.zl(obs['idx'])} (Ok {L.lst(obs['rows'], row)}) {L.b(obs['reader_ok'])})")

    def nontrivial(self, cfg, obs):
        if "rows" not in obs:
            return False
        for r in obs["rows"]:
            chs = [s[1] for s in r[2]]
            if len(chs) != len(set(chs)):
                return True
        return False

    def classes(self, cfg, obs):
        out = [f"chroms={len(cfg['chroms'])}", f"region={'y' if cfg['region'] else 'n'}", f"lines={len(cfg['model'])}"]
        out += list(cfg.get("wide", []))
        if cfg.get("boundary"):
            out.append("boundary:" + cfg["boundary"])
        if "rejected" in obs:
            out.append("long-label-model-rejected-up-front")
        if "rows" in obs:
            if any(s[2] == MAXI - 1 for r in obs["rows"] for s in r[2]):
                out.append("tract-ending-at-2^31-2")
            if any(x == 0 for ln in cfg["model"] for x in ln[2:]):
                out.append("zero-fraction")
            if any(len(r[2]) == len(cfg["chroms"]) for r in obs["rows"]):
                out.append("haplotype-without-breakpoints")
            if not obs["reader_ok"]:
                out.append("reader-rejects")
            if obs.get("read_unjudged"):
                out.append("long-label-file-refused-by-Breakpoints.read(not-judged:STRICT_LABEL_WIDTH-off)")
        else:
            out.append("failed" if "failed" in obs else "unobserved")
        return out

    shrink = c01.Child.shrink
    mutate = c01.Child.mutate

    def signature(self, cfg, obs):
        if "failed" in obs:
            return f"bpfile simulate_gt/write_breakpoints raised {obs['failed'].get('cls')}"
        if "rows" in obs and not obs["reader_ok"]:
            why = obs["why"]
            if "too long" in why or "labels longer" in why:
                why = "a population label of more than 6 characters is refused / not read back by Breakpoints.read"
            return f"bpfile haptools reader/karyogram does not accept the file ({why[:100]})"
        return "bpfile tiling/labels/framing"


class Gen(c01.Child):
    """Every child of every generation tiles the chromosomes (same cases as C01's child relation)."""

    name = "gen"
    coq_module = "C02_Check"
    coq_check = "check_gen"
    coq_case_type = "gcase"
    coq_model = "model_gen"
    coq_imports = ["Tracts", "C01_Model", "C01_Check"]
    budget = {"quick": 40, "thorough": 1200}

    def _term(self, k):
        # order-preserving cm ranks are not needed here: the interner is only compared for equality
        return super()._term(k)

    def signature(self, cfg, obs):
        if "failed" in obs:
            return f"gen simulate_gt raised {obs['failed'].get('cls')}"
        return "gen child does not tile the chromosomes"



def cps(s):
    """A string as the list of its code points."""
    return L.zl([ord(ch) for ch in s])


class BpText(Relation):
    """The text of the .bp file: it is the rendering the reader theorems are about, the reader models run on it
    return what the real readers returned, and the real readers accept it (evaluated in Coq)."""

    name = "bptext"
    coq_module = "C02_ReaderCheck"
    coq_check = "check_text"
    coq_case_type = "tcase"
    coq_model = "model_text"
    coq_imports = ["Tracts", "BpText", "C01_Model", "C02_Model", "C05_Model", "C18_Model", "C02_Reader"]
    budget = {"quick": 14, "thorough": 400}
    max_cases_per_shard = 5
    anchors = [
        ("haptools/sim_genotype.py", "write_breakpoints"),
        ("haptools/sim_genotype.py", "simulate_gt"),
        ("haptools/sim_genotype.py", "validate_params"),
        ("haptools/data/breakpoints.py", "Breakpoints.__iter__"),
        ("haptools/karyogram.py", "GetHaplotypeBlocks"),
    ]

    def generate(self, rng, n, tier):
        out = []
        for _ in range(n):
            cfg = c01.make_config(rng, wide=True)
            # small files: the text goes to Coq character by character
            ns = min(int(cfg["nsamples"]), 2)
            cfg = dict(cfg, nsamples=ns, popsize=int(max(2 * ns, min(int(cfg["popsize"]), 6))))
            if len(cfg["chroms"]) > 3:
                ch = cfg["chroms"][:3]
                cfg = dict(cfg, chroms=ch, maps={c: cfg["maps"][c] for c in ch})
            out.append(cfg)
        return out

    def run_impl(self, cfg):
        d = tempfile.mkdtemp(prefix="hv_c02t_")
        try:
            c01.write_config(cfg, d)
            return run_once(d, cfg, "model.dat", "out", text=True)
        finally:
            shutil.rmtree(d, ignore_errors=True)

    def encode(self, cfg, obs):
        if "rejected" in obs:
            return []
        pops = ["Admixed"] + cfg["pops"]
        from . import c05
        strict = L.b(c05.STRICT_FIELD_WIDTH)      # which reader the tree under test has (C05's switch)
        if "rows" not in obs or "lines" not in obs:
            e = obs["failed"]["err"] if "failed" in obs else (97 if "unobserved" in obs else obs.get("kind", 99))
            return f"(mkt [] [] (Err {L.z(e)}) [] true {strict} true (Err 97) [])"
        lines = obs["lines"]
        vals = {s[3] for r in obs["rows"] for s in r[2]}
        if "ok" in obs["read"]:
            vals |= {b[3] for smp in obs["read"]["ok"] for strand in smp[1] for b in strand}
        for k in obs["kary"]:
            if "ok" in k:
                vals |= {b[2] for strand in k["ok"] for b in strand}
        rank = {v: i for i, v in enumerate(sorted(vals))}
        text = {}
        for ln in lines:
            if len(ln) == 4:
                try:
                    text.setdefault(float(ln[3]), ln[3])
                except ValueError:
                    pass
        cms = L.lst(sorted(text), lambda v: f"({L.z(rank[v])}, {cps(text[v])})" if v in rank else f"(-1, {cps(text[v])})")
        seg = lambda sg: c01.seg_term([sg[0], sg[1], sg[2], rank[sg[3]]])
        row = lambda r: f"({L.z(r[0])}, {L.z(r[1])}, {L.lst(r[2], seg)})"
        blk = lambda b: f"(C05_Model.mkcb {cps(b[0])} {cps(b[1])} {L.z(b[2])} {L.z(rank[b[3]])})"
        if "ok" in obs["read"]:
            read = "(Ok " + L.lst(obs["read"]["ok"], lambda smp: f"({cps(smp[0])}, ({L.lst(smp[1][0], blk)}, {L.lst(smp[1][1], blk)}))") + ")"
        else:
            read = f"(Err {L.z(obs['read']['err'])})"
        kb = lambda b: f"({cps(b[0])}, {L.z(b[1])}, {L.z(rank[b[2]])})"
        kary = L.lst(obs["kary"], lambda k: "(Ok " + L.lst(k["ok"], lambda st: L.lst(st, kb)) + ")" if "ok" in k else f"(Err {L.z(k['err'])})")
        return (f"(mkt {L.lst(pops, cps)} {cms} (Ok {L.lst(obs['rows'], row)}) {L.lst(lines, lambda ln: L.lst(ln, cps))} "
                f"{L.b(obs['ws_same'])} {strict} {L.b(judge_read(cfg))} {read} {kary})")

    def nontrivial(self, cfg, obs):
        return "rows" in obs and any(len(r[2]) > len(cfg["chroms"]) for r in obs["rows"])

    def classes(self, cfg, obs):
        out = [f"chroms={len(cfg['chroms'])}"] + list(cfg.get("wide", []))
        if "rejected" in obs:
            out.append("long-label-model-rejected-up-front")
        elif "rows" in obs:
            written = {cfg["pops"][s[0] - 1] for r in obs["rows"] for s in r[2] if s[0] >= 1}
            if any(len(x) > 6 for x in written):
                out.append("written-label-longer-than-6")
            if len({x[:6] for x in written}) < len(written):
                out.append("written-labels-collide-on-6-characters")
            if any("e" in ln[3] for ln in obs.get("lines", []) if len(ln) == 4):
                out.append("cm-text-exponential")
            if not obs["reader_ok"]:
                out.append("reader-rejects")
            if obs.get("read_unjudged"):
                out.append("long-label-file-refused-by-Breakpoints.read(not-judged:STRICT_LABEL_WIDTH-off)")
        else:
            out.append("failed" if "failed" in obs else "unobserved")
        return out

    shrink = c01.Child.shrink
    mutate = c01.Child.mutate

    def signature(self, cfg, obs):
        if "failed" in obs:
            return f"bptext simulate_gt/write_breakpoints raised {obs['failed'].get('cls')}"
        if "rows" in obs and not obs["reader_ok"]:
            why = obs["why"]
            if "too long" in why or "labels longer" in why:
                why = "a population label of more than 6 characters is refused / not read back by Breakpoints.read"
            return f"bptext haptools reader/karyogram does not accept the file ({why[:100]})"
        return "bptext text of the file / reader models"


class Draws(Relation):
    """One case per _simulate call: the raw numpy draws decoded by C02_Draws.decode_gen, the numpy contract."""

    name = "draws"
    coq_module = "C02_DrawsCheck"
    coq_check = "check_draws"
    coq_case_type = "dcase"
    coq_model = "model_draws"
    coq_imports = ["Tracts", "C01_Model", "C02_Model", "C02_Generations", "C02_Coords", "C02_Draws"]
    budget = {"quick": 16, "thorough": 500}
    max_cases_per_shard = 60
    anchors = [("haptools/sim_genotype.py", "_simulate"), ("haptools/sim_genotype.py", "simulate_gt"),
               ("haptools/sim_genotype.py", "_prepare_coords")]

    def generate(self, rng, n, tier):
        out = []
        for _ in range(n):
            cfg = c01.make_config(rng, wide=bool(rng.random() < 0.4))
            # small populations make the re-draw loop run (two equal parental draws) in most generations
            cfg["popsize"] = int(rng.choice([2, 2, 3, 3, 4, 5, 8]))
            cfg["nsamples"] = 1
            out.append(cfg)
        return out

    def run_impl(self, cfg):
        d = tempfile.mkdtemp(prefix="hv_c02d_")
        try:
            c01.write_config(cfg, d)
            return run_once(d, cfg, "model.dat", "out", raw=True)
        finally:
            shutil.rmtree(d, ignore_errors=True)

    def encode(self, cfg, obs):
        if "rejected" in obs:
            return []
        if "raw" not in obs:
            e = obs["failed"]["err"] if "failed" in obs else (97 if "unobserved" in obs else obs.get("kind", 99))
            return f"(mkd [1] [] 0 0 (mkgr [] [] [] []) [] (Err {L.z(e)}))"
        vals = {m[1] for row in obs["coords"] for m in row}
        vals |= {e[2] for g in obs["gens"] for k in g for e in k[5]}
        vals |= {s[3] for g in obs["outs"] for h in g for s in h}
        rank = {v: i for i, v in enumerate(sorted(vals))}
        mk = lambda m: f"({L.z(m[0])}, {L.z(rank[m[1]])})"
        coords = L.lst(obs["coords"], lambda r: L.lst(r, mk))
        ev = lambda e: f"(mkev {L.z(e[0])} {L.z(e[1])} {L.z(rank[e[2]])})"
        kid = lambda k: f"(mkcd {L.z(k[0])} {L.z(k[1])} {L.z(k[2])} {L.b(k[3])} {L.bl(k[4])} {L.lst(k[5], ev)})"
        seg = lambda s: c01.seg_term([s[0], s[1], s[2], rank[s[3]]])
        terms = []
        for raw, dec, outs, chs in zip(obs["raw"], obs["gens"], obs["outs"], obs["gen_chroms"]):
            rk = lambda k: f"({L.b(k[0])}, {L.bl(k[1])}, {L.lst(k[2], L.bl)})"
            g = f"(mkgr {L.zl(raw['pp'])} {L.zl(raw['haps'])} {L.zl(raw['redraw'])} {L.lst(raw['kids'], rk)})"
            terms.append(f"(mkd {L.zl(chs)} {coords} {L.z(raw['n'])} {L.z(raw['nprev'])} {g} {L.lst(dec, kid)} "
                         f"(Ok {L.lst(outs, lambda h: L.lst(h, seg))}))")
        return terms

    def nontrivial(self, cfg, obs):
        return "raw" in obs and any(r["redraw"] for r in obs["raw"])

    def classes(self, cfg, obs):
        out = [f"chroms={len(cfg['chroms'])}", f"popsize={cfg['popsize']}"] + list(cfg.get("wide", []))
        if "raw" in obs:
            out.append(f"generations={len(obs['raw'])}")
            if any(r["redraw"] for r in obs["raw"]):
                out.append("re-draw-loop-ran")
            if any(len(r["redraw"]) >= 2 and any(r["redraw"][i] == r["redraw"][i + 1] for i in range(len(r["redraw"]) - 1)) for r in obs["raw"]):
                out.append("re-draw-repeated")
            if any(sum(sum(row) for row in k[2]) >= 2 for r in obs["raw"] for k in r["kids"]):
                out.append("child-with->=2-events")
        elif "rejected" in obs:
            out.append("long-label-model-rejected-up-front")
        else:
            out.append("failed" if "failed" in obs else "unobserved")
        return out

    shrink = c01.Child.shrink
    mutate = c01.Child.mutate

    def signature(self, cfg, obs):
        if "failed" in obs:
            return f"draws simulate_gt raised {obs['failed'].get('cls')}"
        return "draws decoding of the raw numpy draws / numpy contract / tiling of a generation"


# ---------------------------------------------------------------------------
# histories of runs in one interpreter


def alone_main():
    """Entry point of the fresh interpreter that makes one run alone (see Seq.run_impl)."""
    import json
    import sys

    req = json.load(sys.stdin)
    obs = run_once(req["dir"], req["run"], req["model"], req["prefix"])
    sys.stdout.write("\n@@HV@@" + json.dumps(obs))


def run_alone(d, run, model_name, prefix):
    import json
    import subprocess
    import sys

    req = json.dumps({"dir": d, "run": run, "model": model_name, "prefix": prefix})
    try:
        p = subprocess.run([sys.executable, "-c", "from harness import c02; c02.alone_main()"], input=req,
                           capture_output=True, text=True, timeout=100,
                           cwd=os.path.dirname(os.path.dirname(os.path.abspath(__file__))))
        return json.loads(p.stdout.rsplit("@@HV@@", 1)[1])
    except Exception as e:  # noqa
        return {"unobserved": f"fresh interpreter: {type(e).__name__}: {e}"[:200]}


def write_model(run, path):
    with open(path, "w") as f:
        f.write(f"{run['nsamples']}\tAdmixed\t" + "\t".join(run["pops"]) + "\n")
        for ln in run["model"]:
            f.write("\t".join(str(x) for x in ln) + "\n")


ALLCH = [str(c) for c in range(1, 23)] + ["X"]


def chnum(c):
    return 23 if c == "X" else int(c)


def make_seq(rng):
    """A history: one map directory and 2-4 runs on it (regions inside the chromosome then wider then the whole
    chromosome, overlapping chromosome subsets, repeated runs), each with its own model, population size and seed."""
    ndir = int(rng.integers(1, 6))
    chroms = [ALLCH[i] for i in sorted(rng.choice(23, size=ndir, replace=False).tolist())]
    maps = {}
    for c in chroms:
        nm = int(rng.integers(4, 11))
        cm, bp, rows = 0.0, int(rng.integers(1, 1000)), []
        for _ in range(nm):
            rows.append([c, round(cm, 6), bp])
            cm += float(rng.choice([0, 0.5, 20, 80, 300], p=[0.1, 0.1, 0.25, 0.3, 0.25]))
            bp += int(rng.integers(1, 100000))
        maps[c] = rows

    def region_of(c, i, j):
        bps = [r[2] for r in maps[c]]
        a = bps[i] - int(rng.integers(0, 3))
        b = bps[j] + int(rng.integers(-1, 2)) if j < len(bps) else bps[-1] + int(rng.integers(1, 1000))
        return {"chr": c, "start": max(0, min(a, b)), "end": max(a, b)}

    kind = str(rng.choice(["region-widening", "region-moving", "subsets", "repeat"], p=[0.4, 0.15, 0.3, 0.15]))
    if kind == "subsets" and ndir == 1:
        kind = "region-widening"
    plan = []      # (chroms, region)
    if kind == "region-widening":
        c = chroms[int(rng.integers(0, ndir))]
        nm = len(maps[c])
        i = int(rng.integers(1, nm - 2))
        j = int(rng.integers(i, nm - 2))          # the closing marker lies inside the chromosome
        plan.append(([c], region_of(c, i, j)))
        if rng.random() < 0.7:
            i2, j2 = int(rng.integers(0, i + 1)), int(rng.integers(j + 1, nm + 1))
            plan.append(([c], region_of(c, i2, j2)))
        plan.append(([c], None))
        if ndir > 1 and rng.random() < 0.5:
            plan.append((list(chroms), None))
    elif kind == "region-moving":
        c = chroms[int(rng.integers(0, ndir))]
        nm = len(maps[c])
        for _ in range(int(rng.integers(2, 5))):
            if rng.random() < 0.25:
                plan.append(([c], None))
            else:
                i = int(rng.integers(0, nm))
                plan.append(([c], region_of(c, i, int(rng.integers(i, nm + 1)))))
    elif kind == "subsets":
        for _ in range(int(rng.integers(2, 5))):
            k = int(rng.integers(1, ndir + 1))
            sub = [chroms[i] for i in sorted(rng.choice(ndir, size=k, replace=False).tolist())]
            if len(sub) == 1 and rng.random() < 0.3:
                nm = len(maps[sub[0]])
                i = int(rng.integers(0, nm))
                plan.append((sub, region_of(sub[0], i, int(rng.integers(i, nm + 1)))))
            else:
                plan.append((sub, None))
    else:
        k = int(rng.integers(1, ndir + 1))
        sub = [chroms[i] for i in sorted(rng.choice(ndir, size=k, replace=False).tolist())]
        reg = None
        if len(sub) == 1 and rng.random() < 0.5:
            nm = len(maps[sub[0]])
            i = int(rng.integers(0, nm))
            reg = region_of(sub[0], i, int(rng.integers(i, nm + 1)))
        plan = [(sub, reg)] * int(rng.integers(2, 4))
    runs = []
    for sub, reg in plan:
        m = c01.make_config(rng)       # only its model, sample count, population size
        ns = min(int(m["nsamples"]), 2)
        runs.append({"chroms": list(sub), "region": reg, "pops": m["pops"], "model": m["model"], "nsamples": ns,
                     "popsize": int(max(2 * ns, min(int(m["popsize"]), 10))), "seed": int(rng.integers(1, 2**31 - 1))})
    if kind == "repeat" and rng.random() < 0.5:
        runs[-1] = dict(runs[0])        # exactly the same run again
    return {"maps": maps, "runs": runs, "kind": kind}


class Seq(Relation):
    """Histories of 2-4 runs in one interpreter on one map directory: every run satisfies the property and is
    the run it would be alone in a fresh interpreter; the model of a run sees that run's inputs only."""

    name = "seq"
    coq_module = "C02_SeqCheck"
    coq_check = "check_seq"
    coq_case_type = "scase"
    coq_model = "model_seq"
    coq_imports = ["Tracts", "C01_Model", "C02_Model", "C02_Generations", "C02_Coords"]
    budget = {"quick": 20, "thorough": 250}
    max_cases_per_shard = 8
    timeout_per_case = 400
    anchors = BpFile.anchors

    def preamble(self):
        return "From Coq Require Import QArith.\nOpen Scope Z_scope."

    def generate(self, rng, n, tier):
        return [make_seq(rng) for _ in range(n)]

    def run_impl(self, inp):
        d = tempfile.mkdtemp(prefix="hv_c02s_")
        try:
            for c, rows in inp["maps"].items():
                with open(os.path.join(d, f"g.chr{c}.map"), "w") as f:
                    for r in rows:
                        f.write(f"{r[0]}\t.\t{r[1]:.6f}\t{r[2]}\n")
            for k, run in enumerate(inp["runs"]):
                write_model(run, os.path.join(d, f"model{k}.dat"))
            # the history, in this interpreter
            seq = [run_once(d, run, f"model{k}.dat", f"out{k}", children=True) for k, run in enumerate(inp["runs"])]
            # every run alone, each in a fresh interpreter, on the same directory
            alone = [run_alone(d, run, f"model{k}.dat", f"alone{k}") for k, run in enumerate(inp["runs"])]
            for o in alone:
                o.pop("final", None)
            return {"seq": seq, "alone": alone}
        finally:
            shutil.rmtree(d, ignore_errors=True)

    def encode(self, inp, obs):
        if "seq" not in obs:
            obs = {"seq": [{"unobserved": "crash"} for _ in inp["runs"]], "alone": [{"unobserved": "crash"} for _ in inp["runs"]]}
        vals = {float(f"{r[1]:.6f}") for rows in inp["maps"].values() for r in rows}
        for o in obs["seq"] + obs["alone"]:
            vals |= {s[3] for r in o.get("rows", []) for s in r[2]}
            vals |= {m[1] for row in o.get("coords", []) for m in row}
            vals |= {e[2] for g in o.get("gens", []) for k in g for e in k[5]}
        rank = {v: i for i, v in enumerate(sorted(vals))}
        mk = lambda m: f"({L.z(m[0])}, {L.z(rank[m[1]])})"
        maps = sorted(((chnum(c), [[r[2], float(f"{r[1]:.6f}")] for r in rows]) for c, rows in inp["maps"].items()))
        mterm = L.lst(maps, lambda f: f"({L.z(f[0])}, {L.lst(f[1], mk)})")
        seg = lambda s: c01.seg_term([s[0], s[1], s[2], rank[s[3]]])
        row = lambda r: f"({L.z(r[0])}, {L.z(r[1])}, {L.lst(r[2], seg)})"

        def rows_term(o):
            if "rows" in o:
                return f"(Ok {L.lst(o['rows'], row)})"
            e = o["failed"]["err"] if "failed" in o else 97
            return f"(Err {L.z(e)})"

        ev = lambda e: f"(mkev {L.z(e[0])} {L.z(e[1])} {L.z(rank[e[2]])})"
        kid = lambda k: f"(mkcd {L.z(k[0])} {L.z(k[1])} {L.z(k[2])} {L.b(k[3])} {L.bl(k[4])} {L.lst(k[5], ev)})"
        terms = []
        for run, o, a in zip(inp["runs"], obs["seq"], obs["alone"]):
            reg = "None" if not run["region"] else f"(Some ({L.z(run['region']['start'])}, {L.z(run['region']['end'])}))"
            rin = (f"(mkrun {L.zl([chnum(c) for c in run['chroms']])} {reg} "
                   f"{L.lst(o.get('gens', []), lambda g: L.lst(g, kid))} {L.zl(o.get('idx', []))})")
            fr = L.lst(run["model"], lambda ln: L.lst(ln[1:], lambda x: L.q(Fraction(str(x)))))
            co = "None" if "coords" not in o else f"(Some {L.lst(o['coords'], lambda r: L.lst(r, mk))})"
            terms.append(f"(mksr {rin} {L.z(run['nsamples'])} {fr} {co} {rows_term(o)} "
                         f"{L.b(o.get('reader_ok', True))} {rows_term(a)})")
        return f"(mks {mterm} [{'; '.join(terms)}])"

    @staticmethod
    def _overlap(inp):
        rs = inp["runs"]
        return any(set(rs[i]["chroms"]) & set(rs[j]["chroms"]) and
                   (rs[i]["chroms"], rs[i]["region"]) != (rs[j]["chroms"], rs[j]["region"])
                   for j in range(len(rs)) for i in range(j))

    def nontrivial(self, inp, obs):
        if "seq" not in obs or not self._overlap(inp):
            return False
        for o in obs["seq"]:
            for r in o.get("rows", []):
                chs = [s[1] for s in r[2]]
                if len(chs) != len(set(chs)):
                    return True
        return False

    def classes(self, inp, obs):
        out = [inp["kind"], f"runs={len(inp['runs'])}", f"mapfiles={len(inp['maps'])}"]
        rs = inp["runs"]
        for j in range(1, len(rs)):
            a, b = rs[j - 1], rs[j]
            if a["region"] and a["chroms"] == b["chroms"]:
                last = inp["maps"][a["chroms"][0]][-1][2]
                if a["region"]["end"] < last and (b["region"] is None or b["region"]["end"] > a["region"]["end"]):
                    out.append("region-ending-inside-then-wider")
            if not a["region"] and not b["region"] and set(a["chroms"]) & set(b["chroms"]) and a["chroms"] != b["chroms"]:
                out.append("overlapping-chromosome-subsets")
            if a == b:
                out.append("same-run-twice")
        if "seq" in obs:
            if any("failed" in o for o in obs["seq"]):
                out.append("failed")
            if any("unobserved" in o for o in obs["seq"] + obs["alone"]):
                out.append("unobserved")
            if any("rows" in o and "rows" in a and o["rows"] != a["rows"] for o, a in zip(obs["seq"], obs["alone"])):
                out.append("differs-from-run-alone")
        return sorted(set(out))

    def shrink(self, inp):
        rs = inp["runs"]
        if len(rs) > 1:
            for j in range(len(rs)):
                yield dict(inp, runs=rs[:j] + rs[j + 1:])
        used = {c for r in rs for c in r["chroms"]}
        if set(inp["maps"]) - used:
            yield dict(inp, maps={c: v for c, v in inp["maps"].items() if c in used})
        for j, r in enumerate(rs):
            if len(r["model"]) > 1:
                yield dict(inp, runs=rs[:j] + [dict(r, model=r["model"][:-1])] + rs[j + 1:])
            if r["popsize"] > 2 * r["nsamples"]:
                yield dict(inp, runs=rs[:j] + [dict(r, popsize=2 * r["nsamples"])] + rs[j + 1:])
            if r["nsamples"] > 1:
                yield dict(inp, runs=rs[:j] + [dict(r, nsamples=1)] + rs[j + 1:])
            if len(r["chroms"]) > 1:
                for i in range(len(r["chroms"])):
                    yield dict(inp, runs=rs[:j] + [dict(r, chroms=r["chroms"][:i] + r["chroms"][i + 1:])] + rs[j + 1:])
        for c, rows in inp["maps"].items():
            if len(rows) > 2:
                for j in range(len(rows)):
                    yield dict(inp, maps=dict(inp["maps"], **{c: rows[:j] + rows[j + 1:]}))

    def mutate(self, inp, rng):
        for _ in range(6):
            yield dict(inp, runs=[dict(r, seed=int(rng.integers(1, 2**31 - 1))) for r in inp["runs"]])

    def signature(self, inp, obs):
        if "seq" not in obs:
            return "seq history not observed"
        for k, (o, a) in enumerate(zip(obs["seq"], obs["alone"])):
            first = "first run" if k == 0 else "a run after another run in the same interpreter"
            if "failed" in o:
                return f"seq {first} raised {o['failed'].get('cls')}" + ("" if "failed" in a else " (alone it completes)")
            if "rows" in o and "rows" in a and o["rows"] != a["rows"]:
                return f"seq {first} writes other breakpoints than the same run alone in a fresh interpreter"
            if "rows" in o and not o["reader_ok"]:
                return f"seq {first}: haptools reader/karyogram does not accept the file"
        return "seq tiling/labels/framing of a run of the history, or its markers differ from the map files'"


class TVBpWrite(BpFile):
    """The configurations of the bpfile relation, with the writing loop of write_breakpoints evaluated from the MiniPy
    syntax regenerated from the current source on the haplotypes the recorded np.random.choice draw selects: agree =
    the interpreted loop writes, line by line and character by character, the .bp file the implementation wrote
    (population names from pop_dict, ints printed by MiniPy.dec_text, the text of a cM float as Python prints it).
    Validates the translator and the interpreter (enumerate, // and %, the f-strings, the dict look-up, the getters)
    against the real code; holds is checked by the bpfile relation."""
    name = "tv_bpwrite"
    coq_lib = "HVG"
    coq_module = "TVM_C02W"
    coq_check = "check_tv_bpwrite"
    coq_case_type = "wcase"
    coq_model = "tv_model_bpwrite"
    coq_imports = ["Tracts", "C01_Model", "C02_Model"]
    budget = {"quick": 30, "thorough": 600}
    max_cases_per_shard = 20

    def preamble(self):
        return "Open Scope Z_scope."

    def generate(self, rng, n, tier):
        out = []
        for _ in range(n):
            cfg = c01.make_config(rng, wide=bool(rng.random() < 0.4))
            ns = cfg["nsamples"]
            cfg["popsize"] = int(max(cfg["popsize"], 2 * ns) if rng.random() < 0.5 else 10 * ns)
            out.append(cfg)
        # sample numbers / haplotype indices past 9|10, 99|100, 127|128 (255|256 in thorough: ~25 KB of lines each)
        out.append(boundary_config(rng, "popsize-small"))
        if tier != "quick":
            out += [boundary_config(rng, "popsize-big", j) for j in range(len(POPSIZE_BIG))]
        return out

    def run_impl(self, cfg):
        d = tempfile.mkdtemp(prefix="hv_c02_")
        try:
            c01.write_config(cfg, d)
            return run_once(d, cfg, "model.dat", "out", text=True)
        finally:
            shutil.rmtree(d, ignore_errors=True)

    def encode(self, cfg, obs):
        if "rejected" in obs:
            return []
        if "rows" not in obs:
            e = obs["failed"]["err"] if "failed" in obs else (97 if "unobserved" in obs else obs.get("kind", 99))
            return f"(mkw [] [] [] [] (Err {L.z(e)}))"
        vals = sorted({s[3] for h in obs["final"] for s in h})
        rank = {v: i for i, v in enumerate(vals)}
        seg = lambda s: c01.seg_term([s[0], s[1], s[2], rank[s[3]]])
        pops = ["Admixed"] + cfg["pops"]
        return (f"(mkw {L.lst(obs['final'], lambda h: L.lst(h, seg))} {L.zl(obs['idx'])} {L.lst(pops, cps)} "
                f"{L.lst(vals, lambda v: cps(format(v, '')))} (Ok {L.lst(obs['lines'], lambda ln: L.lst(ln, cps))}))")

    def nontrivial(self, cfg, obs):
        return "rows" in obs and any(len(r[2]) > 1 for r in obs["rows"])

    def signature(self, cfg, obs):
        if "failed" in obs:
            return f"tv_bpwrite simulate_gt/write_breakpoints raised {obs['failed'].get('cls')}"
        return "tv_bpwrite: the translated writing loop and write_breakpoints disagree on the lines of the .bp file"


class TVCoords(Relation):
    """_prepare_coords on generated map directories (1-4 chromosomes, optional region before / inside / beyond the map,
    now and then an empty map file), with its tail (region loop, sentinel store, end markers) evaluated from the MiniPy
    syntax regenerated from the current source on the markers of the files: agree = same marker lists (bp, cM) and end
    markers, or the same error kind (UnboundLocalError / IndexError for an empty file).  Also checks that
    np.iinfo(np.int32).max is the integer the translation reads it as.  holds is checked by bpfile / seq."""
    name = "tv_coords"
    coq_lib = "HVG"
    coq_module = "TVM_C02P"
    coq_check = "check_tv_coords"
    coq_case_type = "pcase"
    coq_model = "tv_model_coords"
    coq_imports = ["Tracts", "C01_Model", "C02_Model"]
    budget = {"quick": 60, "thorough": 1500}
    max_cases_per_shard = 60
    anchors = [("haptools/sim_genotype.py", "_prepare_coords")]

    def preamble(self):
        return "Open Scope Z_scope."

    def generate(self, rng, n, tier):
        out = []
        for _ in range(n):
            cfg = c01.make_config(rng, wide=bool(rng.random() < 0.3))
            c = {"chroms": cfg["chroms"], "maps": {k: [[r[0], r[1], r[2]] for r in v] for k, v in cfg["maps"].items()},
                 "region": cfg["region"]}
            first = c["chroms"][0]
            bps = [r[2] for r in c["maps"][first]]
            r = rng.random()
            if r < 0.25 and bps:
                # a region relative to the first chromosome's markers: before / inside / at a marker / beyond the map
                lo = int(rng.choice([0, bps[0], bps[0] + 1, bps[len(bps) // 2], bps[-1], bps[-1] + 5]))
                hi = int(rng.choice([bps[0], bps[len(bps) // 2], bps[-1] - 1, bps[-1], bps[-1] + 9, lo]))
                c["chroms"], c["region"] = [first], {"chr": first, "start": min(lo, hi), "end": max(lo, hi)}
                c["maps"] = {first: c["maps"][first]}
            elif r < 0.32:
                k = c["chroms"][int(rng.integers(0, len(c["chroms"])))]
                c["maps"][k] = []            # an empty map file
            if c["region"] is not None:
                c["chroms"] = [c["region"]["chr"]] if c["region"]["chr"] in c["maps"] else c["chroms"][:1]
                c["maps"] = {k: v for k, v in c["maps"].items() if k in c["chroms"]}
            out.append(c)
        return out

    def run_impl(self, cfg):
        import haptools.sim_genotype as sg

        d = tempfile.mkdtemp(prefix="hv_c02_")
        try:
            for c, rows in cfg["maps"].items():
                with open(os.path.join(d, f"g.chr{c}.map"), "w") as f:
                    for r in rows:
                        f.write(f"{r[0]}\t.\t{r[1]:.6f}\t{r[2]}\n")
            try:
                coords, _np, _mx, ends = sg._prepare_coords(d, cfg["chroms"], cfg["region"])
            except Exception as e:  # noqa
                return {"err": err_kind(e), "cls": type(e).__name__, "msg": str(e)[:160]}
            mk = lambda m: [int(m.get_bp_pos()), float(m.get_map_pos())]
            return {"ok": {"coords": [[mk(m) for m in row] for row in coords], "ends": [mk(m) for m in ends]}}
        finally:
            shutil.rmtree(d, ignore_errors=True)

    @staticmethod
    def _order(cfg):
        key = lambda c: 23 if c == "X" else int(c)
        return sorted(cfg["chroms"], key=key)

    def encode(self, cfg, obs):
        files = [[[int(r[2]), float(f"{r[1]:.6f}")] for r in cfg["maps"].get(c, [])] for c in self._order(cfg)]
        vals = sorted({m[1] for row in files for m in row}
                      | ({m[1] for row in obs["ok"]["coords"] for m in row} | {m[1] for m in obs["ok"]["ends"]} if "ok" in obs else set()))
        rank = {v: i for i, v in enumerate(vals)}
        pr = lambda m: f"({L.z(m[0])}, {L.z(rank[m[1]])})"
        rg = cfg["region"]
        rgt = "None" if rg is None else f"(Some ({L.z(rg['start'])}, {L.z(rg['end'])}))"
        if "ok" in obs:
            ot = f"(Ok ({L.lst(obs['ok']['coords'], lambda row: L.lst(row, pr))}, {L.lst(obs['ok']['ends'], pr)}))"
        else:
            ot = f"(Err {L.z(obs.get('err', obs.get('kind', 99)))})"
        return f"(mkpc {L.lst(files, lambda row: L.lst(row, pr))} {rgt} {ot})"

    def nontrivial(self, cfg, obs):
        return cfg["region"] is not None or "err" in obs

    def classes(self, cfg, obs):
        out = [f"chroms={len(cfg['chroms'])}", f"region={'y' if cfg['region'] else 'n'}"]
        if any(not v for v in cfg["maps"].values()):
            out.append("empty-map-file")
        if "err" in obs:
            out.append(f"err{obs['err']}")
        elif cfg["region"]:
            n0 = len(cfg["maps"][self._order(cfg)[0]])
            k = len(obs["ok"]["coords"][0])
            out.append("region-keeps-all" if k == n0 else "region-keeps-one" if k == 1 else "region-keeps-some")
        return out

    def shrink(self, cfg):
        for c in list(cfg["maps"]):
            rows = cfg["maps"][c]
            for j in range(len(rows)):
                yield dict(cfg, maps=dict(cfg["maps"], **{c: rows[:j] + rows[j + 1:]}))
        if len(cfg["chroms"]) > 1 and cfg["region"] is None:
            for c in cfg["chroms"]:
                keep = [x for x in cfg["chroms"] if x != c]
                yield dict(cfg, chroms=keep, maps={k: v for k, v in cfg["maps"].items() if k in keep})

    def mutate(self, cfg, rng):
        return []

    def signature(self, cfg, obs):
        if "err" in obs:
            return f"tv_coords _prepare_coords raised {obs.get('cls')}"
        return "tv_coords: the translated tail of _prepare_coords and _prepare_coords disagree on coords / end_coords"


RELATIONS = [BpFile(), Gen(), Seq(), BpText(), Draws(), TVBpWrite(), TVCoords()]

LEVEL_TEXT = (
    "Coq theorems, for all strictly increasing chromosome lists, all ordered event lists, all draw streams and any number "
    "of generations: every simulated haplotype tiles every requested chromosome up to the sentinel (hence exactly one label "
    "per position), by an invariant over the per-child loop of _simulate and induction over generations, with get_segment's "
    "shape contract discharged from the C01 kernel theorems; labels come only from founder draws. Tied to /repo on every run "
    "by recorded-draw agreement on every child and by evaluating the file-level checker on the .bp files the implementation writes. "
    "_prepare_coords is a model function too: every chromosome's end coordinate - first, middle or last, with or without --region - is "
    "the sentinel (C02_prepare_coords_ends), so the tiling theorem holds for the whole run with no hypothesis on the end coordinates "
    "(C02_run_tiles); the model of a run is a function of that run's inputs only (C02_run_independent_of_history) and is evaluated "
    "against every run of generated histories of runs made in one interpreter, each also compared with the same run made alone. "
    "The numpy statements before the per-child loop (choice of parents, re-draw loop, boolean-mask selection, stable sort) are a "
    "model function (C02_Draws.decode_gen) compared with the recorded raw draws on every generation; numpy's contract on the raw "
    "draws implies the hypothesis gens_ok of the tiling theorems (C02_contracts_gens_ok, C02_run_tiles_from_contracts) and is "
    "evaluated clause by clause on the recorded draws (C02_gen_contractb_sound). The last clause is proved on the readers' models: "
    "the text write_breakpoints produces (C02_Reader.render; the file is compared with it token by token) is read by C05's model of "
    "Breakpoints.read as the samples Sample_1..Sample_n with exactly the written blocks (C02_reader_accepts, through C05's round trip) "
    "and by C18's model of GetHaplotypeBlocks, for every sample, as two strands of one block per line (C02_karyogram_accepts); "
    "for a whole run the per-tract hypotheses follow from the tiling and label theorems (C02_run_file_accepted)."
)
LEVEL_NOTE = (
    "Trusted: Coq kernel/vm_compute; hand-written models validated differentially; numpy draw contracts (randint in range, "
    "choice without replacement in range, choice(p) within the support, rand() >= 0) are hypotheses of the theorems, checked on "
    "every recorded call; the token codecs int(str(z)) = z (proved for the concrete decimal printer: C02_dec_codec) and "
    "float(repr(x)) = x are hypotheses. cM monotonicity is proved for whole runs on maps with monotone cM "
    "(C02_run_cm_monotone_from_contracts) and checked on the files. Open finding: a model naming a population with more than 6 characters makes simgenotype write a file its own "
    "reader refuses (hypothesis 'label <= 6 characters' of C02_reader_accepts; C02_long_label_mangled; switch STRICT_LABEL_WIDTH)."
)
TECHNIQUE = "Coq loop invariant + induction over generations; reader acceptance through C05's round-trip theorem and a state-machine induction over C18's parser; vm_compute-evaluated correspondence on recorded simulations, raw numpy draws and written .bp files"
