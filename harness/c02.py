"""C02 - breakpoint output tiles every simulated chromosome and respects the model.

Relations
  bpfile : simulate_gt -> write_breakpoints end to end; the .bp file parsed by an
           independent parser, re-read by haptools' Breakpoints and karyogram
  gen    : every child of every generation tiles the chromosomes (shares the
           recorded-draw machinery and the model of C01)
"""
import os
import re
import shutil
import tempfile
from fractions import Fraction

import numpy as np

from . import coqlit as L
from . import c01
from .core import Relation, err_kind

PROP = "C02"
CLAIMED = True
COQ_MODULES = ["C02_Check", "C02_Tiling", "C02_Generations", "C02_Proofs", "C02_Cm"]
PROPERTY_MODULE = "C02_Property"
ALLOWED_AXIOMS = []

# The MiniPy model of these functions is regenerated from the current source on every run
# (harness/pytrans.py) and proved equal to the hand-written models in coq/translated/TV_C01.v.
TRANSLATION = {
    "spec": {
        "module": "Gen_SimGenotype",
        "classes": [("haptools/admix_storage.py", "HaplotypeSegment", 1),
                    ("haptools/admix_storage.py", "GeneticMarker", 2)],
        "functions": [
            ("haptools/sim_genotype.py", "_find_coord"),
            ("haptools/sim_genotype.py", "_find_random_sample"),
            ("haptools/sim_genotype.py", "start_segment"),
            ("haptools/sim_genotype.py", "get_segment"),
            # the per-child loop of _simulate: from `prev_chrom = chroms[0]` to just before `hap_samples.append(segments)`
            ("haptools/sim_genotype.py", "_simulate", {
                "name": "_simulate_child", "loop_target": "sample", "from_assign": "prev_chrom",
                "until_append_to": "hap_samples", "result": "segments",
                "params": ["chroms", "end_coords", "p_pop", "haps", "homolog", "true_coords", "prev_gen_samples",
                           "segments"]}),
        ],
    },
    "models": ["TVM_C01"],   # definitions only: evaluation of the translated code (tv_kernel relation)
    "proofs": ["TV_C01", "TV_C01_Child"],    # translation-validation theorems
}
RULE = (
    "configurations: 1-4 chromosomes of 1..22,X, 2-9 markers with zero/tiny/huge cM gaps, 2-3 source populations "
    "incl. zero fractions and pulses, 1-4 model lines, optional --region, popsize 2..30, 1-3 samples; "
    "non-trivial = some written haplotype has >= 2 tracts on one chromosome. Distinct = distinct canonical JSON of the configuration."
)
TRUSTED = [
    "numpy RNG draws are recorded, not modelled (universally quantified in the theorems)",
    "cM values are compared through order-preserving integer ranks computed by the harness",
    "Python float repr / float() round-trip for the cM column",
]
ASSUMPTIONS = [
    "chromosome list strictly increasing (documented: sorted), map bp/cM increasing (events ordered), first model line has admixed fraction 0",
]
MAXI = 2**31 - 1


def parse_bp(path, pops):
    """Independent parser of the .bp format: [(sample_no, strand, [[pop_idx, chrom, end, cm_float]])]."""
    rows = []
    with open(path) as f:
        for line in f:
            line = line.rstrip("\n")
            parts = line.split("\t")
            if len(parts) == 1:
                m = re.fullmatch(r"Sample_(\d+)_([12])", parts[0])
                if not m:
                    raise ValueError(f"bad header line {line!r}")
                rows.append([int(m.group(1)), int(m.group(2)), []])
            elif len(parts) == 4:
                if not rows:
                    raise ValueError("block before header")
                chrom = 23 if parts[1] == "X" else int(parts[1])
                rows[-1][2].append([pops.index(parts[0]), chrom, int(parts[2]), float(parts[3])])
            else:
                raise ValueError(f"bad line {line!r}")
    return rows


class BpFile(Relation):
    name = "bpfile"
    coq_module = "C02_Check"
    coq_check = "check_bp"
    coq_case_type = "bcase"
    coq_model = "model_bp"
    coq_imports = ["Tracts", "C01_Model", "C02_Model"]
    budget = {"quick": 60, "thorough": 1500}
    max_cases_per_shard = 40

    def preamble(self):
        return "From Coq Require Import QArith.\nOpen Scope Z_scope."

    anchors = [
        ("haptools/sim_genotype.py", "_prepare_coords"),
        ("haptools/sim_genotype.py", "_simulate"),
        ("haptools/sim_genotype.py", "write_breakpoints"),
        ("haptools/sim_genotype.py", "simulate_gt"),
        ("haptools/data/breakpoints.py", "Breakpoints.__iter__"),
    ]

    def generate(self, rng, n, tier):
        out = []
        for _ in range(n):
            cfg = c01.make_config(rng)
            ns = cfg["nsamples"]
            cfg["popsize"] = int(max(cfg["popsize"], 2 * ns) if rng.random() < 0.5 else 10 * ns)
            out.append(cfg)
        return out

    def run_impl(self, cfg):
        from haptools.logging import getLogger
        import haptools.sim_genotype as sg
        from haptools.data import Breakpoints
        from haptools import karyogram

        d = tempfile.mkdtemp(prefix="hv_c02_")
        log = getLogger("hv", "CRITICAL")
        try:
            model = c01.write_config(cfg, d)
            rec = c01.Recorder()
            try:
                try:
                    ns, pop_dict, gen = sg.simulate_gt(model, d, cfg["chroms"], cfg["region"], cfg["popsize"], log, cfg["seed"])
                    mark = len(rec.log)
                    sg.write_breakpoints(ns, pop_dict, gen, os.path.join(d, "out"), log)
                except Exception as e:  # noqa
                    return {"failed": {"err": err_kind(e), "cls": type(e).__name__, "msg": str(e)[:200]}}
            finally:
                rec.close()
            draws = [x for x in rec.log[mark:] if x[0] == "choice"]
            if len(draws) != 1 or rec.log[mark:] != draws:
                return {"unobserved": "write_breakpoints draw protocol changed"}
            idx = [int(i) for i in draws[0][3]]
            pops = ["Admixed"] + cfg["pops"]
            rows = parse_bp(os.path.join(d, "out.bp"), pops)
            final = [[[int(s.get_pop()), int(s.get_chrom()), int(s.get_end_coord()), float(s.get_end_pos())] for s in h] for h in gen]
            # haptools' own readers
            reader_ok = True
            why = ""
            try:
                bps = Breakpoints(os.path.join(d, "out.bp"), log=log)
                recs = []

                class H:
                    def __init__(s):
                        s.level = 0

                import logging

                class Cap(logging.Handler):
                    def emit(self, r):
                        recs.append(r.levelname)

                log.addHandler(Cap())
                bps.read()
                if any(r in ("WARNING", "ERROR") for r in recs):
                    reader_ok, why = False, "reader logged " + ",".join(recs)
                if list(bps.data.keys()) != [f"Sample_{i + 1}" for i in range(cfg["nsamples"])]:
                    reader_ok, why = False, "sample list differs"
                else:
                    for i in range(cfg["nsamples"]):
                        for st in range(2):
                            arr = bps.data[f"Sample_{i + 1}"][st]
                            exp = rows[2 * i + st][2]
                            got = [[pops.index(str(b["pop"])), 23 if str(b["chrom"]) == "X" else int(b["chrom"]), int(b["bp"]), float(b["cm"])] for b in arr]
                            if got != exp:
                                reader_ok, why = False, "blocks differ"
                # karyogram finds every sample with as many blocks as the file has
                for i in range(cfg["nsamples"]):
                    sb = karyogram.GetHaplotypeBlocks(os.path.join(d, "out.bp"), f"Sample_{i + 1}")
                    if len(sb) != 2 or any(len(sb[st]) != len(rows[2 * i + st][2]) for st in range(2)):
                        reader_ok, why = False, "karyogram blocks differ"
            except Exception as e:  # noqa
                reader_ok, why = False, f"{type(e).__name__}: {e}"
            return {"rows": rows, "final": final, "idx": idx, "reader_ok": reader_ok, "why": why}
        finally:
            shutil.rmtree(d, ignore_errors=True)

    def encode(self, cfg, obs):
        chnum = [23 if c == "X" else int(c) for c in cfg["chroms"]]
        fr = L.lst(cfg["model"], lambda ln: L.lst(ln[1:], lambda x: L.q(Fraction(str(x)))))
        if "rows" not in obs:
            e = obs["failed"]["err"] if "failed" in obs else (97 if "unobserved" in obs else obs.get("kind", 99))
            return f"(mkb {L.zl(chnum)} {L.z(cfg['nsamples'])} {fr} [] [] (Err {L.z(e)}) true)"
        vals = sorted({s[3] for r in obs["rows"] for s in r[2]} | {s[3] for h in obs["final"] for s in h})
        rank = {v: i for i, v in enumerate(vals)}
        seg = lambda s: c01.seg_term([s[0], s[1], s[2], rank[s[3]]])
        row = lambda r: f"({L.z(r[0])}, {L.z(r[1])}, {L.lst(r[2], seg)})"
        return (f"(mkb {L.zl(chnum)} {L.z(cfg['nsamples'])} {fr} {L.lst(obs['final'], lambda h: L.lst(h, seg))} "
                f"{L.zl(obs['idx'])} (Ok {L.lst(obs['rows'], row)}) {L.b(obs['reader_ok'])})")

    def nontrivial(self, cfg, obs):
        if "rows" not in obs:
            return False
        for r in obs["rows"]:
            chs = [s[1] for s in r[2]]
            if len(chs) != len(set(chs)):
                return True
        return False

    def classes(self, cfg, obs):
        out = [f"chroms={len(cfg['chroms'])}", f"region={'y' if cfg['region'] else 'n'}", f"lines={len(cfg['model'])}"]
        if "rows" in obs:
            if any(x == 0 for ln in cfg["model"] for x in ln[2:]):
                out.append("zero-fraction")
            if any(len(r[2]) == len(cfg["chroms"]) for r in obs["rows"]):
                out.append("haplotype-without-breakpoints")
            if not obs["reader_ok"]:
                out.append("reader-rejects")
        else:
            out.append("failed" if "failed" in obs else "unobserved")
        return out

    shrink = c01.Child.shrink
    mutate = c01.Child.mutate

    def signature(self, cfg, obs):
        if "failed" in obs:
            return f"bpfile simulate_gt/write_breakpoints raised {obs['failed'].get('cls')}"
        if "rows" in obs and not obs["reader_ok"]:
            return f"bpfile haptools reader/karyogram does not accept the file ({obs['why'][:40]})"
        return "bpfile tiling/labels/framing"


class Gen(c01.Child):
    """Every child of every generation tiles the chromosomes (same cases as C01's child relation)."""

    name = "gen"
    coq_module = "C02_Check"
    coq_check = "check_gen"
    coq_case_type = "gcase"
    coq_model = "model_gen"
    coq_imports = ["Tracts", "C01_Model", "C01_Check"]
    budget = {"quick": 40, "thorough": 1200}

    def _term(self, k):
        # order-preserving cm ranks are not needed here: the interner is only compared for equality
        return super()._term(k)

    def signature(self, cfg, obs):
        if "failed" in obs:
            return f"gen simulate_gt raised {obs['failed'].get('cls')}"
        return "gen child does not tile the chromosomes"


RELATIONS = [BpFile(), Gen()]

LEVEL_TEXT = (
    "Coq theorems, for all strictly increasing chromosome lists, all ordered event lists, all draw streams and any number "
    "of generations: every simulated haplotype tiles every requested chromosome up to the sentinel (hence exactly one label "
    "per position), by an invariant over the per-child loop of _simulate and induction over generations, with get_segment's "
    "shape contract discharged from the C01 kernel theorems; labels come only from founder draws. Tied to /repo on every run "
    "by recorded-draw agreement on every child and by evaluating the file-level checker on the .bp files the implementation writes."
)
LEVEL_NOTE = (
    "Trusted: Coq kernel/vm_compute; hand-written model validated differentially; numpy draw contracts (randint in range, "
    "choice without replacement distinct and in range, choice(p) within the support) are hypotheses of the theorems; "
    "cM monotonicity and the acceptance by haptools' own reader/karyogram are checked on the implementation's output only "
    "(no theorem): partial for those two clauses."
)
TECHNIQUE = "Coq loop invariant + induction over generations; vm_compute-evaluated correspondence on recorded simulations and written .bp files"
