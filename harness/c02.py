"""C02 - breakpoint output tiles every simulated chromosome and respects the model.

Relations
  bpfile : simulate_gt -> write_breakpoints end to end; the .bp file parsed by an
           independent parser, re-read by haptools' Breakpoints and karyogram
  gen    : every child of every generation tiles the chromosomes (shares the
           recorded-draw machinery and the model of C01)
  seq    : HISTORIES of 2-4 simulate_gt + write_breakpoints calls made one after the other in ONE
           interpreter on the SAME map directory, with different regions / chromosome subsets /
           models / population sizes / seeds (a region ending inside the chromosome, then a wider
           one, then the whole chromosome, then several chromosomes; overlapping chromosome
           subsets; the same run again).  Demanded, because the property is about EVERY run and
           says nothing about what the interpreter did before (C10: "whatever ran earlier in the
           same process"):
             holds - every run of the history satisfies the file-level property (as bpfile), and
                     writes exactly the file the same run (same files, same seed) writes alone in
                     a fresh interpreter;
             agree - the markers _prepare_coords hands to _simulate are C02_Coords.prepare_coords
                     of THIS run's map files / chromosomes / region (per chromosome the file's
                     markers, sliced by the region, the last one's bp replaced by the sentinel), and
                     the file is C02_Coords.model_run of this run's inputs and recorded draws
                     (prepare_coords -> sim_generations -> write_breakpoints).  The model of a run
                     has no access to the history (C02_run_independent_of_history).
"""
import os
import re
import shutil
import tempfile
from fractions import Fraction

import numpy as np

from . import coqlit as L
from . import c01
from .core import Relation, err_kind

PROP = "C02"
CLAIMED = True
COQ_MODULES = ["C02_Check", "C02_Tiling", "C02_Generations", "C02_Proofs", "C02_Cm", "C02_Coords", "C02_SeqCheck"]
PROPERTY_MODULE = "C02_Property"
ALLOWED_AXIOMS = []

# The MiniPy model of these functions is regenerated from the current source on every run
# (harness/pytrans.py) and proved equal to the hand-written models in coq/translated/TV_C01.v.
TRANSLATION = {
    "spec": {
        "module": "Gen_SimGenotype",
        "classes": [("haptools/admix_storage.py", "HaplotypeSegment", 1),
                    ("haptools/admix_storage.py", "GeneticMarker", 2)],
        "functions": [
            ("haptools/sim_genotype.py", "_find_coord"),
            ("haptools/sim_genotype.py", "_find_random_sample"),
            ("haptools/sim_genotype.py", "start_segment"),
            ("haptools/sim_genotype.py", "get_segment"),
            # the per-child loop of _simulate: from `prev_chrom = chroms[0]` to just before `hap_samples.append(segments)`
            ("haptools/sim_genotype.py", "_simulate", {
                "name": "_simulate_child", "loop_target": "sample", "from_assign": "prev_chrom",
                "until_append_to": "hap_samples", "result": "segments",
                "params": ["chroms", "end_coords", "p_pop", "haps", "homolog", "true_coords", "prev_gen_samples",
                           "segments"]}),
        ],
    },
    "models": ["TVM_C01"],   # definitions only: evaluation of the translated code (tv_kernel relation)
    "proofs": ["TV_C01", "TV_C01_Child"],    # translation-validation theorems
}
RULE = (
    "configurations: 1-4 chromosomes of 1..22,X, 2-9 markers with zero/tiny/huge cM gaps, 2-3 source populations "
    "incl. zero fractions and pulses, 1-4 model lines, optional --region, popsize 2..30, 1-3 samples; "
    "non-trivial = some written haplotype has >= 2 tracts on one chromosome. Distinct = distinct canonical JSON of the configuration. "
    "seq: one directory of 1-5 map files (4-10 markers) and 2-4 runs on it: region ending inside the chromosome -> wider region -> "
    "whole chromosome -> all chromosomes; moving regions; overlapping chromosome subsets; the same run repeated; each run with its "
    "own model / population size / seed; non-trivial = two runs share a chromosome with different chromosome lists or regions and "
    "some haplotype has >= 2 tracts on one chromosome."
)
TRUSTED = [
    "numpy RNG draws are recorded, not modelled (universally quantified in the theorems)",
    "cM values are compared through order-preserving integer ranks computed by the harness",
    "Python float repr / float() round-trip for the cM column",
]
ASSUMPTIONS = [
    "chromosome list strictly increasing (documented: sorted), map bp/cM increasing (events ordered), first model line has admixed fraction 0",
    "seq: one map file per chromosome, its first column = the chromosome of its name; a region is given with chroms = [its chromosome] (as the command does); every run has a seed",
]
MAXI = 2**31 - 1


def parse_bp(path, pops):
    """Independent parser of the .bp format: [(sample_no, strand, [[pop_idx, chrom, end, cm_float]])]."""
    rows = []
    with open(path) as f:
        for line in f:
            line = line.rstrip("\n")
            parts = line.split("\t")
            if len(parts) == 1:
                m = re.fullmatch(r"Sample_(\d+)_([12])", parts[0])
                if not m:
                    raise ValueError(f"bad header line {line!r}")
                rows.append([int(m.group(1)), int(m.group(2)), []])
            elif len(parts) == 4:
                if not rows:
                    raise ValueError("block before header")
                chrom = 23 if parts[1] == "X" else int(parts[1])
                rows[-1][2].append([pops.index(parts[0]), chrom, int(parts[2]), float(parts[3])])
            else:
                raise ValueError(f"bad line {line!r}")
    return rows


def run_once(d, cfg, model_name, prefix, children=False):
    """simulate_gt + write_breakpoints on the map directory d with the model file d/model_name; the .bp file
    parsed by the independent parser and re-read by haptools' Breakpoints and karyogram.  With children=True
    also the markers handed to _simulate and the decoded draws of every child of every generation."""
    from haptools.logging import getLogger
    import haptools.sim_genotype as sg
    from haptools.data import Breakpoints
    from haptools import karyogram
    import logging

    log = getLogger("hv", "CRITICAL")
    model = os.path.join(d, model_name)
    out = os.path.join(d, prefix)
    rec = c01.Recorder()
    extra = {}
    try:
        try:
            ns, pop_dict, gen = sg.simulate_gt(model, d, cfg["chroms"], cfg["region"], cfg["popsize"], log, cfg["seed"])
            mark = len(rec.log)
            sg.write_breakpoints(ns, pop_dict, gen, out, log)
        except Exception as e:  # noqa
            extra = {"failed": {"err": err_kind(e), "cls": type(e).__name__, "msg": str(e)[:200]}}
    finally:
        rec.close()
    if children:
        # the markers as _simulate received them in its first call, and every child's draws
        try:
            if rec.gens:
                g0 = rec.gens[0]
                extra["coords"] = [[[int(m.get_bp_pos()), float(m.get_map_pos())] for m in row if hasattr(m, "get_bp_pos")]
                                   for row in g0["coords"]]
            if "failed" not in extra:
                ident = lambda x: x
                extra["gens"] = [[[k["pop"], k["ia"], k["ib"], k["h0"], k["hd"], k["evs"]] for k in c01.children_of(g, ident)]
                                 for g in rec.gens]
        except AssertionError as e:
            return {"unobserved": str(e)}
    if "failed" in extra:
        return extra
    draws = [x for x in rec.log[mark:] if x[0] == "choice"]
    if len(draws) != 1 or rec.log[mark:] != draws:
        return {"unobserved": "write_breakpoints draw protocol changed"}
    idx = [int(i) for i in draws[0][3]]
    pops = ["Admixed"] + cfg["pops"]
    rows = parse_bp(out + ".bp", pops)
    final = [[[int(s.get_pop()), int(s.get_chrom()), int(s.get_end_coord()), float(s.get_end_pos())] for s in h] for h in gen]
    # haptools' own readers
    reader_ok = True
    why = ""
    try:
        bps = Breakpoints(out + ".bp", log=log)
        recs = []

        class Cap(logging.Handler):
            def emit(self, r):
                recs.append(r.levelname)

        cap = Cap()
        log.addHandler(cap)
        try:
            bps.read()
        finally:
            log.removeHandler(cap)
        if any(r in ("WARNING", "ERROR") for r in recs):
            reader_ok, why = False, "reader logged " + ",".join(recs)
        if list(bps.data.keys()) != [f"Sample_{i + 1}" for i in range(cfg["nsamples"])]:
            reader_ok, why = False, "sample list differs"
        else:
            for i in range(cfg["nsamples"]):
                for st in range(2):
                    arr = bps.data[f"Sample_{i + 1}"][st]
                    exp = rows[2 * i + st][2]
                    got = [[pops.index(str(b["pop"])), 23 if str(b["chrom"]) == "X" else int(b["chrom"]), int(b["bp"]), float(b["cm"])] for b in arr]
                    if got != exp:
                        reader_ok, why = False, "blocks differ"
        # karyogram finds every sample with as many blocks as the file has
        for i in range(cfg["nsamples"]):
            sb = karyogram.GetHaplotypeBlocks(out + ".bp", f"Sample_{i + 1}")
            if len(sb) != 2 or any(len(sb[st]) != len(rows[2 * i + st][2]) for st in range(2)):
                reader_ok, why = False, "karyogram blocks differ"
    except Exception as e:  # noqa
        reader_ok, why = False, f"{type(e).__name__}: {e}"
    return dict(extra, rows=rows, final=final, idx=idx, reader_ok=reader_ok, why=why)



class BpFile(Relation):
    name = "bpfile"
    coq_module = "C02_Check"
    coq_check = "check_bp"
    coq_case_type = "bcase"
    coq_model = "model_bp"
    coq_imports = ["Tracts", "C01_Model", "C02_Model"]
    budget = {"quick": 60, "thorough": 1500}
    max_cases_per_shard = 40

    def preamble(self):
        return "From Coq Require Import QArith.\nOpen Scope Z_scope."

    anchors = [
        ("haptools/sim_genotype.py", "_prepare_coords"),
        ("haptools/sim_genotype.py", "_simulate"),
        ("haptools/sim_genotype.py", "write_breakpoints"),
        ("haptools/sim_genotype.py", "simulate_gt"),
        ("haptools/data/breakpoints.py", "Breakpoints.__iter__"),
    ]

    def generate(self, rng, n, tier):
        out = []
        for _ in range(n):
            cfg = c01.make_config(rng)
            ns = cfg["nsamples"]
            cfg["popsize"] = int(max(cfg["popsize"], 2 * ns) if rng.random() < 0.5 else 10 * ns)
            out.append(cfg)
        return out

    def run_impl(self, cfg):
        d = tempfile.mkdtemp(prefix="hv_c02_")
        try:
            c01.write_config(cfg, d)
            return run_once(d, cfg, "model.dat", "out")
        finally:
            shutil.rmtree(d, ignore_errors=True)

    def encode(self, cfg, obs):
        chnum = [23 if c == "X" else int(c) for c in cfg["chroms"]]
        fr = L.lst(cfg["model"], lambda ln: L.lst(ln[1:], lambda x: L.q(Fraction(str(x)))))
        if "rows" not in obs:
            e = obs["failed"]["err"] if "failed" in obs else (97 if "unobserved" in obs else obs.get("kind", 99))
            return f"(mkb {L.zl(chnum)} {L.z(cfg['nsamples'])} {fr} [] [] (Err {L.z(e)}) true)"
        vals = sorted({s[3] for r in obs["rows"] for s in r[2]} | {s[3] for h in obs["final"] for s in h})
        rank = {v: i for i, v in enumerate(vals)}
        seg = lambda s: c01.seg_term([s[0], s[1], s[2], rank[s[3]]])
        row = lambda r: f"({L.z(r[0])}, {L.z(r[1])}, {L.lst(r[2], seg)})"
        return (f"(mkb {L.zl(chnum)} {L.z(cfg['nsamples'])} {fr} {L.lst(obs['final'], lambda h: L.lst(h, seg))} "
                f"{L.zl(obs['idx'])} (Ok {L.lst(obs['rows'], row)}) {L.b(obs['reader_ok'])})")

    def nontrivial(self, cfg, obs):
        if "rows" not in obs:
            return False
        for r in obs["rows"]:
            chs = [s[1] for s in r[2]]
            if len(chs) != len(set(chs)):
                return True
        return False

    def classes(self, cfg, obs):
        out = [f"chroms={len(cfg['chroms'])}", f"region={'y' if cfg['region'] else 'n'}", f"lines={len(cfg['model'])}"]
        if "rows" in obs:
            if any(x == 0 for ln in cfg["model"] for x in ln[2:]):
                out.append("zero-fraction")
            if any(len(r[2]) == len(cfg["chroms"]) for r in obs["rows"]):
                out.append("haplotype-without-breakpoints")
            if not obs["reader_ok"]:
                out.append("reader-rejects")
        else:
            out.append("failed" if "failed" in obs else "unobserved")
        return out

    shrink = c01.Child.shrink
    mutate = c01.Child.mutate

    def signature(self, cfg, obs):
        if "failed" in obs:
            return f"bpfile simulate_gt/write_breakpoints raised {obs['failed'].get('cls')}"
        if "rows" in obs and not obs["reader_ok"]:
            return f"bpfile haptools reader/karyogram does not accept the file ({obs['why'][:40]})"
        return "bpfile tiling/labels/framing"


class Gen(c01.Child):
    """Every child of every generation tiles the chromosomes (same cases as C01's child relation)."""

    name = "gen"
    coq_module = "C02_Check"
    coq_check = "check_gen"
    coq_case_type = "gcase"
    coq_model = "model_gen"
    coq_imports = ["Tracts", "C01_Model", "C01_Check"]
    budget = {"quick": 40, "thorough": 1200}

    def _term(self, k):
        # order-preserving cm ranks are not needed here: the interner is only compared for equality
        return super()._term(k)

    def signature(self, cfg, obs):
        if "failed" in obs:
            return f"gen simulate_gt raised {obs['failed'].get('cls')}"
        return "gen child does not tile the chromosomes"



# ---------------------------------------------------------------------------
# histories of runs in one interpreter


def alone_main():
    """Entry point of the fresh interpreter that makes one run alone (see Seq.run_impl)."""
    import json
    import sys

    req = json.load(sys.stdin)
    obs = run_once(req["dir"], req["run"], req["model"], req["prefix"])
    sys.stdout.write("\n@@HV@@" + json.dumps(obs))


def run_alone(d, run, model_name, prefix):
    import json
    import subprocess
    import sys

    req = json.dumps({"dir": d, "run": run, "model": model_name, "prefix": prefix})
    try:
        p = subprocess.run([sys.executable, "-c", "from harness import c02; c02.alone_main()"], input=req,
                           capture_output=True, text=True, timeout=100,
                           cwd=os.path.dirname(os.path.dirname(os.path.abspath(__file__))))
        return json.loads(p.stdout.rsplit("@@HV@@", 1)[1])
    except Exception as e:  # noqa
        return {"unobserved": f"fresh interpreter: {type(e).__name__}: {e}"[:200]}


def write_model(run, path):
    with open(path, "w") as f:
        f.write(f"{run['nsamples']}\tAdmixed\t" + "\t".join(run["pops"]) + "\n")
        for ln in run["model"]:
            f.write("\t".join(str(x) for x in ln) + "\n")


ALLCH = [str(c) for c in range(1, 23)] + ["X"]


def chnum(c):
    return 23 if c == "X" else int(c)


def make_seq(rng):
    """A history: one map directory and 2-4 runs on it (regions inside the chromosome then wider then the whole
    chromosome, overlapping chromosome subsets, repeated runs), each with its own model, population size and seed."""
    ndir = int(rng.integers(1, 6))
    chroms = [ALLCH[i] for i in sorted(rng.choice(23, size=ndir, replace=False).tolist())]
    maps = {}
    for c in chroms:
        nm = int(rng.integers(4, 11))
        cm, bp, rows = 0.0, int(rng.integers(1, 1000)), []
        for _ in range(nm):
            rows.append([c, round(cm, 6), bp])
            cm += float(rng.choice([0, 0.5, 20, 80, 300], p=[0.1, 0.1, 0.25, 0.3, 0.25]))
            bp += int(rng.integers(1, 100000))
        maps[c] = rows

    def region_of(c, i, j):
        bps = [r[2] for r in maps[c]]
        a = bps[i] - int(rng.integers(0, 3))
        b = bps[j] + int(rng.integers(-1, 2)) if j < len(bps) else bps[-1] + int(rng.integers(1, 1000))
        return {"chr": c, "start": max(0, min(a, b)), "end": max(a, b)}

    kind = str(rng.choice(["region-widening", "region-moving", "subsets", "repeat"], p=[0.4, 0.15, 0.3, 0.15]))
    if kind == "subsets" and ndir == 1:
        kind = "region-widening"
    plan = []      # (chroms, region)
    if kind == "region-widening":
        c = chroms[int(rng.integers(0, ndir))]
        nm = len(maps[c])
        i = int(rng.integers(1, nm - 2))
        j = int(rng.integers(i, nm - 2))          # the closing marker lies inside the chromosome
        plan.append(([c], region_of(c, i, j)))
        if rng.random() < 0.7:
            i2, j2 = int(rng.integers(0, i + 1)), int(rng.integers(j + 1, nm + 1))
            plan.append(([c], region_of(c, i2, j2)))
        plan.append(([c], None))
        if ndir > 1 and rng.random() < 0.5:
            plan.append((list(chroms), None))
    elif kind == "region-moving":
        c = chroms[int(rng.integers(0, ndir))]
        nm = len(maps[c])
        for _ in range(int(rng.integers(2, 5))):
            if rng.random() < 0.25:
                plan.append(([c], None))
            else:
                i = int(rng.integers(0, nm))
                plan.append(([c], region_of(c, i, int(rng.integers(i, nm + 1)))))
    elif kind == "subsets":
        for _ in range(int(rng.integers(2, 5))):
            k = int(rng.integers(1, ndir + 1))
            sub = [chroms[i] for i in sorted(rng.choice(ndir, size=k, replace=False).tolist())]
            if len(sub) == 1 and rng.random() < 0.3:
                nm = len(maps[sub[0]])
                i = int(rng.integers(0, nm))
                plan.append((sub, region_of(sub[0], i, int(rng.integers(i, nm + 1)))))
            else:
                plan.append((sub, None))
    else:
        k = int(rng.integers(1, ndir + 1))
        sub = [chroms[i] for i in sorted(rng.choice(ndir, size=k, replace=False).tolist())]
        reg = None
        if len(sub) == 1 and rng.random() < 0.5:
            nm = len(maps[sub[0]])
            i = int(rng.integers(0, nm))
            reg = region_of(sub[0], i, int(rng.integers(i, nm + 1)))
        plan = [(sub, reg)] * int(rng.integers(2, 4))
    runs = []
    for sub, reg in plan:
        m = c01.make_config(rng)       # only its model, sample count, population size
        ns = min(int(m["nsamples"]), 2)
        runs.append({"chroms": list(sub), "region": reg, "pops": m["pops"], "model": m["model"], "nsamples": ns,
                     "popsize": int(max(2 * ns, min(int(m["popsize"]), 10))), "seed": int(rng.integers(1, 2**31 - 1))})
    if kind == "repeat" and rng.random() < 0.5:
        runs[-1] = dict(runs[0])        # exactly the same run again
    return {"maps": maps, "runs": runs, "kind": kind}


class Seq(Relation):
    """Histories of 2-4 runs in one interpreter on one map directory: every run satisfies the property and is
    the run it would be alone in a fresh interpreter; the model of a run sees that run's inputs only."""

    name = "seq"
    coq_module = "C02_SeqCheck"
    coq_check = "check_seq"
    coq_case_type = "scase"
    coq_model = "model_seq"
    coq_imports = ["Tracts", "C01_Model", "C02_Model", "C02_Generations", "C02_Coords"]
    budget = {"quick": 20, "thorough": 250}
    max_cases_per_shard = 8
    timeout_per_case = 400
    anchors = BpFile.anchors

    def preamble(self):
        return "From Coq Require Import QArith.\nOpen Scope Z_scope."

    def generate(self, rng, n, tier):
        return [make_seq(rng) for _ in range(n)]

    def run_impl(self, inp):
        d = tempfile.mkdtemp(prefix="hv_c02s_")
        try:
            for c, rows in inp["maps"].items():
                with open(os.path.join(d, f"g.chr{c}.map"), "w") as f:
                    for r in rows:
                        f.write(f"{r[0]}\t.\t{r[1]:.6f}\t{r[2]}\n")
            for k, run in enumerate(inp["runs"]):
                write_model(run, os.path.join(d, f"model{k}.dat"))
            # the history, in this interpreter
            seq = [run_once(d, run, f"model{k}.dat", f"out{k}", children=True) for k, run in enumerate(inp["runs"])]
            # every run alone, each in a fresh interpreter, on the same directory
            alone = [run_alone(d, run, f"model{k}.dat", f"alone{k}") for k, run in enumerate(inp["runs"])]
            for o in alone:
                o.pop("final", None)
            return {"seq": seq, "alone": alone}
        finally:
            shutil.rmtree(d, ignore_errors=True)

    def encode(self, inp, obs):
        if "seq" not in obs:
            obs = {"seq": [{"unobserved": "crash"} for _ in inp["runs"]], "alone": [{"unobserved": "crash"} for _ in inp["runs"]]}
        vals = {float(f"{r[1]:.6f}") for rows in inp["maps"].values() for r in rows}
        for o in obs["seq"] + obs["alone"]:
            vals |= {s[3] for r in o.get("rows", []) for s in r[2]}
            vals |= {m[1] for row in o.get("coords", []) for m in row}
            vals |= {e[2] for g in o.get("gens", []) for k in g for e in k[5]}
        rank = {v: i for i, v in enumerate(sorted(vals))}
        mk = lambda m: f"({L.z(m[0])}, {L.z(rank[m[1]])})"
        maps = sorted(((chnum(c), [[r[2], float(f"{r[1]:.6f}")] for r in rows]) for c, rows in inp["maps"].items()))
        mterm = L.lst(maps, lambda f: f"({L.z(f[0])}, {L.lst(f[1], mk)})")
        seg = lambda s: c01.seg_term([s[0], s[1], s[2], rank[s[3]]])
        row = lambda r: f"({L.z(r[0])}, {L.z(r[1])}, {L.lst(r[2], seg)})"

        def rows_term(o):
            if "rows" in o:
                return f"(Ok {L.lst(o['rows'], row)})"
            e = o["failed"]["err"] if "failed" in o else 97
            return f"(Err {L.z(e)})"

        ev = lambda e: f"(mkev {L.z(e[0])} {L.z(e[1])} {L.z(rank[e[2]])})"
        kid = lambda k: f"(mkcd {L.z(k[0])} {L.z(k[1])} {L.z(k[2])} {L.b(k[3])} {L.bl(k[4])} {L.lst(k[5], ev)})"
        terms = []
        for run, o, a in zip(inp["runs"], obs["seq"], obs["alone"]):
            reg = "None" if not run["region"] else f"(Some ({L.z(run['region']['start'])}, {L.z(run['region']['end'])}))"
            rin = (f"(mkrun {L.zl([chnum(c) for c in run['chroms']])} {reg} "
                   f"{L.lst(o.get('gens', []), lambda g: L.lst(g, kid))} {L.zl(o.get('idx', []))})")
            fr = L.lst(run["model"], lambda ln: L.lst(ln[1:], lambda x: L.q(Fraction(str(x)))))
            co = "None" if "coords" not in o else f"(Some {L.lst(o['coords'], lambda r: L.lst(r, mk))})"
            terms.append(f"(mksr {rin} {L.z(run['nsamples'])} {fr} {co} {rows_term(o)} "
                         f"{L.b(o.get('reader_ok', True))} {rows_term(a)})")
        return f"(mks {mterm} [{'; '.join(terms)}])"

    @staticmethod
    def _overlap(inp):
        rs = inp["runs"]
        return any(set(rs[i]["chroms"]) & set(rs[j]["chroms"]) and
                   (rs[i]["chroms"], rs[i]["region"]) != (rs[j]["chroms"], rs[j]["region"])
                   for j in range(len(rs)) for i in range(j))

    def nontrivial(self, inp, obs):
        if "seq" not in obs or not self._overlap(inp):
            return False
        for o in obs["seq"]:
            for r in o.get("rows", []):
                chs = [s[1] for s in r[2]]
                if len(chs) != len(set(chs)):
                    return True
        return False

    def classes(self, inp, obs):
        out = [inp["kind"], f"runs={len(inp['runs'])}", f"mapfiles={len(inp['maps'])}"]
        rs = inp["runs"]
        for j in range(1, len(rs)):
            a, b = rs[j - 1], rs[j]
            if a["region"] and a["chroms"] == b["chroms"]:
                last = inp["maps"][a["chroms"][0]][-1][2]
                if a["region"]["end"] < last and (b["region"] is None or b["region"]["end"] > a["region"]["end"]):
                    out.append("region-ending-inside-then-wider")
            if not a["region"] and not b["region"] and set(a["chroms"]) & set(b["chroms"]) and a["chroms"] != b["chroms"]:
                out.append("overlapping-chromosome-subsets")
            if a == b:
                out.append("same-run-twice")
        if "seq" in obs:
            if any("failed" in o for o in obs["seq"]):
                out.append("failed")
            if any("unobserved" in o for o in obs["seq"] + obs["alone"]):
                out.append("unobserved")
            if any("rows" in o and "rows" in a and o["rows"] != a["rows"] for o, a in zip(obs["seq"], obs["alone"])):
                out.append("differs-from-run-alone")
        return sorted(set(out))

    def shrink(self, inp):
        rs = inp["runs"]
        if len(rs) > 1:
            for j in range(len(rs)):
                yield dict(inp, runs=rs[:j] + rs[j + 1:])
        used = {c for r in rs for c in r["chroms"]}
        if set(inp["maps"]) - used:
            yield dict(inp, maps={c: v for c, v in inp["maps"].items() if c in used})
        for j, r in enumerate(rs):
            if len(r["model"]) > 1:
                yield dict(inp, runs=rs[:j] + [dict(r, model=r["model"][:-1])] + rs[j + 1:])
            if r["popsize"] > 2 * r["nsamples"]:
                yield dict(inp, runs=rs[:j] + [dict(r, popsize=2 * r["nsamples"])] + rs[j + 1:])
            if r["nsamples"] > 1:
                yield dict(inp, runs=rs[:j] + [dict(r, nsamples=1)] + rs[j + 1:])
            if len(r["chroms"]) > 1:
                for i in range(len(r["chroms"])):
                    yield dict(inp, runs=rs[:j] + [dict(r, chroms=r["chroms"][:i] + r["chroms"][i + 1:])] + rs[j + 1:])
        for c, rows in inp["maps"].items():
            if len(rows) > 2:
                for j in range(len(rows)):
                    yield dict(inp, maps=dict(inp["maps"], **{c: rows[:j] + rows[j + 1:]}))

    def mutate(self, inp, rng):
        for _ in range(6):
            yield dict(inp, runs=[dict(r, seed=int(rng.integers(1, 2**31 - 1))) for r in inp["runs"]])

    def signature(self, inp, obs):
        if "seq" not in obs:
            return "seq history not observed"
        for k, (o, a) in enumerate(zip(obs["seq"], obs["alone"])):
            first = "first run" if k == 0 else "a run after another run in the same interpreter"
            if "failed" in o:
                return f"seq {first} raised {o['failed'].get('cls')}" + ("" if "failed" in a else " (alone it completes)")
            if "rows" in o and "rows" in a and o["rows"] != a["rows"]:
                return f"seq {first} writes other breakpoints than the same run alone in a fresh interpreter"
            if "rows" in o and not o["reader_ok"]:
                return f"seq {first}: haptools reader/karyogram does not accept the file"
        return "seq tiling/labels/framing of a run of the history, or its markers differ from the map files'"


RELATIONS = [BpFile(), Gen(), Seq()]

LEVEL_TEXT = (
    "Coq theorems, for all strictly increasing chromosome lists, all ordered event lists, all draw streams and any number "
    "of generations: every simulated haplotype tiles every requested chromosome up to the sentinel (hence exactly one label "
    "per position), by an invariant over the per-child loop of _simulate and induction over generations, with get_segment's "
    "shape contract discharged from the C01 kernel theorems; labels come only from founder draws. Tied to /repo on every run "
    "by recorded-draw agreement on every child and by evaluating the file-level checker on the .bp files the implementation writes. "
    "_prepare_coords is a model function too: every chromosome's end coordinate - first, middle or last, with or without --region - is "
    "the sentinel (C02_prepare_coords_ends), so the tiling theorem holds for the whole run with no hypothesis on the end coordinates "
    "(C02_run_tiles); the model of a run is a function of that run's inputs only (C02_run_independent_of_history) and is evaluated "
    "against every run of generated histories of runs made in one interpreter, each also compared with the same run made alone."
)
LEVEL_NOTE = (
    "Trusted: Coq kernel/vm_compute; hand-written model validated differentially; numpy draw contracts (randint in range, "
    "choice without replacement distinct and in range, choice(p) within the support) are hypotheses of the theorems; "
    "cM monotonicity and the acceptance by haptools' own reader/karyogram are checked on the implementation's output only "
    "(no theorem): partial for those two clauses."
)
TECHNIQUE = "Coq loop invariant + induction over generations; vm_compute-evaluated correspondence on recorded simulations and written .bp files"
