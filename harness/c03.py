"""C03 - simulated genotypes agree with the breakpoints and the reference panel.

Relations
  vcf    : (+ rare classes: WIDE reference panels of 129..140 / 257..300 / 65537..65600 samples whose model-population
           samples sit in the high columns - gen_wide_case - and the width-boundary stream - gen_boundary_case)
           sim_genotype.output_vcf end to end on generated breakpoints (hand-built, chromosome-sorted,
           ending in the 2^31-1 sentinel) and generated reference panels (multi-allelic with one allele per
           reference haplotype so that provenance is readable, or bi-allelic; VCF.gz+tbi / BCF+csi / PGEN;
           with or without chr prefix; more chromosomes than requested; contig order differing from the
           requested order; variants on block ends, +-1, beyond the last marker), all flag combinations x
           replacement modes x vcf/bcf/pgen output, --region; np.random.{choice,randint,shuffle} recorded.
           The output is read back with pysam / pgenlib (never with haptools).
  assign : the pure kernel (searchsorted-right + diff + repeat as numpy computes them) against M.assign
  sim    : the whole command chain simulate_gt -> write_breakpoints -> output_vcf on generated genetic maps (1-4
           chromosomes; per chromosome 1-5 markers on the grid of the variant positions, the LAST marker -
           independently for every chromosome, hence for the first, a middle and the last one - well below / exactly on /
           above the chromosome's reference variants) with the panels, sample-info files, flags, formats and regions of
           the vcf relation.  The breakpoints are the .bp file the chain wrote.  holds = the vcf relation's checker with
           the block rule the property states for simulated breakpoints: first tract of the chromosome whose end >= the
           position, and for "variants past the last map coordinate" the chromosome's last tract - so every variant of a
           simulated chromosome must carry an allele of ONE reference haplotype of the block's population, that label as
           POP and that sample as SAMPLE (never np.empty memory).  agree = the model of output_vcf on those breakpoints.
"""
import os
import shutil
import tempfile

import numpy as np

from . import coqlit as L
from .core import Relation, err_kind

PROP = "C03"
CLAIMED = True
COQ_MODULES = ["C03_Check", "C03_Proofs", "C03_SimCheck", "C03_ProofsE2E", "C03_ProofsSpec", "C03_ProofsC05",
               "C03_ProofsComplete"]
PROPERTY_MODULE = "C03_Property"
ALLOWED_AXIOMS = []
RULE = (
    "vcf: 1-3 simulated samples, panels of 2-8 reference samples x 1-14 variants over 1-4 contigs, breakpoints of "
    "1-4 tracts per chromosome with ends on/next to variant positions; plus two rare classes: WIDE panels (129-140, "
    "257-300 - 300 in every run - and 65537-65600 reference samples given by a formula, the model populations' samples in "
    "columns >= 128 / 256 / 32768 / 65536, the columns a narrowed index would hit owned by other populations) and the "
    "WIDTH-BOUNDARY stream (254-300 variants on a chromosome, 254-300 tracts on a chromosome, positions and block ends "
    "around 2^8, 2^15, 2^16, 2^24, 2^29 and 2^31-2). Non-trivial = some simulated haplotype has "
    ">= 2 blocks holding variants on one chromosome, or the panel holds a chromosome that was not requested / in "
    "another order, or both POP and SAMPLE are requested, or the panel is wide. assign: non-trivial = some variant position "
    "equals a block end. sim: as vcf (incl. wide panels), breakpoints simulated from generated maps; non-trivial = a reference "
    "variant lies past the last map coordinate of a requested chromosome, or the vcf rule. Distinct = distinct canonical JSON."
)
TRUSTED = [
    "numpy RNG draws (choice index, randint strands, shuffle results) are recorded, not modelled",
    "pysam/pgenlib as independent readers of the output; pysam/pgenlib writers for the generated panels",
    "contig / sample / population names and whole records (chrom,pos,id,alleles) are interned to integers by the harness",
    "np.searchsorted(side='right') on an ascending array = number of elements <= key (exercised by the assign relation)",
]
ASSUMPTIONS = [
    "variant positions ascending within a chromosome (tabix-indexed panels), tract ends ascending, last end >= every "
    "position (the 2^31-1 sentinel simgenotype writes)",
]
MAXI = 2**31 - 1
E_UNOBS = 97


def chrom_str(c):
    return "X" if c == 23 else str(c)


def allele_names(k):
    """k distinct allele strings, REF first (single base so that region semantics are those of a SNP)"""
    out = ["A", "C", "G", "T"]
    i = 0
    while len(out) < k:
        out.append("A" + "CGT"[i % 3] * (1 + i // 3) + "CGT"[(i // 3) % 3])
        i += 1
    out = list(dict.fromkeys(out))
    j = 0
    while len(out) < k:
        out.append("T" * (3 + j) + "G")
        j += 1
    return out[:k]


def contig_name(v, prefix):
    # v = [chr_flag, chrom, pos]
    return ("chr" if v[0] else "") + chrom_str(v[1])


def formula_allele(h, f):
    """allele of reference haplotype h (= 2*sample + strand) at a variant with formula f = [mult, shift, modulus]"""
    return (h * f[0] + f[1]) % f[2]


def ref_data(ref):
    """data[sample][variant] = [allele strand 0, allele strand 1]; spelled out in ref['data'] or - for wide panels -
    given by ref['formula'][variant] = [mult, shift, modulus] (the same formula is C03_Model.fdata)"""
    if "formula" in ref:
        return [[[formula_allele(2 * r, f), formula_allele(2 * r + 1, f)] for f in ref["formula"]]
                for r in range(ref["nref"])]
    return ref["data"]


def write_panel(inp, d):
    """Write the reference panel described by inp['ref']; returns (path, records) where records[i] is the
    identity (contig, pos, id, alleles) of panel variant i."""
    ref = dict(inp["ref"])
    ref["data"] = ref_data(ref)
    R = ref["nref"]
    names = [f"R{i}" for i in range(R)]
    recs = []
    for i, v in enumerate(ref["vars"]):
        al = allele_names(ref["nalleles"][i])
        recs.append((contig_name(v, None), int(v[2]), f"v{i}", tuple(al)))
    if ref["fmt"] == "pgen":
        import pgenlib

        base = os.path.join(d, "panel")
        with open(base + ".psam", "w") as f:
            f.write("#IID\n" + "\n".join(names) + "\n")
        with open(base + ".pvar", "w") as f:
            f.write("#CHROM\tPOS\tID\tREF\tALT\n")
            for c, p, i, al in recs:
                f.write(f"{c}\t{p}\t{i}\t{al[0]}\t{','.join(al[1:])}\n")
        nv = len(recs)
        maxal = max([len(r[3]) for r in recs] + [2])
        with pgenlib.PgenWriter(base.encode() + b".pgen", R, variant_ct=nv, nonref_flags=False,
                                allele_ct_limit=maxal, hardcall_phase_present=True) as w:
            for vi in range(nv):
                row = np.array([a for r in range(R) for a in ref["data"][r][vi]], dtype=np.int32)
                w.append_alleles(row, all_phased=True, allele_ct=len(recs[vi][3]))
        return base + ".pgen", recs
    import pysam

    txt = os.path.join(d, "panel.vcf")
    contigs = list(dict.fromkeys(r[0] for r in recs))
    with open(txt, "w") as f:
        f.write("##fileformat=VCFv4.2\n")
        for c in contigs:
            f.write(f"##contig=<ID={c}>\n")
        f.write('##FORMAT=<ID=GT,Number=1,Type=String,Description="Genotype">\n')
        f.write("#CHROM\tPOS\tID\tREF\tALT\tQUAL\tFILTER\tINFO\tFORMAT\t" + "\t".join(names) + "\n")
        for vi, (c, p, i, al) in enumerate(recs):
            gts = "\t".join(f"{ref['data'][r][vi][0]}|{ref['data'][r][vi][1]}" for r in range(R))
            f.write(f"{c}\t{p}\t{i}\t{al[0]}\t{','.join(al[1:])}\t.\t.\t.\tGT\t{gts}\n")
    if ref["fmt"] == "bcf":
        out = os.path.join(d, "panel.bcf")
        with pysam.VariantFile(txt) as src, pysam.VariantFile(out, "wb", header=src.header) as dst:
            for r in src:
                dst.write(r)
        pysam.tabix_index(out, preset="bcf", force=True, csi=True)
        return out, recs
    out = txt + ".gz"
    pysam.tabix_compress(txt, out, force=True)
    pysam.tabix_index(out, preset="vcf", force=True)
    return out, recs


class DrawRecorder:
    def __init__(self):
        self.saved = (np.random.choice, np.random.randint, np.random.shuffle)
        self.choice, self.strand, self.shuffle = [], [], []
        self.ok = True
        ch, ri, sh = self.saved

        def choice(a, *args, **kw):
            r = ch(a, *args, **kw)
            try:
                self.choice.append([str(x) for x in a].index(str(r)))
            except Exception:  # noqa
                self.ok = False
            return r

        def randint(*args, **kw):
            r = ri(*args, **kw)
            try:
                self.strand.append([int(x) for x in np.atleast_1d(r)])
            except Exception:  # noqa
                self.ok = False
            return r

        def shuffle(x):
            sh(x)
            self.shuffle.append([str(s) for s in x])

        np.random.choice, np.random.randint, np.random.shuffle = choice, randint, shuffle

    def close(self):
        np.random.choice, np.random.randint, np.random.shuffle = self.saved


def read_output(path, inp, recs, pops):
    """Independent reader of what output_vcf wrote."""
    rec_index = {r: i for i, r in enumerate(recs)}
    sample_index = {f"R{i}": i for i in range(inp["ref"]["nref"])}
    pop_index = {p: i for i, p in enumerate(pops)}
    n = len(inp["bps"]) // 2
    if path.endswith(".pgen"):
        import pgenlib

        base = path[:-5]
        with open(base + ".psam") as f:
            lines = [ln.rstrip("\n").split("\t") for ln in f if ln.strip()]
        names = [ln[0] for ln in lines[1:]]
        ovars = []
        with open(base + ".pvar") as f:
            for ln in f:
                if ln.startswith("#") or not ln.strip():
                    continue
                t = ln.rstrip("\n").split("\t")
                ovars.append(rec_index.get((t[0], int(t[1]), t[2], tuple([t[3]] + t[4].split(","))), -1))
        gt = [[None] * len(ovars) for _ in range(2 * len(names))]
        if ovars:
            pv = pgenlib.PvarReader(base.encode() + b".pvar")
            with pgenlib.PgenReader(path.encode(), pvar=pv) as r:
                buf = np.empty(2 * len(names), dtype=np.int32)
                for j in range(len(ovars)):
                    r.read_alleles(j, buf)
                    for h in range(2 * len(names)):
                        gt[h][j] = int(buf[h])
        return {"names": names, "vars": ovars, "gt": gt, "pop": None, "smp": None}
    import pysam

    with pysam.VariantFile(path) as vf:
        names = list(vf.header.samples)
        has_pop = "POP" in vf.header.formats
        has_smp = "SAMPLE" in vf.header.formats
        ovars, gt = [], [[] for _ in range(2 * len(names))]
        pop = [[] for _ in range(2 * len(names))] if has_pop else None
        smp = [[] for _ in range(2 * len(names))] if has_smp else None
        for r in vf:
            ovars.append(rec_index.get((r.contig, int(r.pos), r.id, tuple(r.alleles)), -1))
            for s, nm in enumerate(names):
                call = r.samples[nm]
                g = call["GT"]
                for t in range(2):
                    a = g[t] if g is not None and len(g) > t else None
                    gt[2 * s + t].append(-1 if a is None else int(a))
                    if has_pop:
                        v = call["POP"] if "POP" in call else None
                        x = v[t] if v is not None and len(v) > t else None
                        pop[2 * s + t].append(pop_index.get(x, -1))
                    if has_smp:
                        v = call["SAMPLE"] if "SAMPLE" in call else None
                        x = v[t] if v is not None and len(v) > t else None
                        smp[2 * s + t].append(sample_index.get(x, -1))
    return {"names": names, "vars": ovars, "gt": gt, "pop": pop, "smp": smp}


def pops_of(inp):
    return ["Admixed"] + [f"P{i}" for i in range(1, inp["npop"])]


def info_name(s):
    return f"R{s}" if s >= 0 else f"absent{-s}"


def run_output_vcf(inp):
    """Run output_vcf on inp in a scratch directory. Returns the observation."""
    from haptools.admix_storage import HaplotypeSegment as S
    from haptools.logging import getLogger
    import haptools.sim_genotype as sg

    d = tempfile.mkdtemp(prefix="hv_c03_")
    rec = None
    try:
        panel, recs = write_panel(inp, d)
        pops = pops_of(inp)
        model = os.path.join(d, "model.dat")
        with open(model, "w") as f:
            f.write(f"{len(inp['bps']) // 2}\t" + "\t".join(pops) + "\n1\t0\t" +
                    "\t".join(["1"] + ["0"] * (len(pops) - 2)) + "\n")
        info = os.path.join(d, "info.tab")
        with open(info, "w") as f:
            for s, p in inp["info"]:
                f.write(f"{info_name(s)}\t{pops[p] if p < len(pops) else 'OTHER%d' % p}\n")
        bps = [[S(int(t[0]), int(t[1]), int(t[2]), float(t[3])) for t in hap] for hap in inp["bps"]]
        out = os.path.join(d, "out." + inp["out"])
        region = None
        if inp.get("region"):
            g = inp["region"]
            region = {"chr": chrom_str(g[0]), "start": int(g[1]), "end": int(g[2])}
        log = getLogger("hv", "CRITICAL")
        np.random.seed(inp["seed"])
        rec = DrawRecorder()
        try:
            try:
                sg.output_vcf(bps, [chrom_str(c) for c in inp["chroms"]], model, panel, info, region,
                              bool(inp["pop_field"]), bool(inp["sample_field"]), bool(inp["norep"]), out, log)
                err = None
            except Exception as e:  # noqa
                err = {"err": err_kind(e), "cls": type(e).__name__, "msg": str(e)[:200]}
        finally:
            rec.close()
        smap = {f"R{i}": i for i in range(inp["ref"]["nref"])}
        draws = {
            "choice": rec.choice,
            "strand": rec.strand,
            "shuffle": [[smap.get(x, -int(x[6:]) if x.startswith("absent") else -99) for x in l] for l in rec.shuffle],
            "ok": rec.ok,
        }
        if err is not None:
            return {"failed": err, "draws": draws}
        o = read_output(out, inp, recs, pops)
        return {"out": o, "draws": draws}
    finally:
        if rec is not None:
            rec.close()
        shutil.rmtree(d, ignore_errors=True)


# ---- encoding ---------------------------------------------------------------


def seg_term(s):
    return f"(mkseg {L.z(s[0])} {L.z(s[1])} {L.z(s[2])} {L.z(int(s[3]))})"


def poptab(inp):
    """sample-info restricted to the model's populations, first-appearance order (the defaultdict)"""
    tab = {}
    for s, p in inp["info"]:
        if p < inp["npop"]:
            tab.setdefault(p, []).append(s)
    return list(tab.items())


def mat_term(m):
    return L.lst(m, lambda row: L.lst(row, lambda x: "None" if x is None else f"(Some {L.z(x)})"))


def config_term(inp, draws):
    ref = inp["ref"]
    rv = lambda v: f"(mkrv {L.b(v[0])} {L.z(v[1])} {L.z(v[2])})"
    if "formula" in ref:
        data = f"(fdata {L.z(ref['nref'])} {L.lst(ref['formula'], lambda f: f'({L.z(f[0])}, {L.z(f[1])}, {L.z(f[2])})')})"
    else:
        data = L.lst(ref["data"], lambda row: L.lst(row, lambda c: f"({L.z(c[0])}, {L.z(c[1])})"))
    tab = L.lst(poptab(inp), lambda kv: f"({L.z(kv[0])}, {L.zl(kv[1])})")
    reg = "None"
    if inp.get("region"):
        g = inp["region"]
        reg = f"(Some (mkreg {L.z(g[0])} {L.z(g[1])} {L.z(g[2])}))"
    return (
        f"(mkcfg {L.zl(inp['chroms'])} {L.z(inp['npop'])} {tab} {L.lst(ref['vars'], rv)} {data} {L.z(ref['nref'])} {reg} "
        f"{L.b(inp['pop_field'])} {L.b(inp['sample_field'])} {L.b(inp['norep'])} {L.b(inp['out'] == 'pgen')} "
        f"{L.lst(inp['bps'], lambda h: L.lst(h, seg_term))} {L.zl(draws['choice'])} "
        f"{L.lst(draws['strand'], L.zl)} {L.lst(draws['shuffle'], L.zl)})"
    )


def obs_term(inp, obs):
    if "out" in obs and obs["draws"]["ok"]:
        o = obs["out"]
        n = len(inp["bps"]) // 2
        if o["names"] != [f"Sample_{i + 1}" for i in range(n)]:
            # a simulated sample is missing / misnamed: present what was written under the names found
            pass
        f = lambda m: "None" if m is None else f"(Some {mat_term(m)})"
        return f"(Ok (mkout {L.zl(o['vars'])} {mat_term(o['gt'])} {f(o['pop'])} {f(o['smp'])}))"
    if "failed" in obs:
        return f"(Err {L.z(obs['failed']['err'])})"
    return f"(Err {L.z(obs.get('kind', E_UNOBS) if '__exc__' in obs or '__crash__' in obs or '__timeout__' in obs else E_UNOBS)})"


# ---- generator ---------------------------------------------------------------


def gen_bps(rng, nsamp, chroms, pool, per_chrom_pos, grid, npop, maxblocks=4):
    """hand-built breakpoints: per simulated haplotype and chromosome 1..maxblocks tracts whose ends lie on / next to
    variant positions, closed by the int32-max sentinel (mostly) or just past the last variant"""
    r = rng.random
    bps = []
    for _ in range(2 * nsamp):
        hap = []
        hap_chroms = sorted(set(chroms) | ({int(rng.choice(pool))} if r() < 0.3 else set()))
        for c in hap_chroms:
            pos = per_chrom_pos.get(c, [50])
            nb = int(rng.integers(0, maxblocks))
            cand = sorted(set([p + dlt for p in pos for dlt in (-1, 0, 1)] + [int(x) for x in rng.choice(grid, size=2)]))
            ends = sorted(set(int(x) for x in rng.choice(cand, size=nb))) if nb else []
            last = MAXI if r() < 0.85 else max(pos + ends) + int(rng.integers(0, 3))
            ends = [e for e in ends if e < last] + [last]
            for e in ends:
                hap.append([int(rng.integers(1, npop)), c, int(e), int(rng.integers(0, 90))])
        bps.append(hap)
    return bps


def gen_case(rng, tier="quick", force=None, want_norep=None):
    """One output_vcf configuration. force: optional dict of fields to pin (used by corpus builders)."""
    r = rng.random
    malformed = None
    norep = bool(r() < 0.35) if want_norep is None else bool(want_norep)
    npopreal = int(rng.choice([1, 2, 3], p=[0.35, 0.45, 0.2]))          # populations P1..Pk of the model
    npop = npopreal + 1
    nref = int(rng.integers(max(2, npopreal), 7)) if not norep else int(rng.integers(3, 9))
    # chromosomes of the panel / requested
    pool = [1, 2, 3, 10, 22, 23]
    nchr = int(rng.integers(1, 5))
    panel_chroms = [int(c) for c in rng.choice(pool, size=nchr, replace=False)]
    order = r()
    if order < 0.5:
        panel_chroms.sort()
    elif order < 0.75:
        panel_chroms.sort(key=lambda c: chrom_str(c))   # lexicographic contig order (1,10,2,22,3,X)
    k = int(rng.integers(1, nchr + 1)) if r() < 0.55 else nchr
    chroms = sorted(int(c) for c in rng.choice(panel_chroms, size=k, replace=False))
    prefix = r() < 0.3
    fmt = str(rng.choice(["vcf.gz", "vcf.gz", "bcf", "pgen"]))
    out = str(rng.choice(["vcf.gz", "vcf", "bcf", "pgen"], p=[0.4, 0.2, 0.2, 0.2]))
    if want_norep:
        out = str(rng.choice(["vcf.gz", "vcf", "bcf"]))
    identifiable = out != "pgen" and (r() < 0.8 or bool(want_norep))   # PGEN output of unobserved middle alleles is C07's business
    # variants
    grid = [5, 10, 11, 20, 21, 30, 40, 41, 50, 60, 99, 100, 101, 150, 200]
    vars_, per_chrom_pos = [], {}
    for c in panel_chroms:
        nv = int(rng.integers(1, 5))
        pos = sorted(set(int(x) for x in rng.choice(grid, size=nv)))
        per_chrom_pos[c] = pos
        for p in pos:
            vars_.append([bool(prefix), c, p])
    nv = len(vars_)
    if identifiable:
        data = [[[2 * rr, 2 * rr + 1] for _ in range(nv)] for rr in range(nref)]
        # rotate the allele numbering per variant so that an allele index alone does not name a haplotype
        for vi in range(nv):
            sh = int(rng.integers(0, 2 * nref))
            for rr in range(nref):
                data[rr][vi] = [(2 * rr + sh) % (2 * nref), (2 * rr + 1 + sh) % (2 * nref)]
        nalleles = [2 * nref + int(rng.integers(0, 2)) for _ in range(nv)]
    else:
        data = [[[int(rng.integers(0, 2)), int(rng.integers(0, 2))] for _ in range(nv)] for _ in range(nref)]
        nalleles = [2] * nv
    # sample-info: every model population gets >= 1 sample; some samples of an unused population; some unlisted
    info = []
    perm = [int(x) for x in rng.permutation(nref)]
    for i, s in enumerate(perm):
        if i < npopreal:
            info.append([s, i + 1])
        else:
            p = int(rng.integers(1, npop + 1))   # npop = an unused population
            if r() < 0.85:
                info.append([s, p])
    info = [info[i] for i in rng.permutation(len(info))]
    # breakpoints
    nsamp = int(rng.integers(1, 4)) if not norep else int(rng.integers(1, 3))
    bps = gen_bps(rng, nsamp, chroms, pool, per_chrom_pos, grid, npop)
    region = None
    if r() < 0.2 and not prefix:
        c = int(rng.choice(chroms))
        ps = per_chrom_pos[c]
        a = int(rng.choice(ps)) - int(rng.integers(0, 2))
        b = int(rng.choice(ps)) + int(rng.integers(0, 2))
        if a > b:
            a, b = b, a
        region = [c, max(1, a), max(1, b)]
        chroms = [c]
        if fmt == "pgen" and not any(region[1] <= p <= region[2] for p in ps):
            fmt = "vcf.gz"      # PGEN read of an empty region is C08's business (range() step 0)
    case = {
        "chroms": chroms, "npop": npop, "info": info,
        "ref": {"nref": nref, "vars": vars_, "nalleles": nalleles, "data": data, "fmt": fmt},
        "bps": bps, "region": region, "pop_field": bool(r() < 0.5), "sample_field": bool(r() < 0.5),
        "norep": norep, "out": out, "seed": int(rng.integers(1, 2**31 - 1)), "kind": "wellformed",
    }
    # ---- malformed stream (agreement of exception kinds)
    m = r()
    if m < 0.04:
        case["bps"][0] = [[0 if i == 0 else t[0], t[1], t[2], t[3]] for i, t in enumerate(case["bps"][0])]
        malformed = "label-admixed"
    elif m < 0.07:
        case["bps"][-1] = [[npop + 1, t[1], t[2], t[3]] for t in case["bps"][-1]]
        malformed = "label-unknown"
    elif m < 0.10:
        case["info"] = [x for x in case["info"] if x[1] != 1]
        malformed = "population-without-samples"
    elif m < 0.13:
        case["info"] = case["info"] + [[-1, 1], [-2, 1]]
        malformed = "sample-info-name-not-in-panel"
    elif m < 0.16:
        # two tracts of one chromosome swapped (a swap across chromosomes would hide a chromosome from the
        # binary search and leave np.empty cells, whose content is not reproducible)
        hap = case["bps"][0]
        js = [j for j in range(len(hap) - 1) if hap[j][1] == hap[j + 1][1]]
        if js:
            j = js[0]
            hap[j], hap[j + 1] = hap[j + 1], hap[j]
            malformed = "unsorted-tracts"
    elif m < 0.19 and region is None and not prefix:
        c = chroms[0]
        case["region"] = [c, 1000, 2000]
        case["chroms"] = [c]
        if fmt == "pgen":
            case["ref"]["fmt"] = "vcf.gz"
        malformed = "empty-region"
    if malformed:
        case["kind"] = malformed
    if force:
        case.update(force)
    return case


PRIMES = [251, 241, 239, 233, 229, 227]     # allele-count moduli of formula panels (< 256: haptools stores alleles as uint8)


def narrow_images(s, nref):
    """columns a panel index s turns into when it is stored in an 8/16-bit integer (unsigned: wraps; signed: wraps to a
    negative index, which numpy counts from the end), other than s itself"""
    out = set()
    for w in (256, 65536):
        u = s % w
        sg = (s + w // 2) % w - w // 2
        for x in (u, sg if sg >= 0 else nref + sg):
            if 0 <= x < nref and x != s:
                out.add(x)
    return out


WIDE_CLASSES = {"w128": (129, 141, 128), "w256": (257, 301, 256), "w65536": (65537, 65601, 65536)}


def gen_wide_case(rng, tier="quick", wclass="w256", nref=None):
    """A reference panel wider than an 8-bit (w128: signed, w256: unsigned) or 16-bit (w65536) integer can index.
    The samples of the model's populations sit in the HIGH columns (>= 128 / 256 / 32768 / 65536); the columns such an
    index turns into when it is narrowed belong to an unused population, to another population of the model, or are
    not listed.  The panel is identifiable and given by a formula (ref['formula']), so the Coq literal stays small."""
    r = rng.random
    lo, hi, bound = WIDE_CLASSES[wclass]
    if nref is None:
        nref = 300 if (wclass == "w256" and r() < 0.4) else int(rng.integers(lo, hi))
    norep = bool(r() < 0.3)
    npopreal = int(rng.choice([1, 2, 3], p=[0.3, 0.45, 0.25]))
    npop = npopreal + 1
    # columns for the model's populations
    def high():
        m = r()
        if m < 0.25:
            return int(rng.choice([bound, bound + 1, nref - 1, nref - 2]))
        if m < 0.85 or wclass == "w128":
            return int(rng.integers(bound, nref))
        if wclass == "w256":
            return int(rng.integers(128, 256))            # narrowed to int8 it is a negative index
        return int(rng.integers(32768, 65536))            # narrowed to int16 it is a negative index
    owner = {}
    per = 2 if norep else 1
    for p_ in range(1, npop):
        want = per + int(rng.integers(0, 3))
        tries = 0
        while sum(1 for v in owner.values() if v == p_) < want and tries < 40:
            tries += 1
            s_ = max(0, min(nref - 1, high()))
            if s_ in owner:
                continue
            mine = {x for x, v in owner.items() if v == p_}
            if narrow_images(s_, nref) & mine or any(s_ in narrow_images(x, nref) for x in mine):
                continue        # a narrowed index must never land on a sample of the same population
            owner[s_] = p_
    info = [[s_, p_] for s_, p_ in owner.items()]
    # what the narrowed indices hit, and some more low columns
    images = set()
    for s_ in list(owner):
        images |= narrow_images(s_, nref)
    low = images | {int(x) for x in rng.integers(0, min(bound, nref), size=4)}
    for x in sorted(low - set(owner)):
        m = r()
        if m < 0.55 or (x not in images and m < 0.8):
            info.append([x, npop])                          # an unused population
        elif m < 0.8 and npopreal >= 2:
            cand = [q for q in range(1, npop)
                    if not any(x in narrow_images(s_, nref) or s_ in narrow_images(x, nref)
                               for s_, v in owner.items() if v == q)]
            if cand:
                q = int(rng.choice(cand))
                owner[x] = q
                info.append([x, q])                         # another population of the model
        # else: not listed at all
    info = [info[i] for i in rng.permutation(len(info))]
    pool = [1, 2, 3, 10, 22, 23]
    nchr = int(rng.integers(1, 3))
    panel_chroms = sorted(int(c) for c in rng.choice(pool, size=nchr, replace=False))
    chroms = panel_chroms if r() < 0.7 else [int(rng.choice(panel_chroms))]
    prefix = r() < 0.3
    grid = [5, 10, 11, 20, 21, 30, 40, 41, 50, 60, 99, 100, 101, 150, 200]
    vars_, per_chrom_pos, formula = [], {}, []
    for c in panel_chroms:
        pos = sorted(set(int(x) for x in rng.choice(grid, size=int(rng.integers(1, 4)))))
        per_chrom_pos[c] = pos
        for p_ in pos:
            vars_.append([bool(prefix), c, p_])
            a = int(rng.choice(PRIMES))
            formula.append([int(rng.integers(1, a)), int(rng.integers(0, a)), a])
    nsamp = int(rng.integers(1, 3))
    bps = gen_bps(rng, nsamp, chroms, pool, per_chrom_pos, grid, npop)
    return {
        "chroms": chroms, "npop": npop, "info": info,
        "ref": {"nref": nref, "vars": vars_, "nalleles": [f[2] for f in formula], "formula": formula,
                "fmt": str(rng.choice(["vcf.gz", "bcf", "pgen"], p=[0.5, 0.3, 0.2]))},
        "bps": bps, "region": None, "pop_field": bool(r() < 0.5), "sample_field": bool(r() < 0.5),
        "norep": norep, "out": str(rng.choice(["vcf.gz", "vcf", "bcf"])), "seed": int(rng.integers(1, 2**31 - 1)),
        "kind": "wellformed", "wide": wclass,
    }


BIG_GRID = [254, 255, 256, 257, 32766, 32767, 32768, 32769, 65534, 65535, 65536, 65537,
            16777215, 16777216, 16777217, 536870910, 536870911]          # 2^29-1: the last position a .tbi can index
BIG_GRID_CSI = [536870912, 2147483645, 2147483646]                      # BCF+CSI and .pvar reach 2^31-2


def small_formula_panel(rng, nv, nref):
    formula = []
    for _ in range(nv):
        a = int(rng.choice(PRIMES))
        formula.append([int(rng.integers(1, a)), int(rng.integers(0, a)), a])
    return formula


def gen_boundary_case(rng, tier="quick", which="many-variants"):
    """Width-boundary stream: quantities the code keeps in numpy arrays, around the limits of 8/16/24/29/31-bit integers.
      many-variants : 254..300 variants on one chromosome (optionally after another chromosome, so that the rows of the
                      chromosome start beyond row 255), block ends at the variants number 254..257
      many-blocks   : 254..300 tracts on one chromosome of one simulated haplotype, variants in the blocks number 253..257
                      and in the last one
      big-positions : variant positions and block ends around 2^8, 2^15, 2^16, 2^24, 2^29 and (BCF / PGEN panels) 2^31-2
      many-samples  : 127..130 simulated samples (254..260 simulated haplotypes)"""
    r = rng.random
    npopreal = int(rng.choice([1, 2, 3]))
    npop = npopreal + 1
    nref = int(rng.integers(max(2, npopreal), 6))
    perm = [int(x) for x in rng.permutation(nref)]
    info = [[s_, (i % npopreal) + 1 if i < npopreal or r() < 0.7 else npop] for i, s_ in enumerate(perm)]
    fmt = str(rng.choice(["vcf.gz", "bcf", "pgen"]))
    out = str(rng.choice(["vcf.gz", "vcf", "bcf"]))
    prefix = bool(r() < 0.2)
    nsamp = 1
    if which == "many-variants":
        nv = int(rng.choice([254, 255, 256, 257, 258, int(rng.integers(259, 301))]))
        start, step = int(rng.integers(1, 50)), int(rng.integers(1, 4))
        pos = [start + step * i for i in range(nv)]
        c = int(rng.choice([2, 3, 10]))
        lead = [[prefix, 1, int(p_)] for p_ in sorted(set(int(x) for x in rng.choice([5, 10, 20, 30], size=int(rng.integers(0, 4)))))]
        vars_ = lead + [[prefix, c, p_] for p_ in pos]
        chroms = [1, c] if lead and r() < 0.7 else [c]
        bps = []
        for _ in range(2):
            hap = []
            if 1 in chroms:
                hap.append([int(rng.integers(1, npop)), 1, MAXI, 0])
            k = int(rng.integers(0, 4))
            idx = sorted(set(int(x) for x in rng.choice([253, 254, 255, 256, nv - 2], size=k))) if k else []
            ends = sorted(set(min(pos[min(i, nv - 1)] + int(rng.integers(-1, 2)), pos[-1] + 5) for i in idx))
            for e in [e for e in ends if e > 0] + [MAXI]:
                hap.append([int(rng.integers(1, npop)), c, int(e), 0])
            bps.append(hap)
    elif which == "many-blocks":
        nb = int(rng.choice([254, 255, 256, 257, 258, int(rng.integers(259, 301))]))
        c = int(rng.choice([1, 2, 10]))
        pos = sorted(set([int(x) for x in rng.choice([1, 5, 100, 253, 254, 255, 256, 257, 258, 299, 300, 301, 400], size=5)]))
        vars_ = [[prefix, c, p_] for p_ in pos]
        chroms = [c]
        bps = []
        for h in range(2):
            n = nb if (h == 0 or r() < 0.5) else int(rng.integers(1, 4))
            ends = list(range(1, n)) + [MAXI]               # tract number k (from 0) covers position k+1
            bps.append([[int(rng.integers(1, npop)), c, int(e), 0] for e in ends])
    elif which == "many-samples":
        nsamp = int(rng.choice([127, 128, 129, 130]))       # 254..260 simulated haplotypes
        c = int(rng.choice([1, 2, 10]))
        pos = sorted(set(int(x) for x in rng.choice([5, 10, 20, 30], size=2)))
        vars_ = [[prefix, c, p_] for p_ in pos]
        chroms = [c]
        bps = gen_bps(rng, nsamp, chroms, [c], {c: pos}, [5, 10, 11, 20, 21, 30], npop, maxblocks=2)
    else:
        grid = BIG_GRID + (BIG_GRID_CSI if fmt != "vcf.gz" else [])
        if fmt == "bcf" and r() < 0.3:
            grid = grid + [MAXI]                            # a variant on the sentinel itself
        c = int(rng.choice([1, 2, 23]))
        pos = sorted(set(int(x) for x in rng.choice(grid, size=int(rng.integers(2, 7)))))
        vars_ = [[prefix, c, p_] for p_ in pos]
        chroms = [c]
        bps = gen_bps(rng, nsamp, chroms, [c], {c: pos}, grid, npop, maxblocks=5)
        bps = [[t for t in hap if t[2] <= MAXI] for hap in bps]
        for hap in bps:                                     # ends must stay <= 2^31-1 and ascending
            if not hap or hap[-1][2] != MAXI:
                hap.append([int(rng.integers(1, npop)), c, MAXI, 0])
    formula = small_formula_panel(rng, len(vars_), nref)
    return {
        "chroms": chroms, "npop": npop, "info": info,
        "ref": {"nref": nref, "vars": vars_, "nalleles": [f[2] for f in formula], "formula": formula, "fmt": fmt},
        "bps": bps, "region": None, "pop_field": bool(r() < 0.6), "sample_field": bool(r() < 0.6),
        "norep": bool(which not in ("many-blocks", "many-samples") and r() < 0.25), "out": out, "seed": int(rng.integers(1, 2**31 - 1)),
        "kind": "wellformed", "boundary": which,
    }


def drop_vars(ref, idx):
    """the panel without the variants number idx"""
    idx = set(idx)
    keep = [i for i in range(len(ref["vars"])) if i not in idx]
    out = dict(ref, vars=[ref["vars"][i] for i in keep], nalleles=[ref["nalleles"][i] for i in keep])
    if "formula" in ref:
        out["formula"] = [ref["formula"][i] for i in keep]
    else:
        out["data"] = [[row[i] for i in keep] for row in ref["data"]]
    return out


def covered(inp):
    """every requested chromosome of every simulated haplotype reaches the last variant position read"""
    for hap in inp["bps"]:
        for c in inp["chroms"]:
            ends = [t[2] for t in hap if t[1] == c]
            pos = [v[2] for v in inp["ref"]["vars"] if v[1] == c]
            if pos and (not ends or max(ends) < max(pos)):
                return False
    return True


class Vcf(Relation):
    name = "vcf"
    coq_module = "C03_Check"
    coq_check = "check_vcf"
    coq_case_type = "ocase"
    coq_model = "model_vcf"
    coq_imports = ["Tracts", "C01_Model", "C14_Model", "C03_Model"]
    budget = {"quick": 400, "thorough": 5000}
    max_cases_per_shard = 40
    timeout_per_case = 120
    anchors = [
        ("haptools/sim_genotype.py", "output_vcf"),
        ("haptools/sim_genotype.py", "_convert_haplotype"),
        ("haptools/sim_genotype.py", "_find_random_sample"),
        ("haptools/sim_genotype.py", "_find_coord"),
        ("haptools/transform.py", "GenotypesAncestry.write"),
    ]

    def generate(self, rng, n, tier):
        out = []
        while len(out) < n:
            c = gen_case(rng, tier)
            if not covered(c):
                # a haplotype whose last tract ends before the last variant leaves np.empty cells: the
                # breakpoints give those positions no label (outside the property); keep a few as
                # agreement-only cases
                # (observed content is uninitialised memory, not reproducible): not generated
                continue
            out.append(c)
        # rare classes: wide panels (the reference sample's column does not fit 8 / 16 bits) and the width-boundary
        # stream (numbers of variants / tracts around 255|256, positions around 2^8 .. 2^31)
        k = max(1, n // 100)
        extra = [gen_wide_case(rng, tier, "w256", nref=300)]
        extra += [gen_wide_case(rng, tier, "w256") for _ in range(2 * k)]
        extra += [gen_wide_case(rng, tier, "w128") for _ in range(k)]
        extra += [gen_wide_case(rng, tier, "w65536") for _ in range(max(1, k // 4) if tier == "thorough" else 1)]
        for which in ("many-variants", "many-blocks", "big-positions"):
            extra += [gen_boundary_case(rng, tier, which) for _ in range(max(1, k // 2))]
        extra += [gen_boundary_case(rng, tier, "many-samples") for _ in range(max(1, k // 8))]
        out += [c for c in extra if covered(c)]
        return out

    def run_impl(self, inp):
        return run_output_vcf(inp)

    def encode(self, inp, obs):
        draws = obs.get("draws") if isinstance(obs, dict) else None
        if not draws:
            draws = {"choice": [], "strand": [], "shuffle": [], "ok": False}
        return f"(mko {config_term(inp, draws)} {obs_term(inp, obs)})"

    @staticmethod
    def _extra_chroms(inp):
        pc = list(dict.fromkeys(v[1] for v in inp["ref"]["vars"]))
        req = [c for c in pc if c in inp["chroms"]]
        return len(pc) > len(req) or req != sorted(req)

    @staticmethod
    def _multi_block(inp):
        for hap in inp["bps"]:
            for c in inp["chroms"]:
                ends = [t[2] for t in hap if t[1] == c]
                pos = [v[2] for v in inp["ref"]["vars"] if v[1] == c]
                used = set()
                for p in pos:
                    for i, e in enumerate(ends):
                        if p <= e:
                            used.add(i)
                            break
                if len(used) >= 2:
                    return True
        return False

    def nontrivial(self, inp, obs):
        return inp["kind"] == "wellformed" and (
            self._multi_block(inp) or self._extra_chroms(inp) or (inp["pop_field"] and inp["sample_field"])
            or bool(inp.get("wide")))

    def classes(self, inp, obs):
        out = [inp["kind"], "ref=" + inp["ref"]["fmt"], "out=" + inp["out"],
               f"flags=pop{int(inp['pop_field'])}sample{int(inp['sample_field'])}",
               "norep" if inp["norep"] else "replacement"]
        if inp["ref"]["vars"] and inp["ref"]["vars"][0][0]:
            out.append("chr-prefix")
        if inp["region"]:
            out.append("region")
        if self._extra_chroms(inp):
            out.append("panel-has-other-chroms-or-order")
        if self._multi_block(inp):
            out.append("several-blocks-with-variants")
        ends = {(t[1], t[2]) for hap in inp["bps"] for t in hap}
        if any((v[1], v[2]) in ends for v in inp["ref"]["vars"]):
            out.append("variant-on-block-end")
        if max(inp["ref"]["nalleles"] + [2]) > 2:
            out.append("identifiable-panel")
        if inp.get("wide"):
            out.append("wide-panel-" + inp["wide"])
            if inp["ref"]["nref"] == 300:
                out.append("wide-panel-300-samples")
            top = max([s_ for s_, p_ in inp["info"] if p_ < inp["npop"]] + [0])
            out.append("model-population-sample-in-column>=%d" % (65536 if top >= 65536 else 256 if top >= 256 else 128 if top >= 128 else 0))
        if inp.get("boundary"):
            out.append("boundary-" + inp["boundary"])
            nvc = max([sum(1 for v in inp["ref"]["vars"] if v[1] == c) for c in inp["chroms"]] + [0])
            nbk = max([sum(1 for t in hap if t[1] == c) for hap in inp["bps"] for c in inp["chroms"]] + [0])
            if nvc > 255:
                out.append("more-than-255-variants-on-a-chromosome")
            if nbk > 255:
                out.append("more-than-255-tracts-on-a-chromosome")
            if len(inp["bps"]) > 255:
                out.append("more-than-255-simulated-haplotypes")
            if any(v[2] > 65535 for v in inp["ref"]["vars"]):
                out.append("position>=2^16")
            if any(v[2] >= 2**29 for v in inp["ref"]["vars"]):
                out.append("position>=2^29")
        if isinstance(obs, dict) and "failed" in obs:
            out.append(f"raised-{obs['failed'].get('cls')}")
        return out

    def shrink(self, inp):
        bps = inp["bps"]
        if len(bps) > 2:
            for s in range(len(bps) // 2):
                yield dict(inp, bps=bps[:2 * s] + bps[2 * s + 2:])
        for h, hap in enumerate(bps):
            if len(hap) > 24:       # halves first (boundary cases hold hundreds of tracts); the last tract stays
                m = (len(hap) - 1) // 2
                yield dict(inp, bps=bps[:h] + [hap[m:]] + bps[h + 1:])
                yield dict(inp, bps=bps[:h] + [hap[:m] + hap[-1:]] + bps[h + 1:])
                continue
            for j in range(len(hap)):
                if sum(1 for t in hap if t[1] == hap[j][1]) > 1 and hap[j][2] != MAXI:
                    yield dict(inp, bps=bps[:h] + [hap[:j] + hap[j + 1:]] + bps[h + 1:])
        ref = inp["ref"]
        nvars = len(ref["vars"])
        if nvars > 24:      # halves first (boundary cases hold hundreds of variants)
            for a, b in ((nvars // 2, nvars), (0, nvars // 2)):
                yield dict(inp, ref=drop_vars(ref, range(a, b)))
        for vi in range(nvars if nvars <= 24 else 0):
            if nvars > 1:
                yield dict(inp, ref=drop_vars(ref, [vi]))
        if inp["region"]:
            yield dict(inp, region=None)
        if inp["norep"]:
            yield dict(inp, norep=False)
        for f in ("pop_field", "sample_field"):
            if inp[f]:
                yield dict(inp, **{f: False})
        if inp["out"] != "vcf":
            yield dict(inp, out="vcf")
        if ref["fmt"] != "vcf.gz":
            yield dict(inp, ref=dict(ref, fmt="vcf.gz"))
        if len(inp["chroms"]) > 1:
            for j in range(len(inp["chroms"])):
                yield dict(inp, chroms=inp["chroms"][:j] + inp["chroms"][j + 1:])
        if inp.get("wide") or inp.get("boundary"):
            # tracts of chromosomes that are not requested; sample-info lines; the panel's unused right-hand columns
            for h, hap in enumerate(bps):
                rest = [t for t in hap if t[1] in inp["chroms"]]
                if len(rest) < len(hap):
                    yield dict(inp, bps=bps[:h] + [rest] + bps[h + 1:])
            info = inp["info"]
            for j in range(len(info) if len(info) > 1 else 0):
                yield dict(inp, info=info[:j] + info[j + 1:])
            top = max([s_ for s_, _p in info] + [1]) + 1
            if top < ref["nref"]:
                yield dict(inp, ref=dict(ref, nref=top))

    def mutate(self, inp, rng):
        for _ in range(4):
            yield dict(inp, seed=int(rng.integers(1, 2**31 - 1)))
        for f in ("pop_field", "sample_field", "norep"):
            yield dict(inp, **{f: not inp[f]})
        if len(inp["chroms"]) > 1:
            for j in range(len(inp["chroms"])):
                yield dict(inp, chroms=inp["chroms"][:j] + inp["chroms"][j + 1:])

    def signature(self, inp, obs):
        if not isinstance(obs, dict) or "out" not in obs:
            return "vcf output_vcf did not complete / not observed"
        o = obs["out"]
        n = len(inp["bps"])
        parts = []
        if inp["out"] != "pgen":
            if inp["pop_field"] and o["pop"] is None:
                parts.append("POP requested but not written")
            if inp["sample_field"] and o["smp"] is None:
                parts.append("SAMPLE requested but not written" + (" (POP also requested)" if inp["pop_field"] else ""))
        want = [i for i, v in enumerate(inp["ref"]["vars"]) if v[1] in inp["chroms"]
                and (not inp["region"] or inp["region"][1] <= v[2] <= inp["region"][2])]
        if o["vars"] != want:
            parts.append("written records differ from the reference's records on the requested chromosomes"
                         + (" (panel holds other chromosomes / another order)" if self._extra_chroms(inp) else ""))
        if len(o["gt"]) != n:
            parts.append("number of simulated samples")
        if not parts:
            parts.append("an allele / POP / SAMPLE cell not explained by one reference haplotype of the block's population"
                         + (" (panel holds other chromosomes / another order)" if self._extra_chroms(inp) else ""))
        return "vcf " + "; ".join(parts)


class Assign(Relation):
    name = "assign"
    coq_module = "C03_Check"
    coq_check = "check_assign"
    coq_case_type = "acase"
    coq_model = "model_assign"
    coq_imports = ["Tracts", "C01_Model", "C14_Model", "C03_Model"]
    budget = {"quick": 1500, "thorough": 20000}
    anchors = [("haptools/sim_genotype.py", "output_vcf")]

    def generate(self, rng, n, tier):
        out = []
        grid = np.arange(0, 14)
        for _ in range(n):
            npos = int(rng.integers(0, 8))
            pos = sorted(int(x) for x in rng.choice(grid, size=npos))
            if rng.random() < 0.7:
                pos = sorted(set(pos))
            ne = int(rng.integers(0, 5))
            ends = sorted(set(int(x) for x in rng.choice(grid, size=ne)))
            kind = "wellformed"
            m = rng.random()
            if m < 0.75:
                ends.append(MAXI if rng.random() < 0.5 else max(pos + ends + [0]) + int(rng.integers(0, 2)))
            elif m < 0.85 and len(ends) >= 2:
                ends = [int(x) for x in rng.permutation(ends)]
                kind = "unsorted-ends"
            else:
                kind = "short-last-end"
            out.append({"pos": pos, "ends": ends, "kind": kind})
        # width-boundary stream: 254..258 positions / ends, values around 2^8, 2^15, 2^16, 2^31, 2^32
        for _ in range(max(2, n // 300)):
            npos = int(rng.choice([254, 255, 256, 257, 258]))
            start = int(rng.choice([0, 200, 32700, 65500, 2**31 - 300, 2**32 - 130]))
            pos = sorted(start + int(x) for x in rng.choice(400, size=npos))
            if rng.random() < 0.5:
                ends = sorted(set(int(x) for x in rng.choice(pos, size=int(rng.integers(1, 5))))) + [max(pos) + 1]
                kind = "boundary-many-positions"
            else:
                ends = sorted(set(start + int(x) for x in rng.choice(400, size=int(rng.choice([254, 255, 256, 257, 258]))))) + [start + 400]
                kind = "boundary-many-ends"
            out.append({"pos": pos, "ends": ends, "kind": kind})
        return out

    def exhaustive(self, tier):
        import itertools

        out = []
        pts = [1, 2, 3, 4]
        for npos in range(0, 4):
            for pos in itertools.combinations_with_replacement(pts, npos):
                for ne in range(0, 4):
                    for ends in itertools.combinations(pts + [5], ne):
                        out.append({"pos": list(pos), "ends": list(ends), "kind": "exhaustive"})
        return out

    def run_impl(self, inp):
        # the statements of output_vcf between _convert_haplotype and the indexing of vcf.data
        pos = np.asarray(inp["pos"], dtype=np.int64)
        ends = np.asarray(inp["ends"], dtype=np.int64)
        try:
            bkp_pos = np.searchsorted(pos, ends, side="right")
            inter_len = np.diff(np.insert(bkp_pos, 0, 0))
            idx = np.repeat(np.arange(len(ends), dtype=np.int32), inter_len)
            return {"ok": [int(x) for x in idx]}
        except Exception as e:  # noqa
            return {"err": err_kind(e)}

    def encode(self, inp, obs):
        if "ok" not in obs and "err" not in obs:
            obs = {"err": obs.get("kind", 99)}
        return f"(mka {L.zl(inp['pos'])} {L.zl(inp['ends'])} {L.res(obs, L.zl)})"

    def nontrivial(self, inp, obs):
        return any(p in inp["ends"] for p in inp["pos"])

    def classes(self, inp, obs):
        out = [inp["kind"]]
        if any(p in inp["ends"] for p in inp["pos"]):
            out.append("position-on-block-end")
        if inp["ends"] and inp["pos"] and max(inp["pos"]) > max(inp["ends"]):
            out.append("position-past-last-end")
        if "err" in obs:
            out.append(f"err{obs['err']}")
        return out

    def shrink(self, inp):
        for k in ("pos", "ends"):
            for j in range(len(inp[k])):
                yield dict(inp, **{k: inp[k][:j] + inp[k][j + 1:]})

    def signature(self, inp, obs):
        return "assign searchsorted/diff/repeat differs from first block whose end >= position"



# ---- end to end: simulate_gt -> write_breakpoints -> output_vcf -------------------------------


def gen_sim_case(rng, tier="quick", base=None):
    """A panel / sample-info / flag configuration as for the vcf relation, with genetic maps instead of
    hand-built breakpoints: one map file per requested chromosome whose markers lie on the grid of the
    variant positions and whose LAST marker lies - independently for every chromosome, hence for the
    first, a middle and the last one - well below, exactly on, or above the chromosome's variants."""
    while base is None:
        c = gen_case(rng, tier)
        if c["kind"] == "wellformed":
            break
    if base is not None:
        c = base        # a wide panel (gen_wide_case): the same chain with the reference samples in high columns
    r = rng.random
    grid = [5, 10, 11, 20, 21, 30, 40, 41, 50, 60, 99, 100, 101, 150, 200]
    maps, past = {}, []
    for ch in c["chroms"]:
        pos = sorted(v[2] for v in c["ref"]["vars"] if v[1] == ch)
        mode = r()
        if mode < 0.6:
            top = pos[-1] - 1 if r() < 0.5 else pos[0] - 1        # below the last / below every variant
            cand = [g for g in [1, 2, 3, 4] + grid if g <= top] or [1, 2]
        elif mode < 0.8:
            cand = [g for g in [1, 2, 3, 4] + grid if g < pos[-1]] + [pos[-1]]    # last marker on the last variant
        else:
            cand = [1, 2, 3, 4] + grid + [250, 1000]
        nm = int(rng.integers(1, 6))
        ms = sorted(set(int(x) for x in rng.choice(cand, size=min(nm, len(cand)), replace=False)))
        if mode >= 0.6 and mode < 0.8 and pos[-1] not in ms:
            ms = sorted(set(ms + [pos[-1]]))
        cm, rows = 0.0, []
        for bp in ms:
            rows.append([chrom_str(ch), round(cm, 6), bp])
            cm += float(rng.choice([20, 80, 300]))
        maps[chrom_str(ch)] = rows
        past.append(pos[-1] > ms[-1])
    K = c["npop"] - 1
    G = int(rng.integers(1, 4))
    lines, g = [], 0
    for gi in range(G):
        g += int(rng.integers(1, 3))
        adm = 0.0 if gi == 0 else float(rng.choice([0, 0.5, 1]))
        rest = 1 - adm
        w = rng.dirichlet(np.ones(K))
        if K > 1 and r() < 0.3:
            w[int(rng.integers(0, K))] = 0
            w = w / w.sum() if w.sum() > 0 else np.ones(K) / K
        fr = [round(rest * float(x), 4) for x in w]
        fr[-1] = round(rest - sum(fr[:-1]), 4)
        if fr[-1] < 0:
            fr = [rest / K] * K
        lines.append([g, adm] + fr)
    nsamp = len(c["bps"]) // 2
    c.update({"maps": maps, "model": lines, "nsamp": nsamp, "popsize": int(max(2 * nsamp, rng.choice([2, 4, 6, 10]))),
              "simseed": int(rng.integers(1, 2**31 - 1)), "bps": [], "kind": "simulated", "past": past})
    return c


def parse_bp_file(path, pops):
    haps = []
    with open(path) as f:
        for line in f:
            t = line.rstrip("\n").split("\t")
            if len(t) == 1:
                haps.append([])
            else:
                haps[-1].append([pops.index(t[0]), 23 if t[1] == "X" else int(t[1]), int(t[2]), 0])
    return haps


def run_sim_vcf(inp):
    """simulate_gt -> write_breakpoints -> output_vcf as the simgenotype command chains them."""
    from haptools.logging import getLogger
    import haptools.sim_genotype as sg

    d = tempfile.mkdtemp(prefix="hv_c03s_")
    rec = None
    try:
        panel, recs = write_panel(inp, d)
        pops = pops_of(inp)
        mapdir = os.path.join(d, "maps")
        os.mkdir(mapdir)
        for c, rows in inp["maps"].items():
            with open(os.path.join(mapdir, f"g.chr{c}.map"), "w") as f:
                for row in rows:
                    f.write(f"{row[0]}\t.\t{row[1]:.6f}\t{row[2]}\n")
        model = os.path.join(d, "model.dat")
        with open(model, "w") as f:
            f.write(f"{inp['nsamp']}\t" + "\t".join(pops) + "\n")
            for ln in inp["model"]:
                f.write("\t".join(str(x) for x in ln) + "\n")
        info = os.path.join(d, "info.tab")
        with open(info, "w") as f:
            for s, p in inp["info"]:
                f.write(f"{info_name(s)}\t{pops[p] if p < len(pops) else 'OTHER%d' % p}\n")
        out = os.path.join(d, "out." + inp["out"])
        region = None
        if inp.get("region"):
            g = inp["region"]
            region = {"chr": chrom_str(g[0]), "start": int(g[1]), "end": int(g[2])}
        log = getLogger("hv", "CRITICAL")
        chroms = [chrom_str(c) for c in inp["chroms"]]
        try:
            ns, pop_dict, gen = sg.simulate_gt(model, mapdir, chroms, region, inp["popsize"], log, inp["simseed"])
            bkp = sg.write_breakpoints(ns, pop_dict, gen, os.path.join(d, "out"), log)
            bps = parse_bp_file(os.path.join(d, "out.bp"), pops)
        except Exception as e:  # noqa
            return {"failed": {"err": err_kind(e), "cls": type(e).__name__, "msg": str(e)[:200]}, "stage": "simulate"}
        rec = DrawRecorder()
        try:
            try:
                sg.output_vcf(bkp, chroms, model, panel, info, region,
                              bool(inp["pop_field"]), bool(inp["sample_field"]), bool(inp["norep"]), out, log)
                err = None
            except Exception as e:  # noqa
                err = {"err": err_kind(e), "cls": type(e).__name__, "msg": str(e)[:200]}
        finally:
            rec.close()
        smap = {f"R{i}": i for i in range(inp["ref"]["nref"])}
        draws = {
            "choice": rec.choice,
            "strand": rec.strand,
            "shuffle": [[smap.get(x, -int(x[6:]) if x.startswith("absent") else -99) for x in l] for l in rec.shuffle],
            "ok": rec.ok,
        }
        if err is not None:
            return {"failed": err, "draws": draws, "bps": bps}
        o = read_output(out, dict(inp, bps=bps), recs, pops)
        return {"out": o, "draws": draws, "bps": bps}
    finally:
        if rec is not None:
            rec.close()
        shutil.rmtree(d, ignore_errors=True)


class Sim(Vcf):
    """The whole command: the breakpoints come from simulate_gt / write_breakpoints on generated genetic maps
    (read back from the .bp file written), the genotypes from output_vcf on those breakpoints.  holds adds to the
    vcf relation's checker the clause of the property that only simulated breakpoints give a meaning to:
    a variant past the chromosome's last block end belongs to the chromosome's LAST block."""

    name = "sim"
    coq_module = "C03_SimCheck"
    coq_check = "check_sim"
    coq_case_type = "C03_Check.ocase"
    coq_model = "model_sim"
    coq_imports = ["Tracts", "C01_Model", "C14_Model", "C03_Model", "C03_Check"]
    budget = {"quick": 150, "thorough": 3000}
    # (_prepare_coords, simulate_gt and write_breakpoints belong here too; they are C02's anchors in anchors.json,
    # which only the integrator edits - an anchor missing there would escalate every run)
    anchors = Vcf.anchors

    def generate(self, rng, n, tier):
        out = [gen_sim_case(rng, tier) for _ in range(n)]
        k = max(1, n // 75)
        out += [gen_sim_case(rng, tier, base=gen_wide_case(rng, tier, "w256")) for _ in range(2 * k)]
        out += [gen_sim_case(rng, tier, base=gen_wide_case(rng, tier, "w128")) for _ in range(k)]
        return out

    def run_impl(self, inp):
        return run_sim_vcf(inp)

    def encode(self, inp, obs):
        if isinstance(obs, dict) and "bps" in obs:
            inp = dict(inp, bps=obs["bps"])
        return super().encode(inp, obs)

    @staticmethod
    def _past(inp):
        """per requested chromosome: does a reference variant lie past the last map coordinate"""
        out = []
        for c in inp["chroms"]:
            pos = [v[2] for v in inp["ref"]["vars"] if v[1] == c]
            ms = [row[2] for row in inp["maps"].get(chrom_str(c), [])]
            out.append(bool(pos and ms and max(pos) > ms[-1]))
        return out

    def nontrivial(self, inp, obs):
        return isinstance(obs, dict) and "out" in obs and (any(self._past(inp)) or super().nontrivial(dict(inp, bps=obs["bps"]), obs))

    def classes(self, inp, obs):
        full = dict(inp, bps=obs["bps"]) if isinstance(obs, dict) and "bps" in obs else inp
        out = [x for x in super().classes(full, obs) if x != "simulated"]
        past = self._past(inp)
        n = len(past)
        out.append(f"chroms={n}")
        for i, p in enumerate(past):
            if p:
                where = "only" if n == 1 else "first" if i == 0 else "last" if i == n - 1 else "middle"
                out.append(f"variant-past-last-map-coordinate-on-{where}-chromosome")
        if isinstance(obs, dict) and obs.get("stage") == "simulate":
            out.append("simulation-failed")
        return out

    def shrink(self, inp):
        if len(inp["model"]) > 1:
            yield dict(inp, model=inp["model"][:-1])
        if inp["popsize"] > 2 * inp["nsamp"]:
            yield dict(inp, popsize=2 * inp["nsamp"])
        if len(inp["chroms"]) > 1 and not inp["region"]:
            for j in range(len(inp["chroms"])):
                ch = inp["chroms"][:j] + inp["chroms"][j + 1:]
                yield dict(inp, chroms=ch, maps={chrom_str(c): inp["maps"][chrom_str(c)] for c in ch})
        for c, rows in inp["maps"].items():
            if len(rows) > 1:
                for j in range(len(rows)):
                    yield dict(inp, maps=dict(inp["maps"], **{c: rows[:j] + rows[j + 1:]}))
        ref = inp["ref"]
        for vi in range(len(ref["vars"])):
            if sum(1 for v in ref["vars"] if v[1] == ref["vars"][vi][1]) > 1:
                yield dict(inp, ref=drop_vars(ref, [vi]))
        if inp["norep"]:
            yield dict(inp, norep=False)
        if inp["out"] != "vcf":
            yield dict(inp, out="vcf")
        if ref["fmt"] != "vcf.gz":
            yield dict(inp, ref=dict(ref, fmt="vcf.gz"))
        for s in (1, 2, 3):
            yield dict(inp, simseed=s)

    def mutate(self, inp, rng):
        for _ in range(4):
            yield dict(inp, simseed=int(rng.integers(1, 2**31 - 1)))
        for f in ("pop_field", "sample_field"):
            yield dict(inp, **{f: not inp[f]})

    def signature(self, inp, obs):
        if not isinstance(obs, dict) or "out" not in obs:
            return "sim simgenotype pipeline did not complete / not observed"
        past = any(self._past(inp))
        return ("sim " + super().signature(dict(inp, bps=obs["bps"]), obs)[4:]
                + (" (reference variants past the last map coordinate)" if past else ""))


RELATIONS = [Vcf(), Assign(), Sim()]

LEVEL_TEXT = (
    "Coq theorems over all variant-position lists, tract layouts, panels and draw streams (no size bound) about a Gallina "
    "model of output_vcf/_convert_haplotype; the model is tied to /repo on every run by evaluating, inside Coq, "
    "model-vs-implementation agreement (under the recorded numpy draws) and the property's finite checker on the files "
    "output_vcf wrote for generated breakpoints x panels x flags x formats, read back with pysam/pgenlib. The end-to-end relation "
    "runs simulate_gt -> write_breakpoints -> output_vcf on generated maps ending below the reference variants on every "
    "chromosome; theorems: sorted breakpoints closed by the sentinel cover every position (C03_sentinel_covers, the hypothesis of "
    "C03_no_uninitialised), a variant past every other end falls in the last block, C03_output_allele_label_at / "
    "C03_output_allele_simulated - the property as ONE statement about every output cell in the breakpoints' own vocabulary "
    "(label_at; one reference haplotype per block; POP/SAMPLE; never uninitialised) - and C03_pop_is_population_array: the POP "
    "rows written are what C05's model of Breakpoints.population_array returns for those breakpoints."
)
LEVEL_NOTE = (
    "Trusted: Coq kernel/vm_compute; the hand-written model (validated only differentially); recorded numpy draws are "
    "inputs; htslib/pgenlib (panel writers, output readers) and haptools' own Genotypes readers/writers (C07/C08) are "
    "outside the model: the model starts at the variants/genotypes read and ends at the arrays handed to the writer, "
    "the correspondence run covers the files. Region semantics are modelled for single-base REF only."
)
TECHNIQUE = "Coq proof by induction on position/tract lists + vm_compute-evaluated correspondence against the implementation"
