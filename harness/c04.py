"""C04 - transform reports a haplotype exactly where all its alleles (and ancestry) match.

Relations
  api  : Haplotype.transform / Haplotypes.transform / HaplotypeAncestry.transform /
         HaplotypesAncestry.transform called on ONE genotypes object and ONE haplotype set (built in memory
         or read from a written .hap file) before and after every step of an operation sequence
         (Haplotypes.sort, Haplotype.sort, Haplotypes.subset in place / as a new object, Haplotypes.read again):
         after every step the single-haplotype answers and the whole-set answer are compared with the
         cell-by-cell specification (hence with each other) and with the model of the sequence
  file : transform_haps (directly or through the `haptools transform` CLI) on written
         VCF.gz(+tbi) / plain un-indexed VCF / PGEN inputs whose records are position-sorted, interleave the
         chromosomes (1,2,1,2,...), are shuffled or descending; .hap(.gz+tbi) files; POP fields AND a .bp file
         (samples permuted) for the same logical data; --id / --sample / --region subsets; the written
         VCF / PGEN is read back with pysam / pgenlib.  The runs of one input (POP source, .bp source, VCF /
         PGEN input and output) must give equal answers.  30% of the cases also carry what else the command takes:
         missing calls ('.|.', '.|1') with and without --discard-missing, calls written unphased, --maf, --chunk-size.
         The .hap file read in full comes in seven line layouts: three keep a haplotype's V lines together, four
         interleave the V lines of DIFFERENT haplotypes (round-robin, a haplotype's V lines in two runs around the
         others', V lines before and after the H lines, any order-preserving merge of the H/R sequence and the
         per-haplotype V sequences); the api relation reads the same layouts.  45% of the file cases name their files:
         stems and directories with dots (cohort.chr1, x.vcf, .hidden, a..b, d.v1/, a.b/c.d/), suffixes .vcf / .vcf.gz /
         .bcf / .VCF / .pgen, another data set's .bp under the names wrong derivations of the .bp path would pick
         (cohort.bp beside cohort.chr1.bp, d.bp beside d.v1/), stale POP fields beside the right .bp; agree also compares
         the .bp paths the run probed / opened with C04_ModelIO.bp_path_of, character by character.
  Both relations end with a width-boundary stream (np.uint8 cells / ancestry codes, np.int16 / np.uintc index arrays):
  254-257 ancestry labels, allele indices 127|128|200|253, 255-300 haplotypes, 255-257 variants per haplotype,
  255-257 samples.
"""
import os
import shutil
import tempfile

import numpy as np

from . import coqlit as L
from .core import Relation, err_kind

PROP = "C04"
CLAIMED = True
COQ_MODULES = ["C04_Check", "C04_CheckSeq", "C04_Proofs", "C04_ProofsSet", "C04_ProofsFile", "C04_ProofsSpec", "C04_ProofsAnc",
               "C04_Legacy", "C04_ProofsPerm", "C04_ProofsDup", "C04_ProofsSeq", "C04_ProofsBp", "C04_ProofsOrder",
               "C04_ProofsTotal", "C04_ModelOpt", "C04_CheckOpt", "C04_ProofsOpt", "C04_ProofsOptC", "C04_ModelIO", "C04_CheckIO",
               "C04_ProofsIO"]
PROPERTY_MODULE = "C04_Property"
ALLOWED_AXIOMS = []
RULE = (
    "api: 1-6 samples x 1-8 variants with 2-4 alleles, 1-5 haplotypes (+ interleaved repeats) of 1-4 alleles drawn "
    "from REF and every ALT, mostly copied from a real strand so that matches occur; 60% of the cases carry a history "
    "of 1-4 operations on the one Haplotypes object (sort / Haplotype.sort / subset / re-read; one class is the "
    "boundary sequence: V lines against the positional order, transform, sort, transform) with all transforms "
    "repeated after every operation; non-trivial = some cell of the "
    "result is 1 and some is 0, or an ancestry label is absent, or a variant/allele is absent. file: the same kind of "
    "content written as VCF.gz+tbi / plain un-indexed VCF / PGEN with the records position-sorted, chromosome-"
    "interleaved, shuffled or descending (+ POP fields and a .bp file with permuted and extra samples for the same "
    "data), run through "
    "transform_haps or the CLI with --region/--id/--sample; non-trivial = an output record with both 0 and 1 cells, or "
    "a haplotype omitted. 30% of the file cases add missing calls with/without --discard-missing (one requested sample "
    "stays complete), unphased calls, --maf (thresholds on / next to / between attainable frequencies) and --chunk-size. "
    "Plain .hap files (both relations) are written in 7 line layouts, 4 of which interleave the V lines of different "
    "haplotypes (round-robin, two runs per haplotype, around the H lines, any order-preserving merge). 45% of the file "
    "cases name the genotypes file <dir>/<stem>.vcf|.vcf.gz|.bcf|.VCF|.pgen with stems and directories that contain dots, "
    "75% of those add 1-3 decoy .bp files (another data set, or other samples) under names wrong derivations of the .bp "
    "path pick, 30% stale POP fields in the VCF of the .bp run. "
    "Width stream (3 api + 2 file cases per quick run, 30 + 16 thorough, + 7 corpus files; 2 further corpus files: V lines round-robin, dotted stem with a decoy .bp): label dictionaries / POP "
    "fields / .bp tracts with 254-257 distinct labels (257 is refused by both readers with OverflowError), codes and "
    "allele indices on both sides of 127|128 and at 253|254|255, 255-300 haplotypes, 255-257 variants in one haplotype, "
    "255-257 samples. Distinct = distinct canonical JSON."
)
TRUSTED = [
    "pysam/bgzip/tabix, cyvcf2 and pgenlib store and return the records, samples and GT/POP values they are given "
    "(inputs are written by the harness with pysam/pgenlib, outputs read back with pysam/pgenlib)",
    "strings (IDs, alleles, labels, contigs, sample names) are interned to integers by the harness; only equality "
    "matters, except in the api relation where chromosome names and IDs are also ordered (Haplotypes.sort): there the "
    "strings are interned in sorted order, so the integer order is Python's string order",
    "region semantics: REF alleles are one base long, so htslib's overlap test and the PGEN reader's position test coincide",
    "the genotype object and the haplotype collection that transform_haps hands to Haplotypes[Ancestry].transform are "
    "recorded by wrapping that method from the harness process (no source change); ancestry codes are decoded through "
    "the object's own ancestry_labels",
    "the .bp paths a run touches are recorded by wrapping pathlib.Path.exists and Breakpoints.read from the harness "
    "process (paths ending in .bp, relative to the run's scratch directory); a run that touches none makes no claim",
    "'reported' is observed as a WARNING+ log record of haptools.transform that names an absent variant / omitted "
    "haplotype or says that variants could not be found",
]
ASSUMPTIONS = [
    "the property speaks about phased, complete genotype matrices: on a missing call without --discard-missing and on an "
    "unphased heterozygous call the run must fail (model: ValueError; holds accepts any failure there); with "
    "--discard-missing holds demands that every sample without any missing call is kept and that the kept samples' cells "
    "are the specification; which other samples go is pinned by agree only (code: a missing call at a loaded record)",
    "at most 256 distinct ancestry labels among the loaded POP fields / in the tracts of the loaded samples of the .bp "
    "file (np.uint8 codes; the 257th label raises OverflowError under numpy >= 2 - modelled, outside the demanded domain); "
    "at most 254 alleles per variant (allele indices 254 and 255 are the missing-call codes of the uint8 matrix)",
    "--maf: the comparison at the threshold itself is the code's float arithmetic (agree: IEEE doubles, C13_Check.rareF); "
    "holds demands keep / drop only when the exact MAF is 1e-9 away from the exact value of the threshold",
    "haploid calls ('0', stored as (0, 254)) are not generated: GenotypesVCF counts 254 as missing, GenotypesAncestry "
    "does not (C13's subject), so the POP and .bp runs would discard different samples",
    "haplotypes have at least one variant in the api relation (the property's quantifier says 1..many): for a haplotype "
    "without V lines Haplotype.transform raises ValueError (a broadcasting accident) while Haplotypes.transform answers "
    "all-1, also for an absent label; the file relation rarely writes one (set-wise path only)",
    "the accompanying breakpoints file is <stem>.bp beside <stem>.vcf / .vcf.gz / .bcf / .VCF / .pgen "
    "(docs/commands/transform.rst: 'the same name as the genotypes file but with a .bp file ending'); not generated: "
    ".vcf.bgz and an upper-case .GZ (the code replaces only the last suffix there: x.VCF.GZ -> x.VCF.bp is recorded in "
    "C04_bp_path_examples), an empty stem, paths that pathlib would normalise (trailing '/', '//', './'); with --ancestry, "
    "a PGEN input always has its .bp (the refusal 'A .bp file is needed' is modelled by resolve_source, not generated)",
    "V lines that name no H / R line of the file are not generated (read: KeyError; model: read_lines = Err E_Key)",
    "genotype variant IDs are distinct (Genotypes.index raises otherwise); .hap IDs are distinct and differ from contig names",
    "ancestry labels have at most 6 characters and contigs at most 10 (the .bp reader's fixed-width fields)",
    "haplotype start >= 1 (a start of 0 cannot be written as a VCF POS)",
    "a region or --id is only combined with an indexed (.hap.gz + .tbi) haplotype file whose haplotypes all have >= 1 "
    "variant (an un-indexed file ignores the region; the indexed reader cannot fetch a haplotype without V lines)",
    "PGEN input is used only when at least one wanted variant is found (the empty-match failure belongs to C08)",
    "a genotype file whose records are not position-sorted cannot be tabix-indexed: such a VCF is read un-indexed and "
    "without --region (with ancestry, so that the POP-field run exists), such a PGEN/PVAR also with --region",
    "api operation sequences: Haplotype.sort is only called on Haplotype entries; the order of Haplotypes.data after an "
    "operation is observed and must be the model's (agree); the property (holds) is demanded for the observed order",
    "file-level theorems: wf_file (distinct IDs, rectangular POP matrix, the region's contig occurs in the .hap file)",
]
MAXI = 2**31 - 1
BASES = ["A", "C", "G", "T"]
ALTS = ["A", "C", "G", "T", "AC", "TTG", "GA"]
LABELS = ["YRI", "CEU", "PEL", "AFR"]
ABSENT_LABEL = "ZZZ"


# ---------------------------------------------------------------------------
# generators shared by both relations


def gen_variants(rng, p, nchrom, spread=False):
    chroms = ["1", "2", "chrX"][:nchrom]
    out = []
    if spread and p >= nchrom:
        # every chromosome occurs
        per = np.sort(np.concatenate([np.arange(nchrom), rng.integers(0, nchrom, size=p - nchrom)]))
    else:
        per = np.sort(rng.integers(0, nchrom, size=p))
    pos = {c: int(rng.integers(1, 40)) for c in chroms}
    for j in range(p):
        c = chroms[int(per[j])]
        k = int(rng.choice([2, 2, 2, 3, 3, 4]))
        ref = BASES[int(rng.integers(0, 4))]
        alts = [a for a in ALTS if a != ref]
        alts = [alts[i] for i in rng.permutation(len(alts))[: k - 1]]
        out.append([f"v{j}", c, pos[c], [ref] + alts])
        pos[c] += int(rng.integers(1, 30))
    return out


def is_sorted_vars(variants):
    """can the records be bgzipped + tabix-indexed in this order (contigs contiguous, positions ascending)?"""
    seen, last = [], {}
    for v in variants:
        c = v[1]
        if c in seen and seen[-1] != c:
            return False
        if c not in seen:
            seen.append(c)
        if c in last and v[2] < last[c]:
            return False
        last[c] = v[2]
    return True


GT_ORDERS = ["sorted", "interleaved", "shuffled", "reversed"]


def order_perm(rng, variants, mode):
    """file order of the records of a genotype file: a permutation of range(len(variants))"""
    p = len(variants)
    if mode == "reversed":
        return list(range(p))[::-1]
    if mode == "shuffled":
        return [int(x) for x in rng.permutation(p)]
    if mode == "interleaved":
        # round robin over the chromosomes (1,2,1,2,...), possibly descending inside a chromosome
        by = {}
        for j, v in enumerate(variants):
            by.setdefault(v[1], []).append(j)
        groups = list(by.values())
        if rng.random() < 0.3:
            groups = [g[::-1] for g in groups]
        if rng.random() < 0.5:
            groups = groups[::-1]
        perm = []
        while any(groups):
            for g in groups:
                if g:
                    perm.append(g.pop(0))
        return perm
    return list(range(p))


def gen_data(rng, n, variants):
    data = [[[int(rng.integers(0, len(v[3]))), int(rng.integers(0, len(v[3])))] for v in variants] for _ in range(n)]
    # long shared stretches make whole-haplotype matches likely
    if n > 1 and rng.random() < 0.6:
        src = int(rng.integers(0, n))
        for s in range(n):
            for t in range(2):
                if rng.random() < 0.5:
                    for j in range(len(variants)):
                        if rng.random() < 0.8:
                            data[s][j][t] = data[src][j][int(rng.integers(0, 2))]
    return data


def gen_haps(rng, variants, data, labels, anc_at=None, missing_p=0.12, absent_allele_p=0.04, absent_label_p=0.2,
             nrep=None):
    """haplotypes over the variants; anc_at(s, j, t) gives the label of a cell when ancestry is used"""
    n, p = len(data), len(variants)
    k = int(rng.integers(1, 6))
    haps = []
    for i in range(k):
        m = int(rng.integers(1, min(4, p) + 1))
        cols = sorted(rng.choice(p, size=m, replace=False).tolist())
        c0 = variants[cols[0]][1]
        cols = [j for j in cols if variants[j][1] == c0]
        s, t = int(rng.integers(0, n)), int(rng.integers(0, 2))
        hv = []
        for j in cols:
            v = variants[j]
            r = rng.random()
            if r < 0.65:
                a = v[3][data[s][j][t]]
            elif r < 1 - absent_allele_p:
                a = v[3][int(rng.integers(0, len(v[3])))]
            else:
                a = "N"
            hv.append([v[0], a, v[2], v[2] + len(a)])
        if rng.random() < missing_p:
            pos = int(rng.integers(1, 200))
            hv.insert(int(rng.integers(0, len(hv) + 1)), [f"m{int(rng.integers(0, 3))}", "A", pos, pos + 1])
        if rng.random() < 0.08 and len(hv) > 1:
            # the same variant twice in one haplotype (same or another allele)
            j = cols[0]
            v = variants[j]
            hv.append([v[0], v[3][int(rng.integers(0, len(v[3])))], v[2], v[2] + 1])
        if rng.random() < 0.3:
            hv = [hv[i] for i in rng.permutation(len(hv))]  # haplotype lists its alleles in another order than the genotypes
        start = min(x[2] for x in hv)
        end = max(x[3] for x in hv)
        anc = None
        if labels is not None:
            r = rng.random()
            if r < absent_label_p:
                anc = ABSENT_LABEL
            elif r < 0.75 and anc_at is not None:
                anc = anc_at(s, cols[0], t)
            else:
                anc = labels[int(rng.integers(0, len(labels)))]
        haps.append({"id": f"H{i}", "chrom": c0, "start": start, "end": end, "anc": anc, "vars": hv, "rep": False})
    nrep = int(rng.choice([0, 0, 1, 2])) if nrep is None else nrep
    for i in range(nrep):
        c = variants[int(rng.integers(0, p))][1]
        a = int(rng.integers(1, 100))
        haps.insert(int(rng.integers(0, len(haps) + 1)),
                    {"id": f"R{i}", "chrom": c, "start": a, "end": a + int(rng.integers(1, 30)), "anc": None,
                     "vars": [], "rep": True})
    return haps


def allele_names(k):
    """k distinct allele strings by formula: A C G T AA AC ... (REF first)"""
    import itertools

    out = []
    for ln in range(1, 6):
        for t in itertools.product("ACGT", repeat=ln):
            out.append("".join(t))
            if len(out) == k:
                return out
    return out


def hap_term(h, I, anc):
    hv = L.lst(h["vars"], lambda v: f"(mkhv {L.z(I(v[0]))} {L.z(I(v[1]))})")
    a = I(h["anc"]) if (anc and h["anc"] is not None) else 0
    return (f"(mkh {L.z(I(h['id']))} {L.z(I(h['chrom']))} {L.z(h['start'])} {L.z(h['end'])} {L.z(a)} {hv} "
            f"{L.b(h['rep'])})")


def rows_term(mat, f):
    """mat[s][v][t] -> list of (strand0 row, strand1 row)"""
    return L.lst(mat, lambda smp: f"({L.lst([c[0] for c in smp], f)}, {L.lst([c[1] for c in smp], f)})")


def bmat_term(m):
    return L.lst(m, lambda row: L.lst(row, lambda c: f"({L.b(c[0])}, {L.b(c[1])})"))


def bcol_term(col):
    return L.lst(col, lambda c: f"({L.b(c[0])}, {L.b(c[1])})")


def recs_term(recs, I):
    return L.lst(recs, lambda r: f"({L.z(I(r[0]))}, {L.z(I(r[1]))}, {L.z(r[2])})")


def _log():
    from haptools.logging import getLogger

    return getLogger("hv_c04", "CRITICAL")


# ---------------------------------------------------------------------------
# API relation


HAP_CHROMS = ["1", "10", "2", "chrX"]


def var_key(v):
    """Variant.__lt__: start, end, ID"""
    return (v[2], v[3], v[0])


def vlines_unsorted(h):
    return [var_key(v) for v in h["vars"]] != sorted(var_key(v) for v in h["vars"])


class Api(Relation):
    name = "api"
    coq_module = "C04_CheckSeq"
    coq_check = "check_seq"
    coq_case_type = "qcase"
    coq_model = "model_seq"
    coq_imports = ["Tracts", "C04_Model", "C04_Check"]
    budget = {"quick": 1600, "thorough": 16000}
    max_cases_per_shard = 120
    anchors = [
        ("haptools/data/haplotypes.py", "Haplotype.transform"),
        ("haptools/data/haplotypes.py", "Haplotypes.transform"),
        ("haptools/transform.py", "HaplotypeAncestry.transform"),
        ("haptools/transform.py", "HaplotypesAncestry.transform"),
        ("haptools/data/genotypes.py", "Genotypes.subset"),
    ]
    # (Haplotype.varIDs / Haplotype.sort / Haplotypes.sort / Haplotypes.subset / Haplotypes.read are exercised by the
    #  operation sequences too; they are not listed because anchors.json is recorded by the integrator)

    # ---- operation sequences on one Haplotypes object: [["sort"], ["hsort", id], ["subset", ids, inplace],
    #      ["reread"], ["nop"]]; the single and the whole-set transform are observed before the first and after
    #      every operation
    def _gen_ops(self, rng, haps, source, cls):
        ids = [h["id"] for h in haps]
        real = [h["id"] for h in haps if not h["rep"]]

        def one():
            r = rng.random()
            if r < 0.3:
                return ["sort"]
            if r < 0.55 and real:
                return ["hsort", real[int(rng.integers(0, len(real)))]]
            if r < 0.8:
                m = int(rng.integers(1, len(ids) + 1))
                sub = [ids[i] for i in rng.permutation(len(ids))[:m].tolist()]
                if rng.random() < 0.2:
                    sub.insert(int(rng.integers(0, len(sub) + 1)), "NOSUCH")
                return ["subset", sub, bool(rng.random() < 0.5)]
            if r < 0.92 and source == "file":
                return ["reread"]
            return ["nop"]

        if cls == "transform-sort-transform":
            # the boundary sequence: V lines out of positional order, transform, sort, transform
            return [["sort"]] if rng.random() < 0.6 or not real else [["hsort", real[int(rng.integers(0, len(real)))]]]
        return [one() for _ in range(int(rng.integers(1, 5)))]

    def _add_sequence(self, rng, case):
        haps = case["haps"]
        cls = str(rng.choice(["transform-sort-transform", "random", "random"]))
        source = "file" if rng.random() < 0.5 else "memory"
        if rng.random() < 0.5:
            for h in haps:
                if rng.random() < 0.5:
                    h["chrom"] = HAP_CHROMS[int(rng.integers(0, len(HAP_CHROMS)))]
        if cls == "transform-sort-transform" or rng.random() < 0.4:
            # some haplotype lists its V lines against the positional order
            real = [h for h in haps if not h["rep"] and len({var_key(v) for v in h["vars"]}) > 1]
            for h in real:
                if rng.random() < 0.7:
                    srt = sorted(h["vars"], key=var_key)
                    h["vars"] = srt[::-1] if rng.random() < 0.5 else [srt[i] for i in rng.permutation(len(srt))]
        case["ops"] = self._gen_ops(rng, haps, source, cls)
        case["source"] = source
        case["layout"] = pick_layout(rng)
        case["seq"] = cls
        return case

    def _case(self, rng, small=False):
        n = int(rng.integers(1, 4 if small else 7))
        p = int(rng.integers(1, 4 if small else 9))
        variants = gen_variants(rng, p, 1)
        data = gen_data(rng, n, variants)
        kind = "plain"
        anc = None
        labels = None
        anc_at = None
        if rng.random() < 0.55:
            kind = "ancestry"
            nl = int(rng.integers(1, 4))
            labels = LABELS[:nl]
            codes_avail = rng.permutation(6)[: nl + 1].tolist()
            lab2code = [[labels[i], int(codes_avail[i])] for i in range(nl)]
            if rng.random() < 0.25:
                lab2code.append(["UNUSED", int(codes_avail[nl])])  # in the dictionary, in no cell
            codes = [[[0, 0] for _ in range(p)] for _ in range(n)]
            for s in range(n):
                for t in range(2):
                    cur = int(rng.integers(0, nl))
                    for j in range(p):
                        if rng.random() < 0.3:
                            cur = int(rng.integers(0, nl))
                        codes[s][j][t] = lab2code[cur][1]
            anc = {"labels": lab2code, "codes": codes}
            c2l = {c: l for l, c in lab2code}
            anc_at = lambda s, j, t: c2l[codes[s][j][t]]
            labels = [l for l, _ in lab2code]
        haps = gen_haps(rng, variants, data, labels, anc_at)
        if rng.random() < 0.08:
            # a missing call (255 after the uint8 cast) matches no allele
            s0, j0, t0 = int(rng.integers(0, n)), int(rng.integers(0, p)), int(rng.integers(0, 2))
            data[s0][j0][t0] = 255
            kind += "+missing-call"
        r = rng.random()
        if r < 0.03:
            kind += "+dup-variant-id"
            if p > 1:
                variants[-1][0] = variants[0][0]
        case = {"nsamp": n, "vars": [[v[0], v[3]] for v in variants], "data": data, "anc": anc, "haps": haps,
                "kind": kind}
        if "dup-variant-id" not in kind and rng.random() < 0.6:
            case = self._add_sequence(rng, case)
        return case

    WIDTH_KINDS = ["labels", "alleles", "many-haps", "long-hap", "many-samples"]

    def _width_case(self, rng, kind=None):
        """sizes and values straddling the fixed-width arrays of the transforms: np.uint8 genotype cells and ancestry
        codes (label dictionaries with 254 / 255 / 256 entries, codes 127 | 128 and 254 | 255; allele indices 127 |
        128 | 200 | 253 of variants with 130 / 254 alleles), np.int16 `ancestries`, np.uintc index arrays (255 / 256 /
        257 / 300 haplotypes, distinct (variant, allele) keys and variants per haplotype, samples).  Labels, alleles
        and IDs by formula; single-shot (no operation sequence)."""
        kind = kind or self.WIDTH_KINDS[int(rng.integers(0, len(self.WIDTH_KINDS)))]
        anc = None
        if kind == "labels":
            nl = int(rng.choice([254, 255, 256]))
            n, p = 2, 3
            variants = [[f"v{j}", ["A", "C", "G"][: 2 + j % 2]] for j in range(p)]
            data = [[[int(rng.integers(0, len(variants[j][1]))) for _ in range(2)] for j in range(p)] for _ in range(n)]
            codes_of = [int(x) for x in rng.permutation(nl)] if rng.random() < 0.5 else list(range(nl))
            lab2code = [[f"L{i}", codes_of[i]] for i in range(nl)]
            edge = sorted({0, 1, 126, 127, 128, 129, nl - 2, nl - 1} & set(range(nl)))
            code2lab = {c: l for l, c in lab2code}
            codes = [[[int(rng.choice(edge)) for _ in range(2)] for _ in range(p)] for _ in range(n)]
            anc = {"labels": lab2code, "codes": codes}
            haps = []
            for i in range(6):
                s0, j0, t0 = int(rng.integers(0, n)), int(rng.integers(0, p)), int(rng.integers(0, 2))
                lab = code2lab[codes[s0][j0][t0]] if i < 4 else (ABSENT_LABEL if i == 4 else f"L{nl - 1}")
                a = variants[j0][1][data[s0][j0][t0]]
                haps.append({"id": f"H{i}", "chrom": "1", "start": 10 * (j0 + 1), "end": 10 * (j0 + 1) + 1, "anc": lab,
                             "vars": [[variants[j0][0], a, 10 * (j0 + 1), 10 * (j0 + 1) + 1]], "rep": False})
        elif kind == "alleles":
            K = int(rng.choice([130, 254]))
            als = allele_names(K)
            edge = [0, 1, 127, 128, 129] if K == 130 else [0, 127, 128, 200, 252, 253]
            n = 3
            variants = [["w0", als], ["w1", ["A", "C", "G"]]]
            data = [[[int(rng.choice(edge)), int(rng.choice(edge))], [int(rng.integers(0, 3)), int(rng.integers(0, 3))]]
                    for _ in range(n)]
            haps = [{"id": f"H{i}", "chrom": "1", "start": 10, "end": 10 + len(als[a]), "anc": None,
                     "vars": [["w0", als[a], 10, 10 + len(als[a])]], "rep": False} for i, a in enumerate(edge)]
            a = edge[int(rng.integers(0, len(edge)))]
            haps.append({"id": "HX", "chrom": "1", "start": 10, "end": 21, "anc": None,
                         "vars": [["w0", als[a], 10, 10 + len(als[a])], ["w1", "C", 20, 21]], "rep": False})
            if rng.random() < 0.5:
                codes = [[[int(rng.integers(0, 2)) for _ in range(2)] for _ in range(2)] for _ in range(n)]
                anc = {"labels": [["YRI", 0], ["CEU", 1]], "codes": codes}
                for h in haps:
                    h["anc"] = ["YRI", "CEU", ABSENT_LABEL][int(rng.choice([0, 0, 1, 1, 2]))]
        elif kind == "many-haps":
            m = int(rng.choice([255, 256, 257, 300]))
            n, p = int(rng.integers(1, 3)), 4
            variants = [[f"v{j}", ["A", "C", "G"][: 2 + j % 2]] for j in range(p)]
            data = [[[int(rng.integers(0, len(variants[j][1]))) for _ in range(2)] for j in range(p)] for _ in range(n)]
            if rng.random() < 0.5:
                codes = [[[int(rng.integers(0, 2)) for _ in range(2)] for _ in range(p)] for _ in range(n)]
                anc = {"labels": [["YRI", 0], ["CEU", 1]], "codes": codes}
            haps = []
            for i in range(m):
                cols = sorted(rng.choice(p, size=int(rng.integers(1, 3)), replace=False).tolist())
                hv = [[variants[j][0], variants[j][1][int(rng.integers(0, len(variants[j][1])))], 10 * (j + 1),
                       10 * (j + 1) + 1] for j in cols]
                haps.append({"id": f"H{i}", "chrom": "1", "start": hv[0][2], "end": hv[-1][3],
                             "anc": (["YRI", "CEU", ABSENT_LABEL][int(rng.choice([0, 0, 1, 1, 2]))] if anc else None),
                             "vars": hv, "rep": False})
        elif kind == "long-hap":
            m = int(rng.choice([255, 256, 257]))
            n, p = 2, m + 1
            variants = [[f"v{j}", ["A", "C"]] for j in range(p)]
            base = [int(rng.integers(0, 2)) for _ in range(p)]
            data = [[[base[j], base[j] if rng.random() < 0.995 else 1 - base[j]] for j in range(p)] for _ in range(n)]
            if rng.random() < 0.5:
                flip = int(rng.integers(0, p))
                codes = [[[0, int(s == 1 and j == flip)] for j in range(p)] for s in range(n)]
                anc = {"labels": [["YRI", 0], ["CEU", 1]], "codes": codes}
            cols = list(range(m)) if rng.random() < 0.5 else list(range(1, m + 1))
            hv = [[variants[j][0], variants[j][1][base[j]], 10 * (j + 1), 10 * (j + 1) + 1] for j in cols]
            hv2 = [list(v) for v in hv]
            hv2[-1][1] = variants[cols[-1]][1][1 - base[cols[-1]]]      # differs in the LAST (256th / 257th) allele only
            haps = [{"id": "H0", "chrom": "1", "start": hv[0][2], "end": hv[-1][3], "anc": ("YRI" if anc else None),
                     "vars": hv, "rep": False},
                    {"id": "H1", "chrom": "1", "start": hv[0][2], "end": hv[-1][3], "anc": ("YRI" if anc else None),
                     "vars": hv2, "rep": False},
                    {"id": "H2", "chrom": "1", "start": hv[-1][2], "end": hv[-1][3], "anc": ("CEU" if anc else None),
                     "vars": [hv[-1]], "rep": False}]
        else:  # many-samples
            n, p = int(rng.choice([255, 256, 257])), 2
            variants = [["v0", ["A", "C"]], ["v1", ["G", "T", "C"]]]
            data = [[[int(rng.integers(0, 2)), int(rng.integers(0, 2))], [int(rng.integers(0, 3)), int(rng.integers(0, 3))]]
                    for _ in range(n)]
            if rng.random() < 0.5:
                codes = [[[int(rng.integers(0, 2)) for _ in range(2)] for _ in range(p)] for _ in range(n)]
                anc = {"labels": [["YRI", 0], ["CEU", 1]], "codes": codes}
            haps = [{"id": "H0", "chrom": "1", "start": 10, "end": 11, "anc": ("YRI" if anc else None),
                     "vars": [["v0", "C", 10, 11]], "rep": False},
                    {"id": "H1", "chrom": "1", "start": 10, "end": 21, "anc": ("CEU" if anc else None),
                     "vars": [["v0", "A", 10, 11], ["v1", "C", 20, 21]], "rep": False},
                    {"id": "H2", "chrom": "1", "start": 20, "end": 21, "anc": (ABSENT_LABEL if anc else None),
                     "vars": [["v1", "T", 20, 21]], "rep": False}]
        return {"nsamp": n, "vars": variants, "data": data, "anc": anc, "haps": haps,
                "kind": ("ancestry" if anc else "plain") + "+width-" + kind}

    def generate(self, rng, n, tier):
        out = [self._case(rng, small=(i % 4 == 0)) for i in range(n)]
        # the width-boundary stream (own generator state: the other cases do not move when it changes)
        wr = np.random.default_rng([int(rng.integers(0, 2**31)), 4])
        nw = 3 if tier == "quick" else 30
        return out + [self._width_case(wr, self.WIDTH_KINDS[(i + int(wr.integers(0, 5))) % 5] if nw < 5 else
                                       self.WIDTH_KINDS[i % 5]) for i in range(nw)]

    def exhaustive(self, tier):
        # 1 sample x 2 variants (2 and 3 alleles): every genotype row x every one/two-allele haplotype pair
        import itertools

        out = []
        vars_ = [["v0", ["A", "C"]], ["v1", ["G", "T", "C"]]]
        hv = [["v0", a, 1, 2] for a in ("A", "C")] + [["v1", a, 5, 6] for a in ("G", "T", "C")]
        hapsets = [[x] for x in hv] + [[x, y] for x in hv[:2] for y in hv[2:]]
        for cells in itertools.product(range(2), range(2), range(3), range(3)):
            data = [[[cells[0], cells[1]], [cells[2], cells[3]]]]
            for hs in itertools.combinations(range(len(hapsets)), 2):
                for anc in (None, {"labels": [["YRI", 3], ["CEU", 1]], "codes": [[[3, 1], [3, 3]]]}):
                    haps = [{"id": f"H{i}", "chrom": "1", "start": 1, "end": 9,
                             "anc": (["YRI", "CEU", ABSENT_LABEL][(k + i) % 3] if anc else None),
                             "vars": hapsets[k], "rep": False} for i, k in enumerate(hs)]
                    out.append({"nsamp": 1, "vars": vars_, "data": data, "anc": anc, "haps": haps, "kind": "exhaustive"})
        # the same cases with the V lines of the two-allele haplotypes against the positional order and every short
        # history of sort operations between the transforms
        seqs = []
        histories = [[["sort"]], [["hsort", "H0"]], [["hsort", "H1"], ["hsort", "H0"]], [["sort"], ["sort"]],
                     [["subset", ["H1", "H0"], True], ["sort"]], [["subset", ["H1"], False], ["hsort", "H1"]]]
        for k, c in enumerate(out):
            if any(len(h["vars"]) > 1 for h in c["haps"]):
                rev = [dict(h, vars=h["vars"][::-1]) for h in c["haps"]]
                seqs.append(dict(c, haps=rev, ops=histories[k % len(histories)], seq="exhaustive",
                                 source=("file" if k % 2 else "memory"), layout="HV"))
        out = out[:: (1 if tier == "thorough" else 7)] + seqs[:: (1 if tier == "thorough" else 5)]
        return out

    def run_impl(self, inp):
        from haptools import data
        from haptools.transform import GenotypesAncestry, HaplotypeAncestry, HaplotypesAncestry

        log = _log()
        n, p = inp["nsamp"], len(inp["vars"])
        anc = inp["anc"]
        ops = inp.get("ops") or []

        def mk():
            gts = (GenotypesAncestry if anc else data.GenotypesVCF)(fname=None, log=log)
            gts.samples = tuple(f"S{i}" for i in range(n))
            gts.variants = np.array([(v[0], "1", 10 * (j + 1), tuple(v[1])) for j, v in enumerate(inp["vars"])],
                                    dtype=gts.variants.dtype)
            gts.data = np.array(inp["data"], dtype=np.uint8).reshape(n, p, 2)
            if anc:
                gts.ancestry = np.array(anc["codes"], dtype=np.uint8).reshape(n, p, 2)
                gts.ancestry_labels = {l: c for l, c in anc["labels"]}
            return gts

        # ONE genotypes object for every call of a case.  Only with duplicate variant IDs a fresh object per call:
        # Genotypes keeps its ID index after a failed index() (C12's subject, outside this property's domain)
        shared = None if "dup-variant-id" in inp["kind"] else mk()

        def G():
            return shared if shared is not None else mk()

        tmpd = None
        try:
            cls = HaplotypesAncestry if anc else data.Haplotypes
            if inp.get("source") == "file":
                tmpd = tempfile.mkdtemp(prefix="hv_c04a_")
                path = write_hap(os.path.join(tmpd, "h.hap"), inp["haps"], bool(anc), False, inp.get("layout", "HV"))
                hp = cls(path, log=log)
                hp.read()
            else:
                hp = cls(fname=None, log=log)
                hp.data = {}
                for h in inp["haps"]:
                    if h["rep"]:
                        obj = data.Repeat(h["chrom"], h["start"], h["end"], h["id"])
                    else:
                        if anc:
                            obj = HaplotypeAncestry(h["chrom"], h["start"], h["end"], h["id"], h["anc"])
                        else:
                            obj = data.Haplotype(h["chrom"], h["start"], h["end"], h["id"])
                        obj.variants = tuple(data.Variant(v[2], v[3], v[0], v[1]) for v in h["vars"])
                    hp.data[h["id"]] = obj

            def observe():
                order = [str(k) for k in hp.data.keys()]
                single = []
                for hid in order:
                    obj = hp.data[hid]
                    if isinstance(obj, data.Repeat):
                        continue
                    try:
                        r = np.asarray(obj.transform(G()))
                        if r.shape != (n, 2):
                            single.append({"err": 98, "shape": list(r.shape)})
                        else:
                            single.append({"ok": r.astype(int).tolist()})
                    except Exception as e:  # noqa
                        single.append({"err": err_kind(e), "cls": type(e).__name__})
                try:
                    gts = G()
                    out = hp.transform(gts)
                    m = np.asarray(out.data)
                    st = {"ok": {"recs": [[str(v["id"]), str(v["chrom"]), int(v["pos"])] for v in out.variants],
                                 "data": m.astype(int).tolist() if m.ndim == 3 else None,
                                 "samples_same": tuple(out.samples) == tuple(gts.samples)}}
                    if m.ndim != 3 or not st["ok"]["samples_same"]:
                        st = {"err": 98}
                except Exception as e:  # noqa
                    st = {"err": err_kind(e), "cls": type(e).__name__}
                return {"order": order, "single": single, "set": st}

            first = observe()
            steps = []
            for op in ops:
                if op[0] == "sort":
                    hp.sort()
                elif op[0] == "hsort":
                    if op[1] in hp.data:
                        hp.data[op[1]].sort()
                elif op[0] == "subset":
                    if op[2]:
                        hp.subset(tuple(op[1]), inplace=True)
                    else:
                        hp = hp.subset(tuple(op[1]))
                elif op[0] == "reread":
                    hp.read()
                steps.append(observe())
            return {"single": first["single"], "set": first["set"], "order": first["order"], "steps": steps}
        finally:
            if tmpd:
                shutil.rmtree(tmpd, ignore_errors=True)

    def encode(self, inp, obs):
        # strings are interned in sorted order: the integer order of chromosome names and IDs is Python's string order
        strs = {"1"}
        for v in inp["vars"]:
            strs.add(v[0])
            strs.update(v[1])
        for h in inp["haps"]:
            strs.update([h["id"], h["chrom"]])
            if h["anc"] is not None:
                strs.add(h["anc"])
            for v in h["vars"]:
                strs.update([v[0], v[1]])
        anc = inp["anc"]
        if anc:
            strs.update(l for l, _ in anc["labels"])
        ops = inp.get("ops") or []
        for op in ops:
            if op[0] == "hsort":
                strs.add(op[1])
            elif op[0] == "subset":
                strs.update(op[1])
        I = L.Interner()
        I("")  # 0 = "no label"
        for x in sorted(strs):
            I(x)
        n = inp["nsamp"]
        gv = L.lst(list(enumerate(inp["vars"])),
                   lambda jv: f"(mkgv {L.z(I(jv[1][0]))} {L.z(I('1'))} {L.z(10 * (jv[0] + 1))} "
                              f"{L.zl([I(a) for a in jv[1][1]])})")
        data = rows_term(inp["data"], L.z)
        ancm = rows_term(anc["codes"], L.z) if anc else "[]"
        labs = L.lst(anc["labels"], lambda lc: f"({L.z(I(lc[0]))}, {L.z(lc[1])})") if anc else "[]"
        G = f"(mkg {L.zl(list(range(n)))} {gv} {data} {ancm} {labs})"

        def ph(h):
            a = I(h["anc"]) if (anc and h["anc"] is not None) else 0
            pvs = L.lst(h["vars"], lambda v: f"(mkpv {L.z(v[2])} {L.z(v[3])} (mkhv {L.z(I(v[0]))} {L.z(I(v[1]))}))")
            return (f"(mkph (mkh {L.z(I(h['id']))} {L.z(I(h['chrom']))} {L.z(h['start'])} {L.z(h['end'])} {L.z(a)} [] "
                    f"{L.b(h['rep'])}) {pvs})")

        H = L.lst(inp["haps"], ph)
        nreal = sum(1 for h in inp["haps"] if not h["rep"])
        if not isinstance(obs, dict) or "single" not in obs:
            k = obs.get("kind", 99) if isinstance(obs, dict) else 99
            bad = {"order": [], "single": [{"err": k}] * nreal, "set": {"err": k}}
            obs = dict(bad, steps=[bad] * len(ops))

        def so(o):
            single = L.lst(o["single"], lambda x: L.res(x, bcol_term))
            st = o["set"]
            if "ok" in st:
                sett = f"(Ok ({recs_term(st['ok']['recs'], I)}, {bmat_term(st['ok']['data'])}))"
            else:
                sett = f"(Err {L.z(st['err'])})"
            return f"(mkso {L.zl([I(x) for x in o['order']])} {single} {sett})"

        def opt(op):
            if op[0] == "sort":
                return "OSort"
            if op[0] == "hsort":
                return f"(OHapSort {L.z(I(op[1]))})"
            if op[0] == "subset":
                return f"(OSubset {L.zl([I(x) for x in op[1]])})"
            if op[0] == "reread":
                return "OReread"
            return "ONop"

        first = {"order": obs.get("order", [h["id"] for h in inp["haps"]]), "single": obs["single"], "set": obs["set"]}
        steps = [f"(ONop, {so(first)})"] + [f"({opt(op)}, {so(o)})" for op, o in zip(ops, obs.get("steps") or [])]
        return f"(mkq {G} {H} {L.b(bool(anc))} {L.lst(steps)})"

    # ---- bookkeeping
    def _features(self, inp):
        f = []
        vid = {v[0]: v[1] for v in inp["vars"]}
        real = [h for h in inp["haps"] if not h["rep"]]
        if any(v[0] not in vid for h in real for v in h["vars"]):
            f.append("missing-variant")
        if any(v[0] in vid and v[1] not in vid[v[0]] for h in real for v in h["vars"]):
            f.append("absent-allele")
        if any(v[0] in vid and v[1] in vid[v[0]] and vid[v[0]].index(v[1]) >= 2 for h in real for v in h["vars"]):
            f.append("uses-second-or-later-ALT")
        if inp["anc"]:
            labs = {l for l, _ in inp["anc"]["labels"]}
            if any(h["anc"] not in labs for h in real):
                f.append("absent-ancestry-label")
        if any(h["rep"] for h in inp["haps"]):
            f.append("repeats")
        if any(vlines_unsorted(h) for h in real):
            f.append("V-lines-not-in-positional-order")
        return f

    def nontrivial(self, inp, obs):
        if not isinstance(obs, dict) or "set" not in obs:
            return False
        f = self._features(inp)
        if "ok" in obs["set"] and obs["set"]["ok"]["data"]:
            flat = [c for row in obs["set"]["ok"]["data"] for cell in row for c in cell]
            if 0 in flat and 1 in flat:
                return True
        return bool(set(f) & {"missing-variant", "absent-allele", "absent-ancestry-label"})

    def classes(self, inp, obs):
        out = [inp["kind"].split("+")[0]] + self._features(inp)
        if "+" in inp["kind"]:
            out.append(inp["kind"].split("+")[1])
        if isinstance(obs, dict) and "set" in obs:
            out.append("set-ok" if "ok" in obs["set"] else f"set-err{obs['set']['err']}")
            if "ok" in obs["set"] and obs["set"]["ok"]["data"]:
                flat = [c for row in obs["set"]["ok"]["data"] for cell in row for c in cell]
                if 1 in flat:
                    out.append("some-match")
        out.append(f"haps={sum(1 for h in inp['haps'] if not h['rep'])}")
        ops = inp.get("ops") or []
        if ops:
            out.append(f"seq:{inp.get('seq', '?')}")
            out.append(f"source={inp.get('source', 'memory')}")
            if inp.get("source") == "file":
                out.append(f"plain-hap-{inp.get('layout', 'HV').split(':')[0]}")
                if vlines_interleaved(inp["haps"], inp.get("layout", "HV")):
                    out.append("hap-V-lines-of-different-haplotypes-interleaved")
            out.append(f"ops={len(ops)}")
            out += sorted({"op:" + o[0] for o in ops})
            if isinstance(obs, dict) and obs.get("steps"):
                if any(st["order"] != obs.get("order") for st in obs["steps"]):
                    out.append("history-changes-collection-order")
            real = [h for h in inp["haps"] if not h["rep"]]
            if any(vlines_unsorted(h) for h in real) and any(o[0] in ("sort", "hsort") for o in ops):
                out.append("sort-reorders-V-lines-after-a-transform")
        else:
            out.append("single-shot")
        return out

    def shrink(self, inp):
        haps = inp["haps"]
        ops = inp.get("ops") or []
        for i in range(len(ops)):
            yield dict(inp, ops=ops[:i] + ops[i + 1:])
        if inp.get("source") == "file":
            yield dict(inp, source="memory", ops=[o for o in ops if o[0] != "reread"])
        for i in range(len(haps)):
            if len(haps) > 1:
                yield dict(inp, haps=haps[:i] + haps[i + 1:])
        for i, h in enumerate(haps):
            for j in range(len(h["vars"])):
                if len(h["vars"]) > 1:
                    yield dict(inp, haps=haps[:i] + [dict(h, vars=h["vars"][:j] + h["vars"][j + 1:])] + haps[i + 1:])
        n = inp["nsamp"]
        for s in range(n):
            if n > 1:
                anc = inp["anc"]
                if anc:
                    anc = dict(anc, codes=anc["codes"][:s] + anc["codes"][s + 1:])
                yield dict(inp, nsamp=n - 1, data=inp["data"][:s] + inp["data"][s + 1:], anc=anc)
        used = {v[0] for h in haps for v in h["vars"]}
        for j, v in enumerate(inp["vars"]):
            if v[0] not in used and len(inp["vars"]) > 1:
                anc = inp["anc"]
                if anc:
                    anc = dict(anc, codes=[row[:j] + row[j + 1:] for row in anc["codes"]])
                yield dict(inp, vars=inp["vars"][:j] + inp["vars"][j + 1:],
                           data=[row[:j] + row[j + 1:] for row in inp["data"]], anc=anc)

    def mutate(self, inp, rng):
        # the boundary sequence: V lines against the positional order, transform, sort, transform
        if "dup-variant-id" not in inp["kind"]:
            rev = [dict(h, vars=sorted(h["vars"], key=var_key)[::-1]) for h in inp["haps"]]
            real = [h["id"] for h in inp["haps"] if not h["rep"]]
            yield dict(inp, haps=rev, ops=[["sort"]], seq="transform-sort-transform")
            yield dict(inp, haps=rev, ops=[["hsort", x] for x in real], seq="transform-sort-transform")
            yield dict(inp, haps=rev, ops=(inp.get("ops") or []) + [["sort"], ["nop"]], seq="random")
            if inp.get("source") == "file":
                yield dict(inp, haps=rev, ops=[["sort"], ["reread"], ["sort"]], seq="random")
        # push towards the boundary classes: later ALTs, absent labels
        for i, h in enumerate(inp["haps"]):
            if h["rep"]:
                continue
            if inp["anc"]:
                yield dict(inp, haps=inp["haps"][:i] + [dict(h, anc=ABSENT_LABEL)] + inp["haps"][i + 1:])
            vid = {v[0]: v[1] for v in inp["vars"]}
            for j, v in enumerate(h["vars"]):
                if v[0] in vid:
                    for a in vid[v[0]]:
                        if a != v[1]:
                            hv = h["vars"][:j] + [[v[0], a, v[2], v[3]]] + h["vars"][j + 1:]
                            yield dict(inp, haps=inp["haps"][:i] + [dict(h, vars=hv)] + inp["haps"][i + 1:])

    def signature(self, inp, obs):
        obs = obs if isinstance(obs, dict) else {}
        steps = [obs] + list(obs.get("steps") or [])
        sets = [o.get("set", {}) for o in steps]
        res = "answers" if all("ok" in st for st in sets) else \
            "raises " + ",".join(sorted({str(st.get("cls", st.get("err"))) for st in sets if "ok" not in st}))
        errs = sorted({str(o.get("cls", o["err"])) for x in steps for o in x.get("single", []) if "err" in o})
        hist = ",".join(o[0] for o in (inp.get("ops") or [])) or "none"
        return (f"api ancestry={'yes' if inp['anc'] else 'no'}: set-wise transform {res}; single transforms "
                f"{'raise ' + ','.join(errs) if errs else 'all answer'}; operations between the transforms: {hist}")


# ---------------------------------------------------------------------------
# file / CLI relation


def label_at(tracts, chrom, pos):
    for lab, c, e in tracts:
        if c == chrom and pos <= e:
            return lab
    return None


def write_vcf(path, samples, variants, data, pop=None, index=True, unph=()):
    """bgzipped + tabix-indexed VCF, or (index=False) the plain un-indexed text file with the records in the given
    order, whatever it is; pop[s][v][t] = label or None; unph = [sample index, record index] of the calls written
    with '/'; a cell 255 is written '.'"""
    import pysam

    unph = {(int(a), int(b)) for a, b in unph}

    with open(path, "w") as f:
        f.write("##fileformat=VCFv4.2\n")
        seen = []
        for v in variants:
            if v[1] not in seen:
                seen.append(v[1])
        for c in seen:
            f.write(f"##contig=<ID={c}>\n")
        f.write('##FORMAT=<ID=GT,Number=1,Type=String,Description="Genotype">\n')
        if pop is not None:
            f.write('##FORMAT=<ID=POP,Number=2,Type=String,Description="Origin Population of each respective allele in GT">\n')
        f.write("#CHROM\tPOS\tID\tREF\tALT\tQUAL\tFILTER\tINFO\tFORMAT\t" + "\t".join(samples) + "\n")
        for j, v in enumerate(variants):
            cells = []
            for s in range(len(samples)):
                a, b = data[s][j]
                g = f"{'.' if a == 255 else a}{'/' if (s, j) in unph else '|'}{'.' if b == 255 else b}"
                if pop is not None:
                    g += f":{pop[s][j][0]},{pop[s][j][1]}"
                cells.append(g)
            f.write(f"{v[1]}\t{v[2]}\t{v[0]}\t{v[3][0]}\t{','.join(v[3][1:])}\t.\t.\t.\t"
                    f"GT{':POP' if pop is not None else ''}\t" + "\t".join(cells) + "\n")
    if not index:
        return path
    pysam.tabix_compress(path, path + ".gz", force=True)
    pysam.tabix_index(path + ".gz", preset="vcf", force=True)
    os.unlink(path)
    return path + ".gz"


def rename_vcf(path, new):
    """the plain VCF under another suffix: .VCF (the same text) or .bcf (converted with pysam, un-indexed)"""
    import pysam

    if new.endswith(".bcf"):
        vin = pysam.VariantFile(path)
        out = pysam.VariantFile(new, "wb", header=vin.header)
        for r in vin:
            out.write(r)
        out.close()
        vin.close()
        os.unlink(path)
    else:
        os.rename(path, new)
    return new


def write_pgen(prefix, samples, variants, data, unph=()):
    import pgenlib

    unph = {(int(a), int(b)) for a, b in unph}

    with open(prefix + ".psam", "w") as f:
        f.write("#IID\tSEX\n")
        for s in samples:
            f.write(f"{s}\tNA\n")
    with open(prefix + ".pvar", "w") as f:
        f.write("#CHROM\tPOS\tID\tREF\tALT\n")
        for v in variants:
            f.write(f"{v[1]}\t{v[2]}\t{v[0]}\t{v[3][0]}\t{','.join(v[3][1:])}\n")
    n = len(samples)
    maxct = max(len(v[3]) for v in variants)
    with pgenlib.PgenWriter(filename=(prefix + ".pgen").encode(), sample_ct=n, variant_ct=len(variants),
                            nonref_flags=False, allele_ct_limit=maxct, hardcall_phase_present=True) as w:
        for j, v in enumerate(variants):
            row = np.array([(-9 if data[s][j][t] == 255 else data[s][j][t]) for s in range(n) for t in range(2)],
                           dtype=np.int32)
            if any((s, j) in unph for s in range(n)):
                # phasepresent may only be set for heterozygous calls
                pp = np.array([(s, j) not in unph and data[s][j][0] != data[s][j][1] and 255 not in data[s][j]
                               for s in range(n)], dtype=np.uint8)
                w.append_partially_phased(row, pp, allele_ct=len(v[3]))
            else:
                w.append_alleles(row, all_phased=True, allele_ct=len(v[3]))
    return prefix + ".pgen"


#: line layouts of a plain (un-indexed) .hap file.  The first three keep the V lines of a haplotype together; the others
#: interleave the V lines of DIFFERENT haplotypes (legal: a V line names its haplotype), which is what distinguishes a
#: reader that collects the V lines per haplotype ID from one that assumes a haplotype's V lines are consecutive.
#: Every layout keeps the relative order of the H / R lines (= order of the output records) and of the V lines of
#: one haplotype (= Haplotype.variants), so the logical content is the same `haps` list.
LAYOUTS_GROUPED = ["HV", "interleaved", "V-first"]
LAYOUTS_MIXED = ["V-roundrobin", "V-split", "V-around-H", "merge"]


def _merge_stable(seqs, rng):
    """a random interleaving of the sequences that keeps the order inside each of them"""
    slots = [i for i, s in enumerate(seqs) for _ in s]
    slots = [slots[i] for i in rng.permutation(len(slots))]
    its = [iter(s) for s in seqs]
    return [next(its[i]) for i in slots]


def hap_lines(haps, layout="HV"):
    """the H / R / V lines of a .hap file in file order: ["H", hap] or ["V", hap id, V entry].
    layout: HV (all H/R lines, then the V lines haplotype by haplotype) | interleaved (each H line followed by its V
    lines) | V-first (V lines haplotype by haplotype, then the H/R lines) | V-roundrobin (H/R lines, then the first V
    line of every haplotype, the second of every haplotype, ...) | V-split (H/R lines, the first half of every
    haplotype's V lines, then the second halves: a haplotype's V lines in two runs around the others') | V-around-H
    (first halves round-robin BEFORE the H/R lines, second halves in reverse haplotype order after them) |
    merge:<seed> (any interleaving of the H/R sequence and the per-haplotype V sequences: fully shuffled up to the
    orders that carry meaning)"""
    heads = [["H", h] for h in haps]
    vs = [[["V", h["id"], v] for v in h["vars"]] for h in haps if not h["rep"]]
    flat = [x for s in vs for x in s]
    name = layout.split(":")[0]

    def robin(seqs):
        out, k = [], 0
        while any(k < len(s) for s in seqs):
            out += [s[k] for s in seqs if k < len(s)]
            k += 1
        return out

    if name == "V-first":
        return flat + heads
    if name == "interleaved":
        out = []
        for h in haps:
            out.append(["H", h])
            if not h["rep"]:
                out += [["V", h["id"], v] for v in h["vars"]]
        return out
    if name == "V-roundrobin":
        return heads + robin(vs)
    if name == "V-split":
        return heads + [x for s in vs for x in s[: (len(s) + 1) // 2]] + [x for s in vs for x in s[(len(s) + 1) // 2:]]
    if name == "V-around-H":
        return robin([s[: len(s) // 2] for s in vs]) + heads + [x for s in vs[::-1] for x in s[len(s) // 2:]]
    if name == "merge":
        seed = int(layout.split(":")[1]) if ":" in layout else 0
        return _merge_stable([heads] + vs, np.random.default_rng([seed, 11]))
    return heads + flat


def vlines_interleaved(haps, layout):
    """does some haplotype's run of V lines come up again after V lines of another haplotype?"""
    seen, last = set(), None
    for ln in hap_lines(haps, layout):
        if ln[0] == "V":
            if ln[1] != last and ln[1] in seen:
                return True
            seen.add(ln[1])
            last = ln[1]
    return False


def pick_layout(rng, mixed_p=0.5):
    if rng.random() < mixed_p:
        name = LAYOUTS_MIXED[int(rng.integers(0, len(LAYOUTS_MIXED)))]
        return f"merge:{int(rng.integers(0, 2**31))}" if name == "merge" else name
    return LAYOUTS_GROUPED[int(rng.integers(0, len(LAYOUTS_GROUPED)))]


def write_hap(path, haps, anc, indexed, layout="HV"):
    import pysam

    body = []
    if anc:
        body += ["#\torderH\tancestry", "#\tversion\t0.2.0", "#H\tancestry\ts\tLocal ancestry"]
    else:
        body += ["#\tversion\t0.2.0"]
    for ln in hap_lines(haps, "HV" if indexed else layout):
        if ln[0] == "V":
            v = ln[2]
            body.append(f"V\t{ln[1]}\t{v[2]}\t{v[3]}\t{v[0]}\t{v[1]}")
        else:
            h = ln[1]
            if h["rep"]:
                body.append(f"R\t{h['chrom']}\t{h['start']}\t{h['end']}\t{h['id']}")
            else:
                body.append(f"H\t{h['chrom']}\t{h['start']}\t{h['end']}\t{h['id']}" + (f"\t{h['anc']}" if anc else ""))
    with open(path, "w") as f:
        f.write("\n".join(body) + "\n")
    if indexed:
        pysam.tabix_index(path, seq_col=1, start_col=2, end_col=3, force=True)  # makes path.gz + .tbi, removes path
        return path + ".gz"
    return path


def write_bp(path, order, tracts):
    with open(path, "w") as f:
        for s in order:
            for t in range(2):
                f.write(f"{s}_{t + 1}\n")
                for lab, c, e in tracts[s][t]:
                    f.write(f"{lab}\t{c}\t{e}\t{e / 1e6:.6f}\n")


def read_vcf_out(path):
    import pysam

    vf = pysam.VariantFile(path)
    samples = list(vf.header.samples)
    recs, cols = [], []
    for r in vf:
        recs.append([r.id, r.chrom, int(r.pos)])
        cols.append([[int(bool(x)) if x is not None else 9 for x in r.samples[s]["GT"]] for s in samples])
    vf.close()
    data = [[cols[i][s] for i in range(len(recs))] for s in range(len(samples))]
    return {"recs": recs, "samples": samples, "data": data}


def read_pgen_out(path):
    import pgenlib

    prefix = path[:-5]
    samples = []
    with open(prefix + ".psam") as f:
        hdr = None
        for ln in f:
            x = ln.rstrip("\n").split("\t")
            if hdr is None:
                hdr = [c.lstrip("#") for c in x]
                continue
            if ln.strip():
                samples.append(x[hdr.index("IID")])
    recs = []
    with open(prefix + ".pvar") as f:
        hdr = None
        for ln in f:
            if ln.startswith("##"):
                continue
            x = ln.rstrip("\n").split("\t")
            if hdr is None:
                hdr = [c.lstrip("#") for c in x]
                continue
            if ln.strip():
                recs.append([x[hdr.index("ID")], x[hdr.index("CHROM")], int(x[hdr.index("POS")])])
    n = len(samples)
    cols = []
    if recs:
        rd = pgenlib.PgenReader(path.encode())
        for i in range(len(recs)):
            buf = np.empty(2 * n, dtype=np.int32)
            rd.read_alleles(i, buf)
            cols.append([[int(buf[2 * s]), int(buf[2 * s + 1])] for s in range(n)])
        rd.close()
    data = [[cols[i][s] for i in range(len(recs))] for s in range(n)]
    return {"recs": recs, "samples": samples, "data": data}


def region_str(r):
    if r is None:
        return None
    c, a, b = r
    if a is None:
        return c
    return f"{c}:{a}-{'' if b is None else b}"


def pop_matrix(inp):
    anc = inp["anc"]
    return [[[label_at(anc["tracts"][s][t], v[1], v[2]) for t in range(2)] for v in inp["vars"]] for s in inp["samples"]]


def permute_gt(inp, perm):
    """the same logical data with the records of the genotype file in another order"""
    return dict(inp, vars=[inp["vars"][j] for j in perm], data=[[row[j] for j in perm] for row in inp["data"]])


def fix_runs(inp, k=0):
    """which runs are possible for this input: an unsorted genotype file cannot be tabix-indexed, so a VCF in that
    order is read un-indexed and without a region; with ancestry the POP-field run and the .bp run are always made on
    the same data"""
    srt = is_sorted_vars(inp["vars"])
    use_anc = inp["anc"] is not None
    region = inp["region"]
    if not srt and use_anc and region is not None:
        inp = dict(inp, region=None)
        region = None
    old = inp.get("runs") or []
    cli = bool(old and old[0].get("cli"))
    gz = bool(srt and (region is not None or (old and old[0].get("gz", True))))
    dup = len({v[0] for v in inp["vars"]}) < len(inp["vars"])
    # a half-missing call ('.|1') cannot be stored in a PGEN file: such data only goes through VCF inputs
    dup = dup or any((c[0] == 255) != (c[1] == 255) for row in inp["data"] for c in row)
    if use_anc:
        runs = [{"fmt": "vcf", "src": "pop"}, {"fmt": "vcf", "src": "bp"}]
        if (k % 2 == 0 or not srt) and not dup:
            runs.append({"fmt": "pgen", "src": "bp"})
    elif srt or region is None or dup:
        runs = [{"fmt": "vcf", "src": "none"}] + ([] if dup else [{"fmt": "pgen", "src": "none"}])
    else:
        runs = [{"fmt": "pgen", "src": "none"}, {"fmt": "pgen", "src": "none"}]
    outs = ["vcf", "pgen"]
    for i, rr in enumerate(runs):
        rr["out"] = outs[(k + i) % 2]
        rr["cli"] = cli
        rr["gz"] = gz
    return dict(inp, runs=runs)


# ---- the names of the files.  `transform` finds the breakpoints file by name: "the same name as the genotypes file
#      but with a .bp file ending" (docs/commands/transform.rst), i.e. <stem>.bp beside <stem>.vcf / .vcf.gz / .bcf /
#      .pgen, whatever dots the stem and the directories contain.  An input may carry
#        "names": {"dir": sub-directory ("" = none), "stem": file stem, "ext": vcf | bcf | VCF (suffix of the
#                  un-indexed VCF/BCF run), "decoys": [[path relative to the run's directory, kind], ...],
#                  "stale_pop": the VCF of the .bp run ALSO has POP fields, of another data set}
#      decoys = another data set's .bp under a name that a wrong derivation would pick (kind "rot": the same samples with
#      every label replaced by another one; "foreign": other sample names).  The .bp named after the genotypes file
#      (written for the runs with src = "bp") is the right one by definition; holds / f_expected use its content.
DEFAULT_NAMES = {"dir": "", "stem": "g", "ext": "vcf", "decoys": [], "stale_pop": False}
STEMS = ["g", "a.b", "cohort.chr1", "x.vcf", "sim.v2", ".hidden", "x.gz", "a..b", "S.pgen", "geno.bp", "chr1.1-5000.v3",
         "v.", "cohort.chr1.vcf", "Gen.VCF.x"]
DIRS = ["", "", "", "d.v1", "run.2024.vcf", "a.b/c.d", "nodots", ".cache"]


def names_of(inp):
    return dict(DEFAULT_NAMES, **(inp.get("names") or {}))


def gt_suffix(inp, run):
    if run["fmt"] == "pgen":
        return ".pgen"
    return ".vcf.gz" if run.get("gz", True) else "." + names_of(inp)["ext"]


def gt_relpath(inp, run):
    nm = names_of(inp)
    return os.path.join(nm["dir"], nm["stem"] + gt_suffix(inp, run))


def right_bp_relpath(inp):
    """the breakpoints file that accompanies the genotypes: by construction of the names, not by pathlib"""
    nm = names_of(inp)
    return os.path.join(nm["dir"], nm["stem"] + ".bp")


def wrong_bp_relpaths(dirp, stem, suffixes):
    """names that plausible wrong derivations of the .bp path would pick for dirp/stem+suffix"""
    c = set()
    for suf in suffixes:
        nm = stem + suf
        lead = len(nm) - len(nm.lstrip("."))
        cands = [
            nm[:lead] + nm[lead:].split(".")[0],                     # every suffix stripped
            nm,                                                      # .bp appended
            nm.rsplit(".", 1)[0],                                    # one suffix stripped (wrong for .vcf.gz)
            nm.rsplit(".", 2)[0],                                    # two suffixes stripped (wrong for .vcf / .pgen)
            nm.replace(".vcf.gz", "").replace(".vcf", "").replace(".bcf", "").replace(".pgen", "").replace(".gz", ""),
            nm.rstrip(".vcfgzpenb"),                                 # str.rstrip taken for "remove this suffix"
            nm.lower().rsplit(".", 1)[0],
        ]
        for x in cands:
            if x and x not in (".", ".."):
                c.add(os.path.join(dirp, x + ".bp"))
        full = os.path.join(dirp, nm)
        if "." in dirp:
            c.add(full.split(".")[0] + ".bp" if not full.startswith(".") else "." + full[1:].split(".")[0] + ".bp")
    right = os.path.join(dirp, stem + ".bp")
    return sorted(x for x in c if x != right and os.path.basename(x) not in ("", ".bp") and not x.endswith("/.bp"))


def gen_names(rng, fancy_p=0.45):
    if rng.random() >= fancy_p:
        return None
    stem = STEMS[int(rng.integers(0, len(STEMS)))]
    dirp = DIRS[int(rng.integers(0, len(DIRS)))]
    ext = str(rng.choice(["vcf", "vcf", "bcf", "VCF"]))
    cands = wrong_bp_relpaths(dirp, stem, [".vcf", ".vcf.gz", ".pgen", "." + ext])
    decoys = []
    if cands and rng.random() < 0.75:
        for i in rng.permutation(len(cands))[: int(rng.integers(1, 4))].tolist():
            decoys.append([cands[i], "rot" if rng.random() < 0.7 else "foreign"])
    return {"dir": dirp, "stem": stem, "ext": ext, "decoys": sorted(decoys), "stale_pop": bool(rng.random() < 0.3)}


def rot_label(lab):
    """another data set's label where this one has `lab`"""
    if lab in LABELS:
        return LABELS[(LABELS.index(lab) + 1) % len(LABELS)]
    return "UNK" if lab is None else str(lab)[:5] + "x"


def decoy_bp(anc, kind):
    """(sample order, tracts) of another data set's .bp"""
    ren = (lambda s: s) if kind == "rot" else (lambda s: "Z" + s)
    tracts = {ren(s): [[[rot_label(lab), c, e] for lab, c, e in tl] for tl in anc["tracts"][s]] for s in anc["tracts"]}
    return [ren(s) for s in anc["bp_order"]], tracts


def str_term(s):
    return L.zl([ord(ch) for ch in s])


class File(Relation):
    name = "file"
    coq_module = "C04_CheckIO"
    coq_check = "check_filen"
    coq_case_type = "ncase"
    coq_model = "model_filen"
    coq_imports = ["Tracts", "C04_Model", "C04_Check", "C04_ModelOpt", "C04_CheckOpt", "C04_ModelIO"]
    budget = {"quick": 240, "thorough": 3000}

    def preamble(self):
        return "From Coq Require Import PrimFloat.\nOpen Scope Z_scope."

    max_cases_per_shard = 120
    timeout_per_case = 180
    anchors = [
        ("haptools/transform.py", "transform_haps"),
        ("haptools/transform.py", "HaplotypesAncestry.transform"),
        ("haptools/transform.py", "GenotypesAncestry._iterate"),
        ("haptools/data/haplotypes.py", "Haplotypes.transform"),
        ("haptools/data/haplotypes.py", "Haplotypes.read"),
        ("haptools/data/haplotypes.py", "Haplotypes.subset"),
        ("haptools/data/breakpoints.py", "Breakpoints.population_array"),
    ]

    def _case(self, rng, k):
        n = int(rng.integers(1, 6))
        p = int(rng.integers(1, 9))
        nchrom = int(rng.choice([1, 1, 2, 3]))
        # order of the records in the genotype file (VCF and PVAR): position-sorted, chromosomes interleaved
        # (1,2,1,2,...), any permutation, descending
        gt_order = str(rng.choice(["sorted", "sorted", "sorted", "interleaved", "interleaved", "shuffled", "reversed"]))
        if gt_order == "interleaved":
            nchrom = int(rng.choice([2, 2, 3]))
            p = max(p, nchrom + 1)
        variants = gen_variants(rng, p, nchrom, spread=(gt_order == "interleaved"))
        variants = [variants[j] for j in order_perm(rng, variants, gt_order)]
        names = ["S1", "HG00096", "a_b", "x_1", "NA12878", "s_2_1"]
        samples = [names[i] for i in rng.permutation(len(names))[:n]]
        data = gen_data(rng, n, variants)
        kind = "plain"
        anc = None
        labels = None
        anc_at = None
        use_anc = rng.random() < 0.55
        if use_anc:
            kind = "ancestry"
            labels = LABELS[: int(rng.integers(1, 4))]
            chroms = []
            for v in variants:
                if v[1] not in chroms:
                    chroms.append(v[1])
            tracts = {}
            poss = [v[2] for v in variants]
            for s in samples:
                tracts[s] = []
                for t in range(2):
                    tl = []
                    for c in chroms:
                        m = int(rng.integers(0, 3))
                        cand = sorted(set(int(x) + int(d) for x in rng.choice(poss, size=m) for d in [rng.integers(-1, 2)]
                                          if int(x) + int(d) >= 1)) if m else []
                        for e in cand + [int(rng.choice([MAXI, max(poss) + 5, max(poss)]))]:
                            if not tl or tl[-1][1] != c or tl[-1][2] < e:
                                tl.append([labels[int(rng.integers(0, len(labels)))], c, e])
                    tracts[s].append(tl)
            order = [samples[i] for i in rng.permutation(n)]
            if rng.random() < 0.25:
                extra = "EXTRA_9"
                tracts[extra] = [[[labels[0], c, MAXI] for c in chroms], [[labels[0], c, MAXI] for c in chroms]]
                order.insert(int(rng.integers(0, len(order) + 1)), extra)
            anc = {"tracts": tracts, "bp_order": order}
            sidx = {s: i for i, s in enumerate(samples)}
            anc_at = lambda s, j, t: label_at(tracts[samples[s]][t], variants[j][1], variants[j][2])
        haps = gen_haps(rng, variants, data, labels, anc_at, missing_p=0.2, absent_allele_p=0.03)
        # options
        region = None
        ids = None
        samp = None
        r = rng.random()
        if r < 0.45:
            c = variants[int(rng.integers(0, p))][1]
            poss = sorted({v[2] for v in variants if v[1] == c} | {h["start"] for h in haps if h["chrom"] == c}
                          | {h["end"] for h in haps if h["chrom"] == c})
            form = int(rng.integers(0, 3))
            if form == 0:
                region = [c, None, None]
            else:
                a = max(1, int(rng.choice(poss)) + int(rng.integers(-1, 2)))
                b = max(a, int(rng.choice(poss)) + int(rng.integers(-1, 2)))
                region = [c, a, b if form == 1 else None]
        srt = is_sorted_vars(variants)
        if not srt and use_anc:
            region = None      # a region needs a tabix index, which needs sorted records; POP fields need a VCF
        if rng.random() < 0.35:
            allids = [h["id"] for h in haps]
            m = int(rng.integers(1, len(allids) + 1))
            ids = [allids[i] for i in sorted(rng.permutation(len(allids))[:m].tolist())]
            if rng.random() < 0.3:
                ids.append("NOSUCH")
        if rng.random() < 0.35:
            m = int(rng.integers(1, n + 1))
            samp = [samples[i] for i in rng.permutation(n)[:m].tolist()]
            if rng.random() < 0.3:
                samp.append("NOBODY")
        indexed = bool(region is not None or rng.random() < 0.4)
        if indexed:
            haps = sorted(haps, key=lambda h: (h["chrom"], h["start"], h["end"], h["id"]))
            haps = [dict(h, vars=sorted(h["vars"], key=lambda v: (v[2], v[3], v[0]))) for h in haps]
        else:
            haps = [haps[i] for i in rng.permutation(len(haps))]
            if rng.random() < 0.06:
                # a haplotype without variants (vacuously present everywhere); only in plain files: the indexed
                # reader cannot fetch the V lines of such a haplotype (reported as a candidate finding for C06/C11)
                haps.insert(int(rng.integers(0, len(haps) + 1)),
                            {"id": "HE", "chrom": variants[0][1], "start": 3, "end": 4,
                             "anc": (labels[0] if labels else None), "vars": [], "rep": False})
        layout = pick_layout(rng, 0.6)
        # malformed stream
        r = rng.random()
        if use_anc and r < 0.05:
            kind += "+bp-short"
            s = samples[int(rng.integers(0, n))]
            for t in range(2):
                anc["tracts"][s][t] = [x for x in anc["tracts"][s][t] if x[2] < max(v[2] for v in variants)] or \
                    [[labels[0], variants[0][1], 1]]
        elif use_anc and r < 0.08:
            kind += "+bp-sample-missing"
            anc["bp_order"] = [s for s in anc["bp_order"] if s != samples[0]]
        elif r < 0.11 and ids is not None:
            kind += "+no-such-id"
            ids = ["NOSUCH"]
        # which runs
        cli = bool(rng.random() < 0.35)
        gz = bool(rng.random() < 0.7)
        case = {"samples": samples, "vars": variants, "data": data, "haps": haps, "indexed": indexed, "region": region,
                "ids": ids, "samp": samp, "anc": anc, "runs": [{"cli": cli, "gz": gz}], "kind": kind, "layout": layout,
                "gt_order": gt_order}
        nm = gen_names(np.random.default_rng([int(rng.integers(0, 2**31)), 7]))
        if nm is not None:
            case["names"] = nm
        if rng.random() < 0.3:
            case = self._add_opts(np.random.default_rng([int(rng.integers(0, 2**31)), 5]), case)
        return fix_runs(case, k)

    MAF_THRESHOLDS = [0.0, 0.05, 0.1, 0.125, 0.2, 0.25, 0.3, 0.5, 0.75]

    def _add_opts(self, rng, case):
        """what `haptools transform` takes beyond --region/--id/--sample/--ancestry: missing calls ('.|.', rarely
        '.|1') with and without --discard-missing, calls written unphased (heterozygous: refused; homozygous or in a
        record that is not loaded: harmless), --maf on the output (thresholds on, next to and between attainable
        frequencies), --chunk-size 1 / 2 / p / > p"""
        samples, variants = case["samples"], case["vars"]
        n, p = len(samples), len(variants)
        data = [[list(c) for c in row] for row in case["data"]]
        requested = [i for i, s in enumerate(samples) if case["samp"] is None or s in case["samp"]]
        half_ok = is_sorted_vars(variants)      # '.|1' needs a VCF input, which an unsorted file cannot always be
        opts = {}
        unph = []
        r = rng.random()
        if r < 0.55:
            # missing calls; one requested sample stays complete (an output without samples is C07's subject)
            keep_one = requested[int(rng.integers(0, len(requested)))] if requested else None
            cand = [i for i in range(n) if i != keep_one]
            for _ in range(int(rng.integers(1, 4))):
                if not cand:
                    break
                s0, j0 = cand[int(rng.integers(0, len(cand)))], int(rng.integers(0, p))
                data[s0][j0] = [255, 255] if (rng.random() < 0.8 or not half_ok) else (
                    [255, data[s0][j0][1]] if rng.random() < 0.5 else [data[s0][j0][0], 255])
            opts["discard"] = bool(rng.random() < 0.65)
            if not cand and rng.random() < 0.5:
                data[0][int(rng.integers(0, p))] = [255, 255]          # the only sample: the run must refuse
                opts["discard"] = False
        elif r < 0.65:
            opts["discard"] = True                                        # nothing to discard
        if rng.random() < 0.3:
            for _ in range(int(rng.integers(1, 3))):
                unph.append([int(rng.integers(0, n)), int(rng.integers(0, p))])
        if rng.random() < 0.5:
            nreq = max(1, len(requested))
            att = [k / (2 * nreq) for k in range(0, nreq + 1)]
            thr = float(rng.choice(self.MAF_THRESHOLDS + att + att))
            if rng.random() < 0.15:
                thr = float(np.nextafter(thr, 1.0 if rng.random() < 0.5 else -1.0))
            opts["maf"] = thr
        if rng.random() < 0.4:
            opts["chunk"] = int(rng.choice([1, 2, max(1, p), p + 3]))
        return dict(case, data=data, opts=opts, unph=unph, kind=case["kind"] + "+options")

    WIDTH_KINDS = ["labels", "labels", "alleles"]

    def _width_case(self, rng, k, kind=None):
        """np.uint8 ancestry codes and genotype cells at their limits: 254 / 255 / 256 / 257 distinct ancestry labels
        in the POP fields that are loaded and in the tracts of the .bp file (the 257th is refused with OverflowError
        by both readers; with a --sample / --region subset one source may stay below the limit while the other does
        not), haplotypes labelled with the first, the 128th, the 256th label; variants with 130 / 254 alleles and
        haplotypes listing allele #127 / #128 / #200 / #253"""
        kind = kind or self.WIDTH_KINDS[int(rng.integers(0, len(self.WIDTH_KINDS)))]
        if kind == "labels":
            nl = int(rng.choice([254, 255, 256, 256, 257, 257]))
            n = 2
            p = int(rng.integers(65, 68))
            samples = ["S1", "a_b"]
            variants = [[f"v{j}", "1", 10 * (j + 1), ["A", "C"]] for j in range(p)]
            data = [[[int(rng.integers(0, 2)), int(rng.integers(0, 2))] for _ in range(p)] for _ in range(n)]
            off = int(rng.integers(0, nl))
            tracts, where, c = {}, {}, 0
            for si, s in enumerate(samples):
                tracts[s] = []
                for t in range(2):
                    tl = []
                    for j in range(p):
                        li = (off + c) % nl
                        where.setdefault(li, (si, j, t))
                        tl.append([f"L{li}", "1", variants[j][2] if j < p - 1 else MAXI])
                        c += 1
                    tracts[s].append(tl)
            haps = []
            full = rng.random() < 0.8
            if full:
                # one haplotype lists every record: all POP fields are loaded
                s0, t0 = int(rng.integers(0, n)), int(rng.integers(0, 2))
                haps.append({"id": "HW", "chrom": "1", "start": 10, "end": 10 * p + 1, "anc": f"L{off}",
                             "vars": [[v[0], v[3][data[s0][j][t0]], v[2], v[2] + 1] for j, v in enumerate(variants)],
                             "rep": False})
            for i, li in enumerate([0, 127, 128, 254, 255, nl - 1]):
                if li >= nl:
                    continue
                si, j, t = where[li]
                v = variants[j]
                haps.append({"id": f"H{i}", "chrom": "1", "start": v[2], "end": v[2] + 1, "anc": f"L{li}",
                             "vars": [[v[0], v[3][data[si][j][t]], v[2], v[2] + 1]], "rep": False})
            haps.append({"id": "HZ", "chrom": "1", "start": 20, "end": 21, "anc": ABSENT_LABEL,
                         "vars": [["v1", "A", 20, 21]], "rep": False})
            samp = None if rng.random() < 0.7 else [samples[int(rng.integers(0, n))]]
            region = None
            indexed = bool(rng.random() < 0.3)
            if indexed:
                haps = sorted(haps, key=lambda h: (h["chrom"], h["start"], h["end"], h["id"]))
                if rng.random() < 0.5:
                    region = ["1", 10, 10 * int(rng.integers(p // 2, p + 1)) + 1]
            case = {"samples": samples, "vars": variants, "data": data, "haps": haps, "indexed": indexed,
                    "region": region, "ids": None, "samp": samp,
                    "anc": {"tracts": tracts, "bp_order": samples[::-1] if rng.random() < 0.5 else samples},
                    "runs": [{"cli": bool(rng.random() < 0.3), "gz": True}], "kind": f"ancestry+width-labels-{nl}",
                    "layout": "HV", "gt_order": "sorted"}
            return fix_runs(case, k)
        K = int(rng.choice([130, 254]))
        als = allele_names(K)
        edge = [0, 1, 127, 128, 129] if K == 130 else [0, 127, 128, 200, 252, 253]
        samples = ["S1", "HG00096", "x_1"]
        n = len(samples)
        variants = [["w0", "1", 10, als], ["w1", "1", 20, ["A", "C", "G"]]]
        data = [[[int(rng.choice(edge)), int(rng.choice(edge))], [int(rng.integers(0, 3)), int(rng.integers(0, 3))]]
                for _ in range(n)]
        use_anc = rng.random() < 0.4
        labs = ["YRI", "CEU"]
        haps = [{"id": f"H{i}", "chrom": "1", "start": 10, "end": 10 + len(als[a]),
                 "anc": (labs[int(rng.integers(0, 2))] if use_anc else None),
                 "vars": [["w0", als[a], 10, 10 + len(als[a])]], "rep": False} for i, a in enumerate(edge)]
        a = edge[int(rng.integers(0, len(edge)))]
        haps.append({"id": "HX", "chrom": "1", "start": 10, "end": 21, "anc": (labs[0] if use_anc else None),
                     "vars": [["w0", als[a], 10, 10 + len(als[a])], ["w1", "C", 20, 21]], "rep": False})
        anc = None
        if use_anc:
            tracts = {s: [[[labs[int(rng.integers(0, 2))], "1", int(rng.choice([10, 15, 19]))],
                           [labs[int(rng.integers(0, 2))], "1", MAXI]] for _ in range(2)] for s in samples}
            anc = {"tracts": tracts, "bp_order": [samples[i] for i in rng.permutation(n)]}
        case = {"samples": samples, "vars": variants, "data": data, "haps": haps, "indexed": False, "region": None,
                "ids": None, "samp": None, "anc": anc, "runs": [{"cli": bool(rng.random() < 0.3), "gz": True}],
                "kind": ("ancestry" if use_anc else "plain") + f"+width-alleles-{K}", "layout": "HV", "gt_order": "sorted"}
        return fix_runs(case, k)

    def generate(self, rng, n, tier):
        out = [self._case(rng, k) for k in range(n)]
        wr = np.random.default_rng([int(rng.integers(0, 2**31)), 6])
        nw = 2 if tier == "quick" else 16
        kinds = ["labels", "alleles"] if nw == 2 else self.WIDTH_KINDS
        return out + [self._width_case(wr, k, kinds[k % len(kinds)]) for k in range(nw)]

    def exhaustive(self, tier):
        # small scope, all combinations: 2 samples x 2 records (bi- and tri-allelic), every pair of haplotypes
        # from a pool (one/two alleles, REF / ALT1 / ALT2, one with an absent variant), both .bp sample orders,
        # ancestry tracts switching exactly on / just before a record, region forms around the second record,
        # --id and --sample subsets, indexed and plain .hap files
        import itertools

        variants = [["v0", "1", 10, ["A", "C"]], ["v1", "1", 20, ["G", "T", "C"]]]
        samples = ["s1", "s_2"]
        datas = [[[[1, 0], [2, 1]], [[1, 1], [0, 2]]]]
        pool = [
            [["v0", "C", 10, 11]],
            [["v1", "C", 20, 21]],
            [["v0", "C", 10, 11], ["v1", "C", 20, 21]],
            [["v0", "A", 10, 11], ["v1", "T", 20, 21]],
            [["v0", "C", 10, 11], ["m0", "A", 25, 26]],
        ]
        tract_sets = [
            {"s1": [[["YRI", "1", 10], ["CEU", "1", MAXI]], [["YRI", "1", MAXI]]],
             "s_2": [[["CEU", "1", 19], ["YRI", "1", MAXI]], [["CEU", "1", 20], ["YRI", "1", MAXI]]]},
        ]
        regions = [None, ["1", None, None], ["1", 15, None], ["1", 10, 20], ["1", 10, 21]]
        out = []
        k = 0
        for (i, j), region, ids, samp, anc_on, order, indexed in itertools.product(
                itertools.combinations(range(len(pool)), 2), regions, [None, ["H0"]], [None, ["s_2"]],
                [False, True], [["s1", "s_2"], ["s_2", "s1"]], [True, False]):
            if region is not None and not indexed:
                continue
            if not anc_on and order != samples:
                continue
            haps = []
            for n, x in enumerate((i, j)):
                hv = pool[x]
                haps.append({"id": f"H{n}", "chrom": "1", "start": min(v[2] for v in hv), "end": max(v[3] for v in hv),
                             "anc": (["YRI", "CEU", ABSENT_LABEL][(x + n) % 3] if anc_on else None), "vars": hv,
                             "rep": False})
            haps.insert(1, {"id": "R0", "chrom": "1", "start": 12, "end": 14, "anc": None, "vars": [], "rep": True})
            if indexed:
                haps = sorted(haps, key=lambda h: (h["chrom"], h["start"], h["end"], h["id"]))
            anc = {"tracts": tract_sets[0], "bp_order": order} if anc_on else None
            if anc_on:
                runs = [{"fmt": "vcf", "src": "pop"}, {"fmt": "vcf", "src": "bp"}, {"fmt": "pgen", "src": "bp"}]
            else:
                runs = [{"fmt": "vcf", "src": "none"}, {"fmt": "pgen", "src": "none"}]
            for n, rr in enumerate(runs):
                rr["out"] = ["vcf", "pgen"][(k + n) % 2]
                rr["cli"] = (k % 3 == 0)
            k += 1
            out.append({"samples": samples, "vars": variants, "data": datas[0], "haps": haps, "indexed": indexed,
                        "region": region, "ids": ids, "samp": samp, "anc": anc, "runs": runs, "kind": "exhaustive",
                        "layout": "HV"})
        out = out[:: (1 if tier == "thorough" else 5)]
        # every order of the records of a two-chromosome genotype file (2 records each, equal coordinates on the two
        # chromosomes, different ancestry there), ancestry from POP fields and from the .bp file, with a haplotype per
        # chromosome and label
        v4 = [["c1a", "1", 100, ["A", "G"]], ["c2a", "2", 100, ["C", "T"]], ["c1b", "1", 200, ["G", "A", "T"]],
              ["c2b", "2", 200, ["T", "C"]]]
        d4 = [[[1, 1], [1, 0], [2, 1], [1, 1]], [[1, 0], [1, 1], [0, 2], [0, 1]]]
        tr4 = {"s1": [[["YRI", "1", 150], ["CEU", "1", MAXI], ["CEU", "2", 100], ["YRI", "2", MAXI]],
                      [["CEU", "1", MAXI], ["YRI", "2", 199], ["CEU", "2", MAXI]]],
               "s_2": [[["CEU", "1", 99], ["YRI", "1", MAXI], ["YRI", "2", MAXI]],
                       [["YRI", "2", 150], ["CEU", "2", 300], ["YRI", "1", 100], ["CEU", "1", 200]]]}
        hsets = [
            [("1", "YRI", [["c1a", "G", 100, 101]]), ("2", "YRI", [["c2a", "T", 100, 101]])],
            [("1", "CEU", [["c1b", "T", 200, 201], ["c1a", "G", 100, 101]]),
             ("2", "CEU", [["c2a", "T", 100, 101], ["c2b", "C", 200, 201]])],
            [("2", "YRI", [["c2b", "C", 200, 201]]), ("1", "YRI", [["c1a", "G", 100, 101], ["c1b", "A", 200, 201]])],
        ]
        extra = []
        for k, (perm, hs, anc_on) in enumerate(itertools.product(itertools.permutations(range(4)), range(len(hsets)),
                                                                 [True, False])):
            haps = [{"id": f"H{n}", "chrom": c, "start": min(v[2] for v in hv), "end": max(v[3] for v in hv),
                     "anc": (lab if anc_on else None), "vars": hv, "rep": False}
                    for n, (c, lab, hv) in enumerate(hsets[hs])]
            case = {"samples": samples, "vars": v4, "data": d4, "haps": haps, "indexed": False, "region": None,
                    "ids": None, "samp": (None if k % 4 else ["s_2"]),
                    "anc": ({"tracts": tr4, "bp_order": [["s1", "s_2"], ["s_2", "s1"]][k % 2]} if anc_on else None),
                    "runs": [{"cli": (k % 5 == 0), "gz": (k % 2 == 0)}], "kind": "exhaustive-gt-order",
                    "layout": (LAYOUTS_GROUPED + LAYOUTS_MIXED[:3] + [f"merge:{k}"])[k % 7]}
            extra.append(fix_runs(permute_gt(case, list(perm)), k))
        return out + extra[:: (1 if tier == "thorough" else 6)]

    # ---- what the run is expected to load (python mirror used only to route around C08's PGEN empty-match failure)
    def _wanted_found(self, inp):
        reg = inp["region"]
        sel = [h for h in inp["haps"] if self._hap_sel(inp, h)]
        want = {v[0] for h in sel if not h["rep"] for v in h["vars"]}

        def inreg(v):
            return reg is None or (v[1] == reg[0] and (reg[1] is None or reg[1] <= v[2])
                                   and (reg[2] is None or v[2] <= reg[2]))

        return [v for v in inp["vars"] if v[0] in want and inreg(v)], sel

    def _hap_sel(self, inp, h):
        reg = inp["region"]
        if reg is not None and not (h["chrom"] == reg[0] and (reg[1] is None or reg[1] <= h["start"])
                                    and (reg[2] is None or h["end"] <= reg[2])):
            return False
        return inp["ids"] is None or h["id"] in inp["ids"]

    def run_impl(self, inp):
        d = tempfile.mkdtemp(prefix="hv_c04_")
        try:
            return {"runs": [self._run_one(inp, run, os.path.join(d, f"r{i}")) for i, run in enumerate(inp["runs"])]}
        finally:
            shutil.rmtree(d, ignore_errors=True)

    def _run_one(self, inp, run, d):
        from pathlib import Path

        os.makedirs(d)
        anc = inp["anc"]
        use_anc = run["src"] != "none"
        found, sel = self._wanted_found(inp)
        if run["fmt"] == "pgen" and (not found or not sel):
            return {"skipped": "pgen-empty-match"}
        hapf = write_hap(os.path.join(d, "h.hap"), inp["haps"], use_anc, inp["indexed"], inp.get("layout", "HV"))
        nm = names_of(inp)
        base = os.path.join(d, nm["dir"], nm["stem"])
        os.makedirs(os.path.dirname(base), exist_ok=True)
        if run["fmt"] == "vcf":
            pop = pop_matrix(inp) if run["src"] == "pop" else None
            if pop is not None and any(x is None for s in pop for c in s for x in c):
                return {"skipped": "pop-undefined"}
            if run["src"] == "bp" and nm["stale_pop"]:
                # POP fields of another data set beside the right .bp: the .bp wins (docs/commands/transform.rst)
                pop = [[[rot_label(x) for x in c] for c in s] for s in pop_matrix(inp)]
            gtf = write_vcf(base + ".vcf", inp["samples"], inp["vars"], inp["data"], pop,
                            index=run.get("gz", True), unph=inp.get("unph") or ())
            if gtf.endswith(".vcf") and nm["ext"] != "vcf":
                gtf = rename_vcf(gtf, base + "." + nm["ext"])
        else:
            gtf = write_pgen(base, inp["samples"], inp["vars"], inp["data"], unph=inp.get("unph") or ())
        assert os.path.relpath(gtf, d) == gt_relpath(inp, run), (gtf, gt_relpath(inp, run))
        if run["src"] == "bp":
            write_bp(os.path.join(d, right_bp_relpath(inp)), anc["bp_order"], anc["tracts"])
        if anc is not None:
            for rel, kind in nm["decoys"]:
                os.makedirs(os.path.dirname(os.path.join(d, rel)), exist_ok=True)
                write_bp(os.path.join(d, rel), *decoy_bp(anc, kind))
        self._root = d
        outf = os.path.join(d, "out." + run["out"])
        reg = region_str(inp["region"])
        # what the run reports about variants it could not find (any WARNING+ record naming one of them)
        import logging
        import re

        msgs = []

        class Cap(logging.Handler):
            def emit(self, rec):
                if rec.levelno >= logging.WARNING:
                    msgs.append(rec.getMessage())

        fid = {v[0] for v in found}
        absent = {v[0] for h in sel if not h["rep"] for v in h["vars"] if v[0] not in fid}
        omitted = {h["id"] for h in sel if not h["rep"] and any(v[0] not in fid for v in h["vars"])}
        lg = logging.getLogger("haptools.transform")
        cap = Cap()
        lg.addHandler(cap)
        try:
            return self._run_two(inp, run, gtf, hapf, outf, reg, use_anc, msgs, absent | omitted)
        finally:
            lg.removeHandler(cap)

    def _run_two(self, inp, run, gtf, hapf, outf, reg, use_anc, msgs, names):
        from pathlib import Path
        import re

        def warned():
            pat = re.compile(r"variant\(?s?\)? .*(could not be found|absent|missing|not found)", re.I)
            # ("All samples were discarded! Check that none of your variants are missing genotypes" is another report)
            return any(pat.search(m) or any(n in m for n in names) for m in msgs if "samples were discarded" not in m)

        opts = inp.get("opts") or {}
        # record what transform_haps hands to Haplotypes[Ancestry].transform (genotype object, haplotype collection)
        import haptools.transform as _tr
        from haptools.data import haplotypes as _hm

        seen = []

        def wrap(orig):
            def transform(self, gts, hap_gts=None):
                try:
                    g = {"samples": [str(x) for x in gts.samples],
                         "vars": [[str(v["id"]), str(v["chrom"]), int(v["pos"])] for v in gts.variants],
                         "data": np.asarray(gts.data)[:, :, :2].astype(int).tolist(),
                         "haps": [str(k) for k in self.data.keys()], "anc": None}
                    if len(gts.variants) == 0:
                        # an empty match leaves data with shape (0, 0, 0): no cells either way
                        g["data"] = [[] for _ in gts.samples]
                    if getattr(gts, "ancestry", None) is not None:
                        inv = {int(c): str(l) for l, c in gts.ancestry_labels.items()}
                        g["anc"] = [[[inv.get(int(c), "?") for c in cell] for cell in row]
                                    for row in np.asarray(gts.ancestry).tolist()]
                    seen.append(g)
                except Exception as e:  # noqa
                    seen.append({"unrecorded": f"{type(e).__name__}: {e}"[:200]})
                return orig(self, gts, hap_gts)
            return transform

        # ... and which .bp paths the run probes (Path.exists) or opens (Breakpoints.read)
        import pathlib
        from haptools.data import breakpoints as _bm

        root = self._root
        bp_seen = []

        def note(p):
            try:
                p = os.path.abspath(str(p))
                if p.endswith(".bp"):
                    bp_seen.append(os.path.relpath(p, root))
            except Exception:  # noqa
                pass

        saved = (_hm.Haplotypes.transform, _tr.HaplotypesAncestry.transform, pathlib.Path.exists, _bm.Breakpoints.read)

        def exists(self, *a, **k):
            note(self)
            return saved[2](self, *a, **k)

        def bread(self, *a, **k):
            note(self.fname)
            return saved[3](self, *a, **k)

        _hm.Haplotypes.transform = wrap(saved[0])
        _tr.HaplotypesAncestry.transform = wrap(saved[1])
        pathlib.Path.exists = exists
        _bm.Breakpoints.read = bread
        try:
            res = self._run_three(inp, run, gtf, hapf, outf, reg, use_anc, opts, warned)
        finally:
            (_hm.Haplotypes.transform, _tr.HaplotypesAncestry.transform, pathlib.Path.exists,
             _bm.Breakpoints.read) = saved
        res["geno"] = seen[0] if len(seen) == 1 else (None if not seen else {"unrecorded": f"{len(seen)} calls"})
        res["bp_seen"] = sorted(set(bp_seen))
        return res

    def _run_three(self, inp, run, gtf, hapf, outf, reg, use_anc, opts, warned):
        from pathlib import Path

        try:
            if run["cli"]:
                from click.testing import CliRunner
                from haptools.__main__ import main

                args = ["transform", gtf, hapf, "-o", outf, "-v", "WARNING"]
                if reg:
                    args += ["--region", reg]
                for s in inp["samp"] or []:
                    args += ["-s", s]
                for i in inp["ids"] or []:
                    args += ["-i", i]
                if use_anc:
                    args += ["--ancestry"]
                if opts.get("discard"):
                    args += ["--discard-missing"]
                if opts.get("maf") is not None:
                    args += ["--maf", repr(float(opts["maf"]))]
                if opts.get("chunk") is not None:
                    args += ["--chunk-size", str(int(opts["chunk"]))]
                res = CliRunner().invoke(main, args, catch_exceptions=True)
                if res.exception is not None and not isinstance(res.exception, SystemExit):
                    raise res.exception
                if res.exit_code != 0:
                    return {"err": 10, "cls": f"exit {res.exit_code}", "msg": res.output[-300:], "warned": warned()}
            else:
                from haptools.logging import getLogger
                from haptools.transform import transform_haps

                transform_haps(Path(gtf), Path(hapf), reg, set(inp["samp"]) if inp["samp"] is not None else None,
                               set(inp["ids"]) if inp["ids"] is not None else None, opts.get("chunk"),
                               bool(opts.get("discard")), use_anc, opts.get("maf"),
                               Path(outf), getLogger("transform", "WARNING"))
        except Exception as e:  # noqa
            return {"err": err_kind(e), "cls": type(e).__name__, "msg": str(e)[:200], "warned": warned()}
        try:
            out = read_vcf_out(outf) if run["out"] == "vcf" else read_pgen_out(outf)
        except Exception as e:  # noqa
            return {"unreadable": f"{type(e).__name__}: {e}"[:300], "warned": warned()}
        return {"ok": out, "warned": warned()}

    def _tinput(self, inp, run, I):
        gv = L.lst(inp["vars"], lambda v: f"(mkgv {L.z(I(v[0]))} {L.z(I(v[1]))} {L.z(v[2])} {L.zl([I(a) for a in v[3]])})")
        use_anc = run["src"] != "none"
        H = L.lst(inp["haps"], lambda h: hap_term(h, I, use_anc))
        reg = inp["region"]
        regt = "None" if reg is None else f"(Some (mkreg {L.z(I(reg[0]))} {L.opt(reg[1], L.z)} {L.opt(reg[2], L.z)}))"
        ids = L.opt(inp["ids"], lambda l: L.zl([I(x) for x in l]))
        samp = L.opt(inp["samp"], lambda l: L.zl([I(x) for x in l]))
        if run["src"] == "pop":
            anct = f"(PopField {rows_term(pop_matrix(inp), lambda x: L.z(I(x)))})"
        elif run["src"] == "bp":
            segs = lambda tl: L.lst(tl, lambda s: f"(mkseg {L.z(I(s[0]))} {L.z(I(s[1]))} {L.z(s[2])} 0)")
            anct = "(BpFile " + L.lst(inp["anc"]["bp_order"], lambda s: f"({L.z(I(s))}, ({segs(inp['anc']['tracts'][s][0])}, "
                                                                    f"{segs(inp['anc']['tracts'][s][1])}))") + ")"
        else:
            anct = "NoAnc"
        return (f"(mkt {L.zl([I(s) for s in inp['samples']])} {gv} {rows_term(inp['data'], L.z)} {H} {regt} {ids} "
                f"{samp} {anct})")

    def encode(self, inp, obs):
        terms = []
        opts = inp.get("opts") or {}
        runs = obs.get("runs") if isinstance(obs, dict) else None
        os_ = [(runs[i] if runs else {"err": (obs.get("kind", 99) if isinstance(obs, dict) else 99)})
               for i in range(len(inp["runs"]))]

        def out_term(o, I):
            if "ok" in o:
                x = o["ok"]
                return (f"(Ok ({recs_term(x['recs'], I)}, {L.zl([I(s) for s in x['samples']])}, "
                        f"{bmat_term(x['data'])}))")
            if "err" in o:
                return f"(Err {L.z(o['err'])})"
            return "(Err 96)"  # output unreadable: neither the model's answer nor an allowed failure

        for i, run in enumerate(inp["runs"]):
            I = L.Interner()
            I("")  # 0 is reserved for "no label"
            o = os_[i]
            if "skipped" in o:
                continue
            t = self._tinput(inp, run, I)
            ot = out_term(o, I)
            # what the other runs on the same logical data (other ancestry source / file formats) answered
            peers = L.lst([out_term(os_[j], I) for j in range(len(os_)) if j != i and "ok" in os_[j]])
            oc = (f"(mko (mkoc {t} {self._extra(inp)} {ot} {L.b(o.get('warned', False))}) "
                  f"{L.hexfloat(opts.get('maf') if opts.get('maf') is not None else 0.0)} {peers} "
                  f"{self._geno_term(o.get('geno'), I)})")
            # the files as they lie on disk
            use_anc = run["src"] != "none"
            files = ([[right_bp_relpath(inp), 0]] if run["src"] == "bp" else []) + \
                ([[rel, k + 1] for k, (rel, _) in enumerate(names_of(inp)["decoys"])] if inp["anc"] is not None else [])
            ft = L.lst(files, lambda x: f"({str_term(x[0])}, {L.z(x[1])})")
            st = L.lst(o.get("bp_seen") or [], str_term)
            if inp["indexed"]:
                lt = "[]"
            else:
                lt = L.lst(hap_lines(inp["haps"], inp.get("layout", "HV")),
                           lambda ln: (f"(LV {L.z(I(ln[1]))} (mkhv {L.z(I(ln[2][0]))} {L.z(I(ln[2][1]))}))" if ln[0] == "V"
                                       else f"(LH {hap_term(dict(ln[1], vars=[]), I, use_anc)})"))
            terms.append(f"(mkn {oc} {str_term(gt_relpath(inp, run))} {L.b(use_anc)} {ft} {st} {lt})")
        return terms

    def _geno_term(self, g, I):
        """C04_CheckOpt.ogeno: what the recorder saw at hp.transform(gt, hp_gt); an unreadable record is encoded as
        a genotype object without samples and records plus the pseudo haplotype ID -1 (agree = false)"""
        if g is None:
            return "None"
        if "unrecorded" in g:
            return "(Some (mkog [] [] [] [] [(-1)]))"
        anc = rows_term(g["anc"], lambda x: L.z(I(x))) if g["anc"] is not None else "[]"
        return (f"(Some (mkog {L.zl([I(s) for s in g['samples']])} {recs_term(g['vars'], I)} "
                f"{rows_term(g['data'], L.z)} {anc} {L.zl([I(h) for h in g['haps']])}))")

    def _extra(self, inp):
        """the calls written unphased and the options: C04_ModelOpt.textra"""
        opts = inp.get("opts") or {}
        unph = {(int(a), int(b)) for a, b in (inp.get("unph") or [])}
        if unph:
            n, p = len(inp["samples"]), len(inp["vars"])
            ut = L.lst([[((s, j) in unph) for j in range(p)] for s in range(n)], lambda row: L.lst(row, L.b))
        else:
            ut = "[]"
        return (f"(mke {ut} {L.b(bool(opts.get('discard')))} {L.b(opts.get('maf') is not None)} "
                f"{L.opt(opts.get('chunk'), L.z)})")

    # ---- bookkeeping
    def _features(self, inp):
        f = []
        found, sel = self._wanted_found(inp)
        fid = {v[0] for v in found}
        real = [h for h in sel if not h["rep"]]
        if any(v[0] not in fid for h in real for v in h["vars"]):
            f.append("haplotype-with-absent-variant")
        if any(h["rep"] for h in sel):
            f.append("repeats")
        vid = {v[0]: v[3] for v in inp["vars"]}
        if any(v[0] in fid and v[1] in vid[v[0]] and vid[v[0]].index(v[1]) >= 2 for h in real for v in h["vars"]):
            f.append("uses-second-or-later-ALT")
        if any(v[0] in fid and v[1] not in vid[v[0]] for h in real for v in h["vars"]):
            f.append("absent-allele")
        if inp["anc"]:
            labs = {x[0] for s in inp["samples"] for t in range(2) for x in inp["anc"]["tracts"][s][t]}
            if any(h["anc"] not in labs for h in real):
                f.append("absent-ancestry-label")
            if [s for s in inp["anc"]["bp_order"] if s in inp["samples"]] != inp["samples"]:
                f.append("bp-sample-order-differs")
        for k in ("region", "ids", "samp"):
            if inp[k] is not None:
                f.append(k)
        return f

    def nontrivial(self, inp, obs):
        if not isinstance(obs, dict) or "runs" not in obs:
            return False
        for o in obs["runs"]:
            if "ok" in o:
                flat = [c for row in o["ok"]["data"] for cell in row for c in cell]
                if 0 in flat and 1 in flat:
                    return True
        return "haplotype-with-absent-variant" in self._features(inp)

    def classes(self, inp, obs):
        out = [inp["kind"].split("+")[0],
               "indexed-hap" if inp["indexed"] else f"plain-hap-{inp.get('layout', 'HV').split(':')[0]}"] \
            + self._features(inp)
        if not inp["indexed"] and vlines_interleaved(inp["haps"], inp.get("layout", "HV")):
            out.append("hap-V-lines-of-different-haplotypes-interleaved")
        vs = inp["vars"]
        chs = [v[1] for v in vs]
        if any(chs[i] != chs[i + 1] and chs[i] in chs[i + 1:] for i in range(len(chs) - 1)):
            out.append("gt-chromosomes-interleaved")
        if any(a[1] == b[1] and a[2] > b[2] for i, a in enumerate(vs) for b in vs[i + 1:]):
            out.append("gt-positions-descending-within-chromosome")
        out.append("gt-sorted" if is_sorted_vars(vs) else "gt-unsorted")
        if any(r["fmt"] == "vcf" and not r.get("gz", True) for r in inp["runs"]):
            out.append("vcf-unindexed")
        pos = {v[0]: j for j, v in enumerate(vs)}
        if any([pos[v[0]] for v in h["vars"] if v[0] in pos] != sorted(pos[v[0]] for v in h["vars"] if v[0] in pos)
               for h in inp["haps"]):
            out.append("hap-order-differs-from-gt-order")
        if inp["anc"] and isinstance(obs, dict) and "runs" in obs:
            srcs = {r["src"] for r, o in zip(inp["runs"], obs["runs"]) if "ok" in o}
            if {"pop", "bp"} <= srcs:
                out.append("pop-and-bp-both-answered")
        if any(not h["rep"] and not h["vars"] for h in inp["haps"]):
            out.append("haplotype-without-variants")
        nm = names_of(inp)
        if inp.get("names"):
            out.append("names:stem-with-dots" if "." in nm["stem"] else "names:plain-stem")
            if "." in nm["dir"]:
                out.append("names:directory-with-dots")
            if inp["anc"] is not None and nm["decoys"]:
                out.append("names:decoy-bp-present")
                if any(os.path.dirname(rel) != nm["dir"] for rel, _ in nm["decoys"]):
                    out.append("names:decoy-bp-in-parent-directory")
            if inp["anc"] is not None and nm["stale_pop"]:
                out.append("names:stale-POP-fields-beside-bp")
            for r in inp["runs"]:
                out.append("names:suffix" + gt_suffix(inp, r))
        else:
            out.append("names:default")
        out += inp["kind"].split("+")[1:]
        opts = inp.get("opts") or {}
        miss = [c for row in inp["data"] for c in row if 255 in c]
        if miss:
            out.append("missing-calls" + ("-discarded" if opts.get("discard") else "-refused"))
            if any((c[0] == 255) != (c[1] == 255) for c in miss):
                out.append("half-missing-call")
        if inp.get("unph"):
            het = any(inp["data"][a][b][0] != inp["data"][a][b][1] and 255 not in inp["data"][a][b] for a, b in inp["unph"])
            out.append("unphased-" + ("heterozygous" if het else "homozygous-or-missing"))
        if opts.get("maf") is not None:
            out.append("maf")
            if isinstance(obs, dict) and "runs" in obs:
                exp_n = len([h for h in inp["haps"] if not h["rep"]])
                if any("ok" in o and 0 < len(o["ok"]["recs"]) < exp_n for o in obs["runs"]):
                    out.append("maf-drops-some-haplotypes")
        if opts.get("chunk") is not None:
            out.append("chunk-size")
        if isinstance(obs, dict) and "runs" in obs:
            for run, o in zip(inp["runs"], obs["runs"]):
                tag = f"{run['fmt']}/{run['src']}->{run['out']}{'/cli' if run['cli'] else ''}"
                out.append(tag + (":ok" if "ok" in o else ":skipped" if "skipped" in o else f":err{o.get('err', '?')}"))
        return out

    def shrink(self, inp):
        if not is_sorted_vars(inp["vars"]):
            chroms = []
            for v in inp["vars"]:
                if v[1] not in chroms:
                    chroms.append(v[1])
            perm = sorted(range(len(inp["vars"])), key=lambda j: (chroms.index(inp["vars"][j][1]), inp["vars"][j][2]))
            yield fix_runs(permute_gt(inp, perm))
        if len(inp["runs"]) > 1:
            for i in range(len(inp["runs"])):
                yield dict(inp, runs=[inp["runs"][i]])
        if inp.get("names"):
            nm = names_of(inp)
            yield {k: v for k, v in inp.items() if k != "names"}
            for i in range(len(nm["decoys"])):
                yield dict(inp, names=dict(nm, decoys=nm["decoys"][:i] + nm["decoys"][i + 1:]))
            if nm["stale_pop"]:
                yield dict(inp, names=dict(nm, stale_pop=False))
            if nm["dir"]:
                yield dict(inp, names=dict(nm, dir="", decoys=[]))
        if any(r["cli"] for r in inp["runs"]):
            yield dict(inp, runs=[dict(r, cli=False) for r in inp["runs"]])
        for k in ("region", "ids", "samp"):
            if inp[k] is not None:
                yield dict(inp, **{k: None})
        haps = inp["haps"]
        for i in range(len(haps)):
            if len(haps) > 1:
                yield dict(inp, haps=haps[:i] + haps[i + 1:])
        for i, h in enumerate(haps):
            for j in range(len(h["vars"])):
                if len(h["vars"]) > 1:
                    yield dict(inp, haps=haps[:i] + [dict(h, vars=h["vars"][:j] + h["vars"][j + 1:])] + haps[i + 1:])
        n = len(inp["samples"])
        for s in range(n):
            if n > 1:
                name = inp["samples"][s]
                if inp["samp"] is not None and name in inp["samp"]:
                    continue
                anc = inp["anc"]
                if anc:
                    anc = dict(anc, bp_order=[x for x in anc["bp_order"] if x != name],
                               tracts={k: v for k, v in anc["tracts"].items() if k != name})
                yield dict(inp, samples=inp["samples"][:s] + inp["samples"][s + 1:],
                           data=inp["data"][:s] + inp["data"][s + 1:], anc=anc)
        used = {v[0] for h in haps for v in h["vars"]}
        for j, v in enumerate(inp["vars"]):
            if v[0] not in used and len(inp["vars"]) > 1:
                yield dict(inp, vars=inp["vars"][:j] + inp["vars"][j + 1:],
                           data=[row[:j] + row[j + 1:] for row in inp["data"]])
        if inp["anc"]:
            tr = inp["anc"]["tracts"]
            for s in tr:
                for t in range(2):
                    for i in range(len(tr[s][t]) - 1):
                        nt = dict(tr, **{s: [x if tt != t else x[:i] + x[i + 1:] for tt, x in enumerate(tr[s])]})
                        yield dict(inp, anc=dict(inp["anc"], tracts=nt))

    def mutate(self, inp, rng):
        # the same data with the genotype records in another file order (interleaved chromosomes, descending, any)
        if "dup-gt-id" not in inp["kind"]:
            for mode in ("interleaved", "reversed", "shuffled", "shuffled"):
                perm = order_perm(rng, inp["vars"], mode)
                if perm != list(range(len(perm))):
                    yield fix_runs(permute_gt(inp, perm))
        if inp["anc"]:
            order = inp["anc"]["bp_order"]
            if len(order) > 1:
                yield dict(inp, anc=dict(inp["anc"], bp_order=order[::-1]))
            for i, h in enumerate(inp["haps"]):
                if not h["rep"]:
                    yield dict(inp, haps=inp["haps"][:i] + [dict(h, anc=ABSENT_LABEL)] + inp["haps"][i + 1:])
        for k in ("region", "ids", "samp"):
            if inp[k] is not None:
                yield dict(inp, **{k: None})

    def signature(self, inp, obs):
        parts = set()
        if isinstance(obs, dict) and "runs" in obs:
            for run, o in zip(inp["runs"], obs["runs"]):
                if "skipped" in o:
                    continue
                res = "answers" if "ok" in o else f"raises {o.get('cls', o.get('err', 'unreadable output'))}"
                parts.add(f"{'with' if run['src'] != 'none' else 'without'} --ancestry {res}")
        return f"file transform_haps: {'; '.join(sorted(parts))}"


RELATIONS = [Api(), File()]

LEVEL_TEXT = (
    "Coq theorems over all genotype matrices, haplotype sets and ancestry labelings (no size bound) about a Gallina model "
    "of Haplotype.transform, Haplotypes.transform, their ancestry variants and transform_haps; the model is tied to the "
    "code on every run by evaluating, inside Coq, model-vs-implementation agreement and the property's cell-by-cell "
    "checker on generated in-memory calls (before and after every step of generated operation sequences on one set of "
    "objects) and on transform_haps / CLI runs over written VCF.gz, un-indexed VCF, PGEN, .hap and .bp files in every "
    "record order."
)
LEVEL_NOTE = (
    "Trusted: Coq kernel/vm_compute; the hand-written model (validated only differentially); htslib/cyvcf2/pysam/pgenlib "
    "as stores of records; interning of strings. Proved for the model, all sizes: single transforms = cell-by-cell "
    "specification, set-wise = single, transform_haps output = file-level specification f_expected (records, sample "
    "order, cells, ancestry by sample name), POP fields = .bp when they say the same (closed with C05's model of "
    "population_array for every record order), the model answers f_expected wherever the checker demands an answer, the "
    "result is invariant under every permutation of the genotype records and of the V lines and is column-wise in the H "
    "lines, no history of sort/subset/re-read changes a single or whole-set answer, duplicate IDs => ValueError, "
    "omitted => warned; the boolean "
    "checkers evaluated on the implementation's output are proved sound. Not modelled: duplicate variant IDs in a "
    "genotype FILE (Genotypes.read stops after as many matching records as IDs were asked for), haploid calls, more than "
    "32767 haplotypes (np.int16), the text of log messages; region semantics only for one-base REF alleles. Second round: "
    "missing / unphased calls, --discard-missing, --maf, --chunk-size and the 256-label limit of the np.uint8 ancestry "
    "codes are modelled (C04_ModelOpt.transform_haps_o = checks ; transform_haps on the surviving samples ; MAF filter), "
    "with: an answer only on the property's domain, discarding a sample changes no other row and no record "
    "(f_expected of a restricted input), closed form on well-formed inputs, the MAF filter's specification, soundness "
    "of the new checker holds_o and of its exact-arithmetic margins, the model's answer passes holds_o; agree also compares "
    "the genotype object handed to Haplotypes[Ancestry].transform with the model's (model_geno), and the answer is proved "
    "to be the set-wise transform of exactly that object. Third round (C04_ModelIO): the collection loop of "
    "Haplotypes.read over the lines of a .hap file (read_lines = closed form for every list of lines; the result depends "
    "only on the H/R sequence and the per-haplotype V sequences, so every interleaving reads back the same haplotypes "
    "with all their V lines) and the character-level derivation of the .bp path (bp_path_of: <dir><stem>.<ext>[.gz] -> "
    "<dir><stem>.bp for every stem and directory, dots included; a .bp under any other name does not change the source); "
    "agree evaluates both against what was written / touched."
)
TECHNIQUE = "Coq proof by induction on haplotype/variant lists + vm_compute-evaluated correspondence against the implementation"
