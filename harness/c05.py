"""C05 - ancestry lookup returns the covering block's label; .bp files round-trip.

Relations (haptools/data/breakpoints.py)
  find   : Breakpoints._find_blocks on ascending end arrays
  lookup : Breakpoints.population_array on constructed tables (strings interned)
  codec  : encode(labels) -> population_array -> encode again -> recode -> recode again
  read   : Breakpoints.read(samples) on generated files, token/character level
  write  : Breakpoints.write() then Breakpoints.load() of the written file
"""
import itertools
import os
import shutil
import struct
import tempfile

import numpy as np

from . import coqlit as L
from .core import Relation, err_kind

PROP = "C05"
CLAIMED = True
COQ_MODULES = ["C05_Check", "C05_Proofs", "C05_ProofsCodec", "C05_ProofsText"]
PROPERTY_MODULE = "C05_Property"
ALLOWED_AXIOMS = []
RULE = (
    "find/lookup/codec: tables of 1-5 samples x 1-3 chromosomes (plain, chr-prefixed, X) x 1-6 blocks per strand and "
    "chromosome with ends from a small grid (collisions with the queries are frequent), labels of 1-6 characters; queries "
    "on every block end, end+1, 1, 0, beyond the last block, on an absent chromosome; sample requests: none, permuted, "
    "partial, unknown, repeated, empty; every order/sub-/superset of the labels for the encoder. Non-trivial = at least "
    "one query on a block end or end+1 of a strand with >= 2 blocks on that chromosome (find: >= 2 ends and a position "
    "equal to an end or end+1). read/write: generated .bp text incl. comment lines, malformed headers, wrong field "
    "counts, bad int/float tokens, underscores in names, .gz; non-trivial = >= 2 samples or a sample name with an "
    "underscore. Distinct = distinct canonical JSON."
)
TRUSTED = [
    "np.searchsorted(side='left') on an ascending array = index of the first element >= p (model: linear scan; exercised by relation find)",
    "numpy str->uint32/float64 conversion and str() of numpy scalars are codec tables recorded from numpy per case "
    "(theorems: Section variables with parse(fmt x) = x)",
    "csv.reader/csv.writer with tab delimiter = split/join on tab for tokens without tab, quote, CR, LF",
    "labels, chromosome and sample names are interned to integers at the lookup level (only compared by the code)",
    "dict iteration order = insertion order (CPython >= 3.7)",
]
ASSUMPTIONS = [
    "block ends of a strand are ascending within a chromosome (documented file format; np.searchsorted's precondition)",
    "codec: distinct given labels, every strand has >= 1 block (np.vectorize refuses size-0 input), < 256 labels",
    "write/read round trip: distinct sample names; no sample name or label starts with '#'; tokens free of tab/quote/newline",
]

LABELS = ["YRI", "CEU", "ASW", "A", "AB_CDE", "pop123", "x", "Nat_1"]
CHROMS = ["1", "2", "chr1", "chr2", "X", "chrX", "chr10", "22", "chr22_KI27"]
NAMES = ["HG00096", "S_1", "a_b_c", "Sample_1", "x", "NA_2_1", "s1", "T_", "_u"]
GRID = [1, 2, 3, 5, 8, 9, 10, 11, 20, 21, 22, 30, 40, 41, 50]
BIG = [2**31 - 1, 2**32 - 1, 1000]
CMS = [0.0, 0.5, 1.2, 1.21, 1.23, 43.078, 168.003442, 264.995777, 1e-7, 0.1 + 0.2, 5.0, 1e22]


def fbits(x):
    return struct.unpack("<Q", struct.pack("<d", float(x)))[0]


def bits_f(b):
    return struct.unpack("<d", struct.pack("<Q", int(b)))[0]


class Intern:
    """string -> small integer; 'None' (what recode renders for an unknown code) is -1."""

    def __init__(self):
        self.tab = {"None": -1}

    def __call__(self, s):
        s = str(s)
        if s not in self.tab:
            self.tab[s] = len(self.tab) - 1
        return self.tab[s]


def quiet_log():
    import logging

    log = logging.getLogger("hv_c05")
    log.setLevel(logging.CRITICAL + 1)
    return log


# ---------------------------------------------------------------------------
# generators


def gen_strand(rng, chroms, allow_empty=False, drop_chrom=False, closed=False):
    """blocks [label, chrom, bp, cm] with ascending ends per chromosome."""
    out = []
    cs = list(chroms)
    if drop_chrom and len(cs) > 0:
        cs.pop(int(rng.integers(0, len(cs))))
    if allow_empty:
        return out
    for c in cs:
        k = int(rng.integers(1, 7))
        ends = sorted(rng.choice(GRID, size=k).tolist())
        if rng.random() < 0.85:
            ends = sorted(set(ends))
        if closed:
            ends.append(int(rng.choice(BIG[:2])))
        elif rng.random() < 0.7:
            ends.append(int(rng.choice(BIG)))
        cm = 0.0
        for e in ends:
            cm = round(cm + float(rng.choice([0.0, 0.01, 0.5, 20.25])), 6)
            out.append([str(rng.choice(LABELS[: int(rng.integers(1, len(LABELS) + 1))])), c, int(e), cm])
    return out


def gen_table(rng, malformed=0.0):
    n = int(rng.integers(1, 6))
    names = [NAMES[i] for i in rng.choice(len(NAMES), size=n, replace=False)]
    k = int(rng.integers(1, 4))
    chroms = [CHROMS[i] for i in sorted(rng.choice(len(CHROMS), size=k, replace=False).tolist())]
    tbl = []
    closed = bool(rng.random() < 0.7)  # every strand reaches the chromosome-end sentinel
    for nm in names:
        st = []
        for t in range(2):
            r = rng.random()
            st.append(gen_strand(rng, chroms, allow_empty=r < malformed * 0.3,
                                 drop_chrom=malformed * 0.3 <= r < malformed, closed=closed))
        tbl.append([nm, st[0], st[1]])
    return tbl, chroms


def gen_queries(rng, tbl, chroms):
    ends = {}
    for _, s0, s1 in tbl:
        for b in s0 + s1:
            ends.setdefault(b[1], []).append(b[2])
    qs = []
    for _ in range(int(rng.integers(0, 9))):
        c = str(rng.choice(chroms))
        es = ends.get(c, [5])
        r = rng.random()
        if r < 0.35:
            p = int(rng.choice(es))
        elif r < 0.6:
            p = int(rng.choice(es)) + 1
        elif r < 0.7:
            p = 1
        elif r < 0.75:
            p = 0
        elif r < 0.85:
            p = max(es) + int(rng.integers(1, 3))
        else:
            p = int(rng.choice(GRID))
        if p > 2**32 - 1:
            p = 2**32 - 1
        if rng.random() < 0.03:
            c = "chr7"  # absent chromosome
        qs.append([c, p])
    return qs


def gen_request(rng, tbl):
    names = [s[0] for s in tbl]
    r = rng.random()
    if r < 0.35:
        return None
    if r < 0.6:
        return [names[i] for i in rng.permutation(len(names))]
    if r < 0.85:
        k = int(rng.integers(0, len(names) + 1))
        return [names[i] for i in rng.permutation(len(names))[:k]]
    if r < 0.93:
        return names + ["absent"]
    return [names[0]] + names


def build_bp(tbl, d, via_file=False):
    """A Breakpoints object holding tbl: data assigned directly, or (via_file) written as a .bp file by the
    harness and loaded with Breakpoints.load - the path the CLI takes."""
    from haptools.data import Breakpoints
    from haptools.data.breakpoints import HapBlock

    if via_file:
        path = os.path.join(d, "in.bp")
        with open(path, "w") as f:
            for nm, s0, s1 in tbl:
                for t, st in ((1, s0), (2, s1)):
                    f.write(f"{nm}_{t}\n")
                    for b in st:
                        f.write(f"{b[0]}\t{b[1]}\t{b[2]}\t{b[3]!r}\n")
        bp = Breakpoints(path, log=quiet_log())
        bp.read()
        return bp
    bp = Breakpoints(os.path.join(d, "x.bp"), log=quiet_log())
    bp.data = {
        nm: [np.array([tuple(b) for b in s0], dtype=HapBlock), np.array([tuple(b) for b in s1], dtype=HapBlock)]
        for nm, s0, s1 in tbl
    }
    return bp


def variants_array(qs):
    return np.array([(c, p) for c, p in qs], dtype=[("chrom", "U10"), ("pos", np.uint32)])


def seg_term(b, it, cmi):
    return f"(mkseg {L.z(b[0] if isinstance(b[0], int) else it(b[0]))} {L.z(it('c:' + b[1]))} {L.z(b[2])} {L.z(cmi(float(b[3])))})"


def table_term(tbl, it, cmi, names):
    return L.lst(tbl, lambda s: f"({L.z(names(s[0]))}, ({L.lst(s[1], lambda b: seg_term(b, it, cmi))}, {L.lst(s[2], lambda b: seg_term(b, it, cmi))}))")


def arr_term(arr, f):
    return L.lst(arr, lambda row: L.lst(row, lambda c: f"({L.z(f(c[0]))}, {L.z(f(c[1]))})"))


def touches_boundary(tbl, qs):
    for _, s0, s1 in tbl:
        for st in (s0, s1):
            per = {}
            for b in st:
                per.setdefault(b[1], []).append(b[2])
            for c, p in qs:
                es = per.get(c, [])
                if len(es) >= 2 and (p in es or p - 1 in es):
                    return True
    return False


def lookup_classes(tbl, qs, req):
    out = []
    allends = {}
    for _, s0, s1 in tbl:
        for b in s0 + s1:
            allends.setdefault(b[1], set()).add(b[2])
    for c, p in qs:
        es = allends.get(c)
        if es is None:
            out.append("q:absent-chrom")
        elif p in es:
            out.append("q:on-end")
        elif p - 1 in es:
            out.append("q:end+1")
        elif p > max(es):
            out.append("q:beyond-last")
        elif p <= 1:
            out.append("q:pos<=1")
        else:
            out.append("q:inside")
    out = sorted(set(out))
    names = [s[0] for s in tbl]
    if req is None:
        out.append("req:none")
    elif len(set(req)) < len(req):
        out.append("req:repeated")
    elif any(r not in names for r in req):
        out.append("req:unknown")
    elif req == names:
        out.append("req:same-order")
    elif sorted(req) == sorted(names):
        out.append("req:permuted")
    else:
        out.append("req:partial")
    if any(not s0 or not s1 for _, s0, s1 in tbl):
        out.append("tbl:empty-strand")
    out.append(f"samples={len(tbl)}")
    return out


# ---------------------------------------------------------------------------


class Find(Relation):
    name = "find"
    coq_module = "C05_Check"
    coq_check = "check_find"
    coq_case_type = "fcase"
    coq_model = "model_find"
    coq_imports = ["Tracts", "BpText", "C05_Model"]
    budget = {"quick": 1200, "thorough": 10000}
    anchors = [("haptools/data/breakpoints.py", "Breakpoints._find_blocks")]

    def generate(self, rng, n, tier):
        out = []
        for _ in range(n):
            k = int(rng.integers(0, 7))
            ends = sorted(rng.choice(GRID + BIG, size=k).tolist())
            m = int(rng.integers(0, 6))
            pos = []
            for _ in range(m):
                r = rng.random()
                if ends and r < 0.4:
                    pos.append(int(rng.choice(ends)))
                elif ends and r < 0.7:
                    pos.append(min(int(rng.choice(ends)) + 1, 2**32 - 1))
                elif r < 0.8:
                    pos.append(int(rng.integers(0, 2)))
                else:
                    pos.append(int(rng.choice(GRID)) + int(rng.integers(-1, 2)))
            out.append({"ends": [int(e) for e in ends], "pos": pos})
        return out

    def exhaustive(self, tier):
        out = []
        pts = [2, 3, 5]
        for k in range(0, 4):
            for ends in itertools.combinations_with_replacement(pts, k):
                out.append({"ends": list(ends), "pos": [0, 1, 2, 3, 4, 5]})
                out.append({"ends": list(ends), "pos": [6]})
                for p in (1, 2, 3, 4, 5, 6):
                    out.append({"ends": list(ends), "pos": [p]})
        return out

    def run_impl(self, inp):
        from haptools.data import Breakpoints

        try:
            r = Breakpoints._find_blocks(np.array(inp["ends"], dtype=np.uint32), np.array(inp["pos"], dtype=np.uint32))
            return {"ok": [int(x) for x in r]}
        except Exception as e:  # noqa
            return {"err": err_kind(e)}

    def encode(self, inp, obs):
        if "ok" not in obs and "err" not in obs:
            obs = {"err": obs.get("kind", 99)}
        return f"(mkf {L.zl(inp['ends'])} {L.zl(inp['pos'])} {L.res(obs, L.zl)})"

    def nontrivial(self, inp, obs):
        return len(inp["ends"]) >= 2 and any(p in inp["ends"] or p - 1 in inp["ends"] for p in inp["pos"])

    def classes(self, inp, obs):
        out = [f"ends={min(len(inp['ends']), 4)}"]
        es = inp["ends"]
        for p in inp["pos"]:
            if p in es:
                out.append("on-end")
            elif p - 1 in es:
                out.append("end+1")
            if es and p > es[-1]:
                out.append("beyond-last")
        if len(set(es)) < len(es):
            out.append("equal-ends")
        if isinstance(obs, dict) and "err" in obs:
            out.append(f"err{obs['err']}")
        return sorted(set(out))

    def shrink(self, inp):
        for j in range(len(inp["ends"])):
            yield dict(inp, ends=inp["ends"][:j] + inp["ends"][j + 1:])
        for j in range(len(inp["pos"])):
            yield dict(inp, pos=inp["pos"][:j] + inp["pos"][j + 1:])

    def mutate(self, inp, rng):
        for e in inp["ends"]:
            for d in (-1, 0, 1):
                if e + d >= 0:
                    yield dict(inp, pos=[e + d])

    def signature(self, inp, obs):
        es = inp["ends"]
        kind = "error" if "err" in obs else "index"
        on = any(p in es for p in inp["pos"])
        return f"_find_blocks {kind} position-on-block-end={on}"


class Lookup(Relation):
    name = "lookup"
    coq_module = "C05_Check"
    coq_check = "check_lookup"
    coq_case_type = "lcase"
    coq_model = "model_lookup"
    coq_imports = ["Tracts", "BpText", "C05_Model"]
    budget = {"quick": 700, "thorough": 8000}
    anchors = [("haptools/data/breakpoints.py", "Breakpoints.population_array"),
               ("haptools/data/breakpoints.py", "Breakpoints._find_blocks")]

    def generate(self, rng, n, tier):
        out = []
        for _ in range(n):
            tbl, chroms = gen_table(rng, malformed=0.08 if rng.random() < 0.3 else 0.0)
            out.append({"tbl": tbl, "qs": gen_queries(rng, tbl, chroms), "req": gen_request(rng, tbl),
                        "via_file": bool(rng.random() < 0.3)})
        return out

    def exhaustive(self, tier):
        # every layout of <= 3 ends over a 3-point grid on one chromosome x 2 labels, all positions 0..7,
        # second strand fixed, a second sample so that the request order matters
        out = []
        pts = [2, 3, 5]
        for k in range(1, 4):
            for ends in itertools.combinations(pts, k):
                for labs in itertools.product(["A", "B"], repeat=k):
                    s0 = [[labs[i], "1", e, float(i)] for i, e in enumerate(ends)]
                    s1 = [["B", "1", 7, 0.5]]
                    tbl = [["s", s0, s1], ["t", s1, s0]]
                    for req in (None, ["t", "s"]):
                        out.append({"tbl": tbl, "qs": [["1", p] for p in range(0, 8)], "req": req})
                        for p in range(0, 8):
                            out.append({"tbl": tbl, "qs": [["1", p]], "req": req})
        return out

    def run_impl(self, inp):
        d = tempfile.mkdtemp(prefix="hv_c05_")
        try:
            bp = build_bp(inp["tbl"], d, via_file=inp.get("via_file", False))
            try:
                arr = bp.population_array(variants_array(inp["qs"]), samples=None if inp["req"] is None else tuple(inp["req"]))
                return {"ok": arr.tolist(), "shape": list(arr.shape)}
            except Exception as e:  # noqa
                return {"err": err_kind(e), "msg": str(e)[:120]}
        finally:
            shutil.rmtree(d, ignore_errors=True)

    def encode(self, inp, obs):
        it, cmi, nm = Intern(), L.Interner(), L.Interner()
        tbl = table_term(inp["tbl"], it, cmi, nm)
        vs = L.lst(inp["qs"], lambda q: f"(mkvar {L.z(it('c:' + q[0]))} {L.z(q[1])})")
        req = L.opt(inp["req"], lambda r: L.lst(r, lambda s: L.z(nm(s))))
        if "ok" in obs:
            o = f"(Ok {arr_term(obs['ok'], it)})"
        else:
            o = f"(Err {L.z(obs.get('err', obs.get('kind', 99)))})"
        return f"(mkl {tbl} {vs} {req} {o})"

    def nontrivial(self, inp, obs):
        return touches_boundary(inp["tbl"], inp["qs"])

    def classes(self, inp, obs):
        out = lookup_classes(inp["tbl"], inp["qs"], inp["req"])
        if inp.get("via_file"):
            out.append("loaded-from-file")
        if isinstance(obs, dict) and "err" in obs:
            out.append(f"err{obs['err']}")
        return out

    def shrink(self, inp):
        tbl = inp["tbl"]
        for j in range(len(tbl)):
            if inp["req"] is None or tbl[j][0] not in inp["req"]:
                yield dict(inp, tbl=tbl[:j] + tbl[j + 1:])
            else:
                yield dict(inp, tbl=tbl[:j] + tbl[j + 1:], req=[r for r in inp["req"] if r != tbl[j][0]])
        for j in range(len(inp["qs"])):
            yield dict(inp, qs=inp["qs"][:j] + inp["qs"][j + 1:])
        for j, (nm, s0, s1) in enumerate(tbl):
            for t, st in ((1, s0), (2, s1)):
                for i in range(len(st)):
                    new = list(tbl[j])
                    new[t] = st[:i] + st[i + 1:]
                    yield dict(inp, tbl=tbl[:j] + [new] + tbl[j + 1:])
        if inp["req"] is not None:
            yield dict(inp, req=None)

    def mutate(self, inp, rng):
        for _, s0, s1 in inp["tbl"]:
            for b in s0 + s1:
                for dlt in (0, 1):
                    yield dict(inp, qs=[[b[1], min(b[2] + dlt, 2**32 - 1)]])

    def signature(self, inp, obs):
        kind = "raises" if "err" in obs else "answers"
        cls = [c for c in lookup_classes(inp["tbl"], inp["qs"], inp["req"]) if c.startswith(("q:", "req:"))]
        return f"population_array {kind} {' '.join(cls)}"


def gen_given(rng, tbl):
    present = []
    for _, s0, s1 in tbl:
        for b in s0 + s1:
            if b[0] not in present:
                present.append(b[0])
    r = rng.random()
    if r < 0.25:
        return None
    pool = list(present)
    if r < 0.55:
        pass
    elif r < 0.75:
        pool += [l for l in ("ZZZ", "unseen") if l not in pool]
    elif r < 0.9:
        pool = pool[: int(rng.integers(0, len(pool) + 1))]
    else:
        pool = pool + pool[:1]  # repeated label: outside the codec's domain (agree only)
    return [pool[i] for i in rng.permutation(len(pool))]


class Codec(Relation):
    name = "codec"
    coq_module = "C05_Check"
    coq_check = "check_codec"
    coq_case_type = "ecase"
    coq_model = "model_codec"
    coq_imports = ["Tracts", "BpText", "C05_Model"]
    budget = {"quick": 400, "thorough": 4000}
    anchors = [("haptools/data/breakpoints.py", "Breakpoints.encode"),
               ("haptools/data/breakpoints.py", "Breakpoints.recode"),
               ("haptools/data/breakpoints.py", "Breakpoints.population_array")]

    def generate(self, rng, n, tier):
        out = []
        for _ in range(n):
            tbl, chroms = gen_table(rng, malformed=0.06 if rng.random() < 0.2 else 0.0)
            out.append({"tbl": tbl, "given": gen_given(rng, tbl), "qs": gen_queries(rng, tbl, chroms),
                        "req": gen_request(rng, tbl), "via_file": bool(rng.random() < 0.3)})
        return out

    def exhaustive(self, tier):
        # every order of every sub-/superset of the labels {A,B,C} given to the encoder
        s0 = [["B", "1", 2, 0.1], ["A", "1", 5, 0.2], ["C", "1", 9, 0.3]]
        s1 = [["C", "1", 3, 0.1], ["B", "1", 9, 0.2]]
        tbl = [["s", s0, s1], ["t", s1, s0]]
        qs = [["1", p] for p in (1, 2, 3, 4, 5, 6, 9)]
        out = [{"tbl": tbl, "given": None, "qs": qs, "req": None}]
        for k in range(0, 5):
            for g in itertools.permutations(["A", "B", "C", "D"], k):
                out.append({"tbl": tbl, "given": list(g), "qs": qs, "req": ["t", "s"]})
        return out

    @staticmethod
    def _data(bp):
        return [[nm, [[(int(x) if isinstance(x, (int, np.integer)) else (float(x) if isinstance(x, float) else str(x))) for x in b] for b in st[0].tolist()],
                 [[(int(x) if isinstance(x, (int, np.integer)) else (float(x) if isinstance(x, float) else str(x))) for x in b] for b in st[1].tolist()]]
                for nm, st in bp.data.items()]

    def run_impl(self, inp):
        d = tempfile.mkdtemp(prefix="hv_c05_")
        try:
            bp = build_bp(inp["tbl"], d, via_file=inp.get("via_file", False))
            given = None if inp["given"] is None else tuple(inp["given"])
            obs = {}
            try:
                bp.encode(labels=given)
                obs["enc"] = {"ok": {"data": self._data(bp), "labels": [[str(k), int(v)] for k, v in bp.labels.items()]}}
            except Exception as e:  # noqa
                obs["enc"] = {"err": err_kind(e)}
            try:
                arr = bp.population_array(variants_array(inp["qs"]), samples=None if inp["req"] is None else tuple(inp["req"]))
                obs["arr"] = {"ok": [[[int(x) for x in c] for c in row] for row in arr.tolist()], "dtype": str(arr.dtype)}
            except Exception as e:  # noqa
                obs["arr"] = {"err": err_kind(e)}
            try:
                bp.encode(labels=given)
                obs["again"] = {"ok": 0}
            except Exception as e:  # noqa
                obs["again"] = {"err": err_kind(e)}
            try:
                bp.recode()
                obs["rec"] = {"ok": self._data(bp)} if bp.labels is None else {"err": 97}
            except Exception as e:  # noqa
                obs["rec"] = {"err": err_kind(e)}
            try:
                bp.recode()
                obs["rec_again"] = {"ok": 0}
            except Exception as e:  # noqa
                obs["rec_again"] = {"err": err_kind(e)}
            return obs
        finally:
            shutil.rmtree(d, ignore_errors=True)

    def encode(self, inp, obs):
        it, cmi, nm = Intern(), L.Interner(), L.Interner()
        tbl = table_term(inp["tbl"], it, cmi, nm)
        vs = L.lst(inp["qs"], lambda q: f"(mkvar {L.z(it('c:' + q[0]))} {L.z(q[1])})")
        req = L.opt(inp["req"], lambda r: L.lst(r, lambda s: L.z(nm(s))))
        given = L.opt(inp["given"], lambda g: L.lst(g, lambda s: L.z(it(s))))
        if "enc" not in obs:
            k = obs.get("kind", 99)
            obs = {x: {"err": k} for x in ("enc", "arr", "again", "rec", "rec_again")}
        enc = L.res(obs["enc"], lambda o: f"({table_term(o['data'], it, cmi, nm)}, "
                                          f"{L.lst(o['labels'], lambda kv: f'({L.z(it(kv[0]))}, {L.z(kv[1])})')})")
        arr = L.res(obs["arr"], lambda a: arr_term(a, int))
        rec = L.res(obs["rec"], lambda t: table_term(t, it, cmi, nm))
        return (f"(mke {tbl} {given} {vs} {req} {enc} {arr} {L.res(obs['again'], L.z)} {rec} "
                f"{L.res(obs['rec_again'], L.z)})")

    def nontrivial(self, inp, obs):
        labs = {b[0] for _, s0, s1 in inp["tbl"] for b in s0 + s1}
        return len(labs) >= 2

    def classes(self, inp, obs):
        g = inp["given"]
        labs = []
        for _, s0, s1 in inp["tbl"]:
            for b in s0 + s1:
                if b[0] not in labs:
                    labs.append(b[0])
        if g is None:
            out = ["given:none"]
        elif len(set(g)) < len(g):
            out = ["given:repeated"]
        elif set(g) == set(labs):
            out = ["given:first-seen-order" if g == labs else "given:permuted"]
        elif set(g) > set(labs):
            out = ["given:superset"]
        else:
            out = ["given:partial"]
        out.append(f"labels={len(labs)}")
        if any(not s0 or not s1 for _, s0, s1 in inp["tbl"]):
            out.append("tbl:empty-strand")
        if inp.get("via_file"):
            out.append("loaded-from-file")
        if isinstance(obs, dict) and "rec" in obs and "err" in obs["rec"]:
            out.append(f"recode-err{obs['rec']['err']}")
        return out

    def shrink(self, inp):
        yield from Lookup.shrink(self, inp)
        if inp["given"]:
            for j in range(len(inp["given"])):
                yield dict(inp, given=inp["given"][:j] + inp["given"][j + 1:])
            yield dict(inp, given=None)

    def mutate(self, inp, rng):
        labs = sorted({b[0] for _, s0, s1 in inp["tbl"] for b in s0 + s1})
        for g in itertools.islice(itertools.permutations(labs), 24):
            yield dict(inp, given=list(g))

    def signature(self, inp, obs):
        rec = obs.get("rec", {})
        what = "recode raises" if "err" in rec else "encode/recode/query"
        return f"codec {what} given={'none' if inp['given'] is None else 'list'}"


# ---------------------------------------------------------------------------
# text level


def chars(s):
    return L.chars(s)


def conv_token(tok):
    """(uint32 result, float64 result) of numpy's conversion of a str field, as res dicts."""
    out = []
    for dt in (np.uint32, np.float64):
        try:
            v = np.array([(tok,)], dtype=[("x", dt)])["x"][0]
            out.append({"ok": int(v) if dt is np.uint32 else fbits(v)})
        except Exception as e:  # noqa
            out.append({"err": err_kind(e)})
    return out


def ptab_term(lines):
    toks = []
    for ln in lines:
        if len(ln) == 4:
            for t in ln[2:]:
                if t not in toks:
                    toks.append(t)
    return L.lst(toks, lambda t: f"({chars(t)}, ({L.res(conv_token(t)[0], L.z)}, {L.res(conv_token(t)[1], L.z)}))")


def ctable_term(tbl):
    blk = lambda b: f"(mkcb {chars(b[0])} {chars(b[1])} {L.z(b[2])} {L.z(b[3])})"
    return L.lst(tbl, lambda s: f"({chars(s[0])}, ({L.lst(s[1], blk)}, {L.lst(s[2], blk)}))")


def lines_term(lines):
    return L.lst(lines, lambda ln: L.lst(ln, chars))


def data_chars(bp):
    out = []
    for nm, st in bp.data.items():
        row = [str(nm)]
        for s in st:
            row.append([[str(b[0]), str(b[1]), int(b[2]), fbits(b[3])] for b in s.tolist()])
        out.append(row)
    return out


BAD_INT = ["x", "-1", "1.0", "4294967296", " 12", "1_0", "", "+5", "12 "]
BAD_FLT = ["x", "nan", "inf", "1e400", "", "1_0.5", " 1.5 ", "-0.0", "1,5"]


def gen_lines(rng, malformed):
    """A .bp file as token lines, well-formed or perturbed."""
    n = int(rng.integers(1, 5))
    names = [NAMES[i] for i in rng.choice(len(NAMES), size=n, replace=False)]
    if malformed and rng.random() < 0.2:
        names.append(names[0])  # repeated sample
    lines = []
    for nm in names:
        for t in (1, 2):
            lines.append([f"{nm}_{t}"])
            for _ in range(int(rng.integers(0, 4))):
                lab = str(rng.choice(LABELS))
                c = str(rng.choice(CHROMS[:5]))
                lines.append([lab, c, str(int(rng.choice(GRID + BIG))), repr(float(rng.choice(CMS)))])
    if not malformed:
        if rng.random() < 0.3:
            lines.insert(0, ["#comment line"])
        return lines
    for _ in range(int(rng.integers(1, 4))):
        r = rng.random()
        j = int(rng.integers(0, len(lines) + 1))
        if r < 0.12:
            lines.insert(j, ["# c", "x"] if rng.random() < 0.5 else ["#"])
        elif r < 0.22:
            lines.insert(j, [str(rng.choice(["S_3", "S", "1", "2", "_1", "_2", " ", "a_b_"]))])
        elif r < 0.32:
            lines.insert(j, ["YRI", "1", "5"] if rng.random() < 0.5 else ["YRI", "1", "5", "0.5", "extra"])
        elif r < 0.37:
            lines.insert(j, [])
        elif r < 0.45:
            lines.insert(0, ["YRI", "1", "5", "0.5"])
        elif r < 0.52 and lines:
            lines.pop(0)
        elif r < 0.7:
            k = [i for i, ln in enumerate(lines) if len(ln) == 4]
            if k:
                i = int(rng.choice(k))
                lines[i] = lines[i][:2] + [str(rng.choice(BAD_INT)), lines[i][3]]
        elif r < 0.85:
            k = [i for i, ln in enumerate(lines) if len(ln) == 4]
            if k:
                i = int(rng.choice(k))
                lines[i] = lines[i][:3] + [str(rng.choice(BAD_FLT))]
        elif r < 0.93:
            k = [i for i, ln in enumerate(lines) if len(ln) == 4]
            if k:
                i = int(rng.choice(k))
                lines[i] = ["LONGLABEL", "chr1234567890"] + lines[i][2:]
        else:
            k = [i for i, ln in enumerate(lines) if len(ln) == 1 and ln[0].endswith("_2")]
            if k:
                i = int(rng.choice(k))
                lines[i] = ["other_2"]
    return lines


def write_lines(lines, path):
    import gzip

    text = "".join("\t".join(ln) + "\n" for ln in lines)
    if path.endswith(".gz"):
        with gzip.open(path, "wt") as f:
            f.write(text)
    else:
        with open(path, "w") as f:
            f.write(text)


class Read(Relation):
    name = "read"
    coq_module = "C05_Check"
    coq_check = "check_read"
    coq_case_type = "rcase"
    coq_model = "model_read"
    coq_imports = ["Tracts", "BpText", "C05_Model"]
    budget = {"quick": 250, "thorough": 3000}
    max_cases_per_shard = 60
    anchors = [("haptools/data/breakpoints.py", "Breakpoints.__iter__"),
               ("haptools/data/breakpoints.py", "Breakpoints.read")]

    def generate(self, rng, n, tier):
        out = []
        for _ in range(n):
            lines = gen_lines(rng, malformed=rng.random() < 0.5)
            names = sorted({ln[0][:-2] for ln in lines if len(ln) == 1 and ln[0][-2:] in ("_1", "_2")})
            r = rng.random()
            if r < 0.6 or not names:
                samples = None
            elif r < 0.9:
                k = int(rng.integers(0, len(names) + 1))
                samples = [names[i] for i in rng.permutation(len(names))[:k]]
            else:
                samples = names[:1] + ["absent"]
            out.append({"lines": lines, "samples": samples, "gz": bool(rng.random() < 0.1)})
        return out

    def exhaustive(self, tier):
        # every file of <= 4 lines over a 6-line alphabet
        alpha = [["s_1"], ["s_2"], ["t_1"], ["A", "1", "5", "0.5"], ["#c"], ["s_3"]]
        out = []
        for k in range(0, 5):
            for ls in itertools.product(alpha, repeat=k):
                out.append({"lines": [list(x) for x in ls], "samples": None, "gz": False})
        return out

    def run_impl(self, inp):
        from haptools.data import Breakpoints

        d = tempfile.mkdtemp(prefix="hv_c05_")
        try:
            p = os.path.join(d, "in.bp" + (".gz" if inp.get("gz") else ""))
            write_lines(inp["lines"], p)
            bp = Breakpoints(p, log=quiet_log())
            try:
                bp.read(samples=None if inp["samples"] is None else set(inp["samples"]))
                return {"ok": data_chars(bp)}
            except Exception as e:  # noqa
                return {"err": err_kind(e), "msg": str(e)[:120]}
        finally:
            shutil.rmtree(d, ignore_errors=True)

    def encode(self, inp, obs):
        if "ok" not in obs and "err" not in obs:
            obs = {"err": obs.get("kind", 99)}
        samples = L.opt(inp["samples"], lambda s: L.lst(s, chars))
        return (f"(mkr {lines_term(inp['lines'])} {samples} {ptab_term(inp['lines'])} "
                f"{L.res(obs, ctable_term)})")

    def nontrivial(self, inp, obs):
        hdr = [ln[0] for ln in inp["lines"] if len(ln) == 1]
        return len(hdr) >= 4 or any(h.count("_") >= 2 for h in hdr)

    def classes(self, inp, obs):
        out = []
        ls = inp["lines"]
        if any(len(ln) == 0 for ln in ls):
            out.append("blank-line")
        if any(ln and ln[0].startswith("#") for ln in ls):
            out.append("comment")
        if any(len(ln) not in (0, 1, 4) for ln in ls):
            out.append("wrong-field-count")
        if any(len(ln) == 1 and ln[0].rsplit("_", 1)[-1] not in ("1", "2") and not ln[0].startswith("#") for ln in ls):
            out.append("bad-header")
        if any(len(ln) == 1 and ln[0].count("_") >= 2 for ln in ls):
            out.append("underscore-name")
        out.append("samples:" + ("none" if inp["samples"] is None else "subset"))
        if inp.get("gz"):
            out.append("gz")
        out.append("ok" if isinstance(obs, dict) and "ok" in obs else f"err{obs.get('err', obs.get('kind')) if isinstance(obs, dict) else '?'}")
        return out

    def shrink(self, inp):
        ls = inp["lines"]
        for j in range(len(ls)):
            yield dict(inp, lines=ls[:j] + ls[j + 1:])
        if inp["samples"] is not None:
            yield dict(inp, samples=None)
        if inp.get("gz"):
            yield dict(inp, gz=False)

    def signature(self, inp, obs):
        return "Breakpoints.read " + ("raises" if "err" in obs else "returns")


def gen_ctable(rng, out_of_domain=False):
    n = int(rng.integers(1, 5))
    names = [NAMES[i] for i in rng.choice(len(NAMES), size=n, replace=False)]
    if rng.random() < 0.1:
        names[0] = ""
    tbl = []
    for nm in names:
        st = []
        for t in range(2):
            blocks = []
            for _ in range(int(rng.integers(0, 5))):
                lab = str(rng.choice(LABELS + [""]))
                c = str(rng.choice(CHROMS))[:10]
                bp = int(rng.choice(GRID + BIG + [0]))
                cm = float(rng.choice(CMS + [float("inf"), float("nan"), 5e-324, -0.0, 1 / 3, 123456789.123456789]))
                blocks.append([lab, c, bp, fbits(cm)])
            st.append(blocks)
        tbl.append([nm, st[0], st[1]])
    if out_of_domain:
        r = rng.random()
        if r < 0.5:
            tbl[0][0] = "#" + tbl[0][0]
        elif tbl[0][1]:
            tbl[0][1][0][0] = "#ab"
    return tbl


class Write(Relation):
    name = "write"
    coq_module = "C05_Check"
    coq_check = "check_write"
    coq_case_type = "wcase"
    coq_model = "model_write"
    coq_imports = ["Tracts", "BpText", "C05_Model"]
    budget = {"quick": 200, "thorough": 2500}
    max_cases_per_shard = 60
    anchors = [("haptools/data/breakpoints.py", "Breakpoints.write"),
               ("haptools/data/breakpoints.py", "Breakpoints.__iter__")]

    def generate(self, rng, n, tier):
        return [{"tbl": gen_ctable(rng, out_of_domain=rng.random() < 0.08), "gz": bool(rng.random() < 0.1)}
                for _ in range(n)]

    def run_impl(self, inp):
        import gzip

        from haptools.data import Breakpoints
        from haptools.data.breakpoints import HapBlock

        d = tempfile.mkdtemp(prefix="hv_c05_")
        try:
            p = os.path.join(d, "out.bp" + (".gz" if inp.get("gz") else ""))
            bp = Breakpoints(p, log=quiet_log())
            bp.data = {
                s[0]: [np.array([(b[0], b[1], b[2], bits_f(b[3])) for b in st], dtype=HapBlock) for st in s[1:]]
                for s in inp["tbl"]
            }
            obs = {}
            try:
                bp.write()
                raw = gzip.open(p, "rb").read() if inp.get("gz") else open(p, "rb").read()
                text = raw.decode()
                ls = text.split("\n")
                obs["lines"] = {"ok": [ln.split("\t") for ln in (ls[:-1] if ls and ls[-1] == "" else ls)]}
            except Exception as e:  # noqa
                obs["lines"] = {"err": err_kind(e), "msg": str(e)[:120]}
                return obs
            try:
                b2 = Breakpoints.load(p)
                obs["reread"] = {"ok": data_chars(b2)}
            except Exception as e:  # noqa
                obs["reread"] = {"err": err_kind(e), "msg": str(e)[:120]}
            return obs
        finally:
            shutil.rmtree(d, ignore_errors=True)

    def encode(self, inp, obs):
        if "lines" not in obs:
            obs = {"lines": {"err": obs.get("kind", 99)}, "reread": {"err": obs.get("kind", 99)}}
        if "reread" not in obs:
            obs["reread"] = {"err": 97}
        ints, flts = [], []
        for s in inp["tbl"]:
            for st in s[1:]:
                for b in st:
                    if b[2] not in ints:
                        ints.append(b[2])
                    if b[3] not in flts:
                        flts.append(b[3])
        fint = L.lst(ints, lambda v: f"({L.z(v)}, {chars(str(np.uint32(v)))})")
        fflt = L.lst(flts, lambda v: f"({L.z(v)}, {chars(str(np.float64(bits_f(v))))})")
        written = obs["lines"].get("ok", [])
        return (f"(mkw {ctable_term(inp['tbl'])} {fint} {fflt} {ptab_term(written)} "
                f"{L.res(obs['lines'], lines_term)} {L.res(obs['reread'], ctable_term)})")

    def nontrivial(self, inp, obs):
        return len(inp["tbl"]) >= 2 or any("_" in s[0] for s in inp["tbl"])

    def classes(self, inp, obs):
        out = [f"samples={len(inp['tbl'])}"]
        if any("_" in s[0] for s in inp["tbl"]):
            out.append("underscore-name")
        if any(s[0].startswith("#") or any(b[0].startswith("#") for st in s[1:] for b in st) for s in inp["tbl"]):
            out.append("out-of-domain-hash")
        if any(not st for s in inp["tbl"] for st in s[1:]):
            out.append("empty-strand")
        if inp.get("gz"):
            out.append("gz")
        return out

    def shrink(self, inp):
        tbl = inp["tbl"]
        for j in range(len(tbl)):
            yield dict(inp, tbl=tbl[:j] + tbl[j + 1:])
        for j, s in enumerate(tbl):
            for t in (1, 2):
                for i in range(len(s[t])):
                    new = list(s)
                    new[t] = s[t][:i] + s[t][i + 1:]
                    yield dict(inp, tbl=tbl[:j] + [new] + tbl[j + 1:])
        if inp.get("gz"):
            yield dict(inp, gz=False)

    def signature(self, inp, obs):
        if "err" in obs.get("lines", {}):
            return "Breakpoints.write raises"
        if "err" in obs.get("reread", {}):
            return "reading the written file raises"
        return "write/read round trip"


RELATIONS = [Find(), Lookup(), Codec(), Read(), Write()]

LEVEL_TEXT = (
    "Coq theorems over all block tables, query lists, sample requests, label orders and token files (no size bound) about "
    "a Gallina model of Breakpoints._find_blocks/population_array/encode/recode/__iter__/write; the model is tied to the "
    "code on every run by evaluating, inside Coq, model-vs-implementation agreement and the property's finite checker "
    "(written with label_at, not with the model) on generated cases incl. every block end, end+1, 1 and beyond-last query."
)
LEVEL_NOTE = (
    "Trusted: Coq kernel/vm_compute; the hand-written model (validated differentially); np.searchsorted(left) on ascending "
    "input = first index with end >= p; numpy's str<->uint32/float64 codecs and csv tab splitting (Section variables with "
    "round-trip hypotheses in bp_roundtrip; recorded tables in the correspondence). Out of the codec's domain and only "
    "compared for agreement: repeated labels given to encode, strands without blocks (recode raises ValueError there)."
)
TECHNIQUE = "Coq proof by induction on block/variant/line lists + vm_compute-evaluated correspondence against the implementation"
