"""C05 - ancestry lookup returns the covering block's label; .bp files round-trip.

Relations (haptools/data/breakpoints.py)
  find   : Breakpoints._find_blocks on end arrays (ascending, and - compared with numpy's bisection only - not)
  lookup : Breakpoints.population_array on constructed tables (strings interned)
  codec  : encode(labels) -> population_array -> encode again -> recode -> recode again
  read   : Breakpoints.read(samples) on generated files, token/character level
  write  : Breakpoints.write() then Breakpoints.load() of the written file
  flookup: a file with labels / chromosome names of any length -> Breakpoints.read -> population_array, on characters
  hist   : a history of calls (read file f / write file g / population_array) in one process that share ONE samples
           set, ONE variants array and ONE order list: every call must answer as the first did, the written subset
           must read back identical, and the objects must be what the caller made them after every call
Every relation records its argument objects (variants array, samples list / set, labels list) after the call(s); agree
demands that they are unchanged (wrappers lcaseA / ecaseA / rcaseA / flcaseA of C05_CheckHist).
"""
import itertools
import os
import shutil
import struct
import tempfile

import numpy as np

from . import coqlit as L
from .core import Relation, err_kind

PROP = "C05"
CLAIMED = True
COQ_MODULES = ["C05_Check", "C05_CheckHist", "C05_Proofs", "C05_ProofsNp", "C05_ProofsCodec", "C05_ProofsText", "C05_ProofsFile",
               "C05_ProofsHist"]
PROPERTY_MODULE = "C05_Property"
ALLOWED_AXIOMS = []
RULE = (
    "find/lookup/codec: tables of 1-5 samples x 1-3 chromosomes (plain, chr-prefixed, X) x 1-6 blocks per strand and "
    "chromosome with ends from a small grid (collisions with the queries are frequent), labels of 1-6 characters; queries "
    "on every block end, end+1, 1, 0, beyond the last block, on an absent chromosome; sample requests: none, permuted, "
    "partial, unknown, repeated, empty; every order/sub-/superset of the labels for the encoder. Width-boundary streams "
    "(every run): 255/256/257 blocks on a strand, 127..1001 ends, ends and positions at 2^31-1, 2^31, 2^32-1, positions "
    "beyond uint32 in int64/uint64 arrays, 255/256/257/258 distinct labels (given + present) for np.uint8 codes. 6-12 % "
    "of the find/lookup/codec tables have block ends that are not ascending (compared with numpy's bisection only). "
    "Non-trivial = at least one query on a block end or end+1 of a strand with >= 2 blocks on that chromosome (find: >= 2 "
    "ends and a position equal to an end or end+1). read/write: generated .bp text incl. comment lines, malformed "
    "headers, wrong field counts, bad int/float tokens, underscores in names, .gz; non-trivial = >= 2 samples or a sample "
    "name with an underscore. flookup: harness-written files whose labels / chromosome names keep their full length "
    "(<= 6 / <= 10 characters, 7-8 character labels, 11-23 character contig names, pairs of contigs equal in their first "
    "10 characters, a position uint32 cannot hold), read and queried through 'U10' and 'U32' variant arrays; non-trivial "
    "as for lookup. hist: tables of 1-5 samples (80 % with every strand closed at 2^32-1), a shared samples set (none / "
    "empty / proper subset / all / with an unknown name; set or frozenset), a shared order list or tuple (or the lookup's "
    "samples derived from the shared set after the read), histories read-twice, read-write-read (plain and .gz), "
    "read-look, read-look-read-look, look-twice, a seven-call round trip and random valid sequences of 2-6 calls over "
    "three files (the source may be gzipped or overwritten); non-trivial = at least two calls receive the same argument "
    "object. read: half of the cases with a samples set read the file twice with that set object. Distinct = distinct "
    "canonical JSON."
)
TRUSTED = [
    "np.searchsorted(side='left') = the branch-free bisection C05_Model.np_search (numpy 2.x; compared with "
    "Breakpoints._find_blocks on sorted and unsorted arrays by relation find on every run); that it is the first index "
    "with end >= p on ascending input is a theorem (C05_np_search_is_first_ge), no longer a contract",
    "numpy str->uint32/float64 conversion and str() of numpy scalars are codec tables recorded from numpy per case "
    "(theorems: Section variables with parse(fmt x) = x)",
    "csv.reader/csv.writer with tab delimiter = split/join on tab for tokens without tab, quote, CR, LF",
    "labels, chromosome and sample names are interned to integers at the lookup level (only compared by the code); in "
    "relation flookup they are characters and the interning (position in the list of all strings of the case, "
    "C05_index_of_inj) happens inside Coq after the reader model",
    "dict iteration order = insertion order (CPython >= 3.7)",
    "assigning a Python int > 255 to an np.uint8 field raises OverflowError (numpy >= 2; modelled, observed in codec)",
]
ASSUMPTIONS = [
    "block ends of a strand are ascending within a chromosome (docs/formats/breakpoints.rst: 'sorted according to chrom, "
    "bp'; np.searchsorted's precondition): tables outside it are compared with the model only (C05_np_search_unsorted_differs)",
    "codec: distinct given labels, every strand has >= 1 block (np.vectorize refuses size-0 input: C05_recode_empty_strand); "
    "up to 256 distinct labels (given + present) encode must succeed, beyond them it may raise OverflowError but may not "
    "wrap codes silently",
    "write/read round trip: distinct sample names; no sample name or label starts with '#'; tokens free of tab/quote/newline",
    "file lookup: labels <= 6 characters (the property's quantifier), positions <= 2^32-1, and - while STRICT_FIELD_WIDTH "
    "is off - chromosome names <= 10 characters (longer ones are silently truncated by the unrepaired reader: "
    "fixes/C05_field_width.patch, corpus/C05/flookup_long_chrom_collision.json)",
    "a request that repeats a sample is answered with one row per distinct sample (C05_population_array_repeated_request); "
    "the property speaks of subsets and orders only, holds does not judge such requests",
    "histories (relation hist): the file is harness-written from a table inside the writer's domain (distinct names, no "
    "'#', labels <= 6 / chromosome names <= 10 characters, positions <= 2^32-1, ascending ends), files are read after they "
    "exist and written / queried after a load succeeded; the samples argument of read is a set or frozenset (its documented "
    "type), of population_array a list or tuple",
]

# Switch for the integrator.  Breakpoints.__iter__ hands the tokens of a block line to
# np.array(..., dtype=HapBlock), whose 'U6' / 'U10' fields silently truncate a longer label / chromosome name.  Two
# contigs that share their first 10 characters (GRCh38: chr1_KI270706v1_random, chr1_KI270707v1_random) are thereby
# merged into one chromosome, and population_array answers a query with a block of the other contig (or, for a query
# array wider than 'U10', refuses a chromosome the file has) - the property's "label of the first block ... on that
# chromosome" / "a chromosome the strand lacks is rejected with an error" fails.  Witness:
# corpus/C05/flookup_long_chrom_collision.json; Coq: C05_legacy_long_chrom_collision_refuted.
# False = the tree before fix 0bcb215: the model truncates (C05_Model.conv_blk, strict = false), relation flookup
#   judges only files whose chromosome names fit 10 characters, longer ones are compared with the model only.
# True (default since fix 0bcb215) = the tree with fixes/C05_field_width.patch: a block line whose label has more than 6 or whose chromosome
#   name has more than 10 characters raises ValueError in __iter__ (model: strict = true,
#   C05_strict_refuses_long_fields) and flookup judges files with chromosome names of any length: an answer must be
#   the covering block's label on the FULL name, a refusal is accepted.  On the unrepaired tree the switch makes
#   ./check report  VIOLATION property=C05 ... signature "file lookup answers chromosome-name-longer-than-10=True ...".
# Also settable with HV_C05_STRICT_FIELD_WIDTH=1.
STRICT_FIELD_WIDTH = os.environ.get("HV_C05_STRICT_FIELD_WIDTH", "1") == "1"

LABELS = ["YRI", "CEU", "ASW", "A", "AB_CDE", "pop123", "x", "Nat_1"]
LONG_LABELS = ["African", "European", "AfricanA", "AfricanB"]
LONG_CHROMS = ["chr1_KI270706v1_random", "chr1_KI270707v1_random", "chr22_KI270731v1_random", "chrUn_KI270302v1",
               "12345678901", "1234567890"]
CHROMS = ["1", "2", "chr1", "chr2", "X", "chrX", "chr10", "22", "chr22_KI27"]
NAMES = ["HG00096", "S_1", "a_b_c", "Sample_1", "x", "NA_2_1", "s1", "T_", "_u"]
GRID = [1, 2, 3, 5, 8, 9, 10, 11, 20, 21, 22, 30, 40, 41, 50]
BIG = [2**31 - 1, 2**32 - 1, 1000]
CMS = [0.0, 0.5, 1.2, 1.21, 1.23, 43.078, 168.003442, 264.995777, 1e-7, 0.1 + 0.2, 5.0, 1e22]


def fbits(x):
    return struct.unpack("<Q", struct.pack("<d", float(x)))[0]


def bits_f(b):
    return struct.unpack("<d", struct.pack("<Q", int(b)))[0]


class Intern:
    """string -> integer >= 300 (disjoint from the np.uint8 codes, which share the "pop" field with the labels in
    a half-encoded table); 'None' (what recode renders for an unknown code) is -1."""

    def __init__(self):
        self.tab = {"None": -1}
        self.n_lab = 0
        self.n_chrom = 0

    def __call__(self, s):
        s = str(s)
        if s not in self.tab:
            if s.startswith("c:"):  # chromosome names live in another field: small numbers
                self.tab[s] = self.n_chrom
                self.n_chrom += 1
            else:
                self.tab[s] = 300 + self.n_lab
                self.n_lab += 1
        return self.tab[s]


def quiet_log():
    import logging

    log = logging.getLogger("hv_c05")
    log.setLevel(logging.CRITICAL + 1)
    return log


# ---------------------------------------------------------------------------
# generators


def gen_strand(rng, chroms, allow_empty=False, drop_chrom=False, closed=False):
    """blocks [label, chrom, bp, cm] with ascending ends per chromosome."""
    out = []
    cs = list(chroms)
    if drop_chrom and len(cs) > 0:
        cs.pop(int(rng.integers(0, len(cs))))
    if allow_empty:
        return out
    for c in cs:
        k = int(rng.integers(1, 7))
        ends = sorted(rng.choice(GRID, size=k).tolist())
        if rng.random() < 0.85:
            ends = sorted(set(ends))
        if closed:
            ends.append(int(rng.choice(BIG[:2])))
        elif rng.random() < 0.7:
            ends.append(int(rng.choice(BIG)))
        cm = 0.0
        for e in ends:
            cm = round(cm + float(rng.choice([0.0, 0.01, 0.5, 20.25])), 6)
            out.append([str(rng.choice(LABELS[: int(rng.integers(1, len(LABELS) + 1))])), c, int(e), cm])
    return out


def gen_table(rng, malformed=0.0):
    n = int(rng.integers(1, 6))
    names = [NAMES[i] for i in rng.choice(len(NAMES), size=n, replace=False)]
    k = int(rng.integers(1, 4))
    chroms = [CHROMS[i] for i in sorted(rng.choice(len(CHROMS), size=k, replace=False).tolist())]
    tbl = []
    closed = bool(rng.random() < 0.7)  # every strand reaches the chromosome-end sentinel
    for nm in names:
        st = []
        for t in range(2):
            r = rng.random()
            st.append(gen_strand(rng, chroms, allow_empty=r < malformed * 0.3,
                                 drop_chrom=malformed * 0.3 <= r < malformed, closed=closed))
        tbl.append([nm, st[0], st[1]])
    return tbl, chroms


def gen_queries(rng, tbl, chroms):
    ends = {}
    for _, s0, s1 in tbl:
        for b in s0 + s1:
            ends.setdefault(b[1], []).append(b[2])
    qs = []
    for _ in range(int(rng.integers(0, 9))):
        c = str(rng.choice(chroms))
        es = ends.get(c, [5])
        r = rng.random()
        if r < 0.35:
            p = int(rng.choice(es))
        elif r < 0.6:
            p = int(rng.choice(es)) + 1
        elif r < 0.7:
            p = 1
        elif r < 0.75:
            p = 0
        elif r < 0.85:
            p = max(es) + int(rng.integers(1, 3))
        else:
            p = int(rng.choice(GRID))
        if p > 2**32 - 1:
            p = 2**32 - 1
        if rng.random() < 0.03:
            c = "chr7"  # absent chromosome
        qs.append([c, p])
    return qs


def gen_request(rng, tbl):
    names = [s[0] for s in tbl]
    r = rng.random()
    if r < 0.35:
        return None
    if r < 0.6:
        return [names[i] for i in rng.permutation(len(names))]
    if r < 0.85:
        k = int(rng.integers(0, len(names) + 1))
        return [names[i] for i in rng.permutation(len(names))[:k]]
    if r < 0.93:
        return names + ["absent"]
    return [names[0]] + names


def build_bp(tbl, d, via_file=False):
    """A Breakpoints object holding tbl: data assigned directly, or (via_file) written as a .bp file by the
    harness and loaded with Breakpoints.load - the path the CLI takes."""
    from haptools.data import Breakpoints
    from haptools.data.breakpoints import HapBlock

    if via_file:
        path = os.path.join(d, "in.bp")
        with open(path, "w") as f:
            for nm, s0, s1 in tbl:
                for t, st in ((1, s0), (2, s1)):
                    f.write(f"{nm}_{t}\n")
                    for b in st:
                        f.write(f"{b[0]}\t{b[1]}\t{b[2]}\t{b[3]!r}\n")
        bp = Breakpoints(path, log=quiet_log())
        bp.read()
        return bp
    bp = Breakpoints(os.path.join(d, "x.bp"), log=quiet_log())
    bp.data = {
        nm: [np.array([tuple(b) for b in s0], dtype=HapBlock), np.array([tuple(b) for b in s1], dtype=HapBlock)]
        for nm, s0, s1 in tbl
    }
    return bp


def variants_array(qs, pos_dtype="uint32", chrom_dtype="U10"):
    return np.array([(c, p) for c, p in qs], dtype=[("chrom", chrom_dtype), ("pos", np.dtype(pos_dtype))])


def request_object(items, kind):
    """the argument object handed to the implementation: built ONCE per case and passed to every call of the history;
    what it holds afterwards is recorded with object_after."""
    if items is None:
        return None
    return {"list": list, "tuple": tuple, "set": set, "frozenset": frozenset}[kind](items)


def object_after(obj):
    """elements of an argument object after the call(s); a set (no order of its own) sorted."""
    if obj is None:
        return None
    if isinstance(obj, (set, frozenset)):
        return sorted(str(x) for x in obj)
    return [str(x) for x in obj]


def array_after(V):
    return [[str(c), int(p)] for c, p in V.tolist()]


def ascending_table(tbl):
    for _, s0, s1 in tbl:
        for st in (s0, s1):
            per = {}
            for b in st:
                per.setdefault(b[1], []).append(b[2])
            if any(es != sorted(es) for es in per.values()):
                return False
    return True


def shuffle_strand(rng, tbl):
    """block ends of one strand no longer ascending (outside the documented format: agree only)."""
    j = int(rng.integers(0, len(tbl)))
    t = 1 + int(rng.integers(0, 2))
    st = tbl[j][t]
    if len(st) >= 2:
        ends = [b[2] for b in st]
        perm = rng.permutation(len(st))
        for i, k in enumerate(perm):
            st[i][2] = ends[int(k)]
    return tbl


def wide_lookup_case(rng, kind):
    """width boundaries. 'blocks': 255 / 256 / 257 blocks on one strand and chromosome (indices past np.uint8, labels
    past the 255th block); 'edges': ends and queries around 2**31 and 2**32 - 1; 'beyond': positions held in an int64 /
    uint64 array beyond what uint32 holds (every strand reaches 2**32 - 1, so they are the only uncovered ones)."""
    if kind == "blocks":
        n = int(rng.choice([255, 256, 257]))
        step = int(rng.choice([1, 3]))
        s0 = [[LABELS[i % 3] if i < 254 else LABELS[3 + i % 4], "1", (i + 1) * step, 0.0] for i in range(n)]
        s1 = [["x", "1", 2**32 - 1, 1.0]]
        ends = [b[2] for b in s0]
        qs = [["1", p] for p in (ends[253], ends[254], ends[254] + 1, ends[-1], ends[-1] - 1, 1, ends[127], ends[128])]
        if rng.random() < 0.3:
            qs.append(["1", ends[-1] + 1])
        return {"tbl": [["s", s0, s1]], "qs": qs, "req": None, "via_file": bool(rng.random() < 0.5)}
    edges = [2**31 - 2, 2**31 - 1, 2**31, 2**31 + 1, 2**32 - 2]
    k = int(rng.integers(1, 5))
    ends = sorted(set(int(e) for e in rng.choice(edges, size=k))) + [2**32 - 1]
    s0 = [[LABELS[i % len(LABELS)], "chr1", e, float(i)] for i, e in enumerate(ends)]
    s1 = [["YRI", "chr1", 7, 0.0], ["CEU", "chr1", 2**32 - 1, 0.5]]
    pool = edges + [2**32 - 1] + [e + 1 for e in ends[:-1]] + [7, 8]
    qs = [["chr1", int(p)] for p in rng.choice(pool, size=int(rng.integers(1, 5)))]
    dt = "uint32"
    if kind == "beyond":
        dt = str(rng.choice(["int64", "uint64"]))
        beyond = [["chr1", int(rng.choice([2**32, 2**32 + 1, 2**32 + 7, 2**33, 2**40]))]]
        qs = beyond if rng.random() < 0.5 else qs[:1] + beyond
    elif rng.random() < 0.3:
        dt = str(rng.choice(["int64", "uint64"]))
    return {"tbl": [["s", s0, s1], ["t", s1, s0]], "qs": qs, "req": ["t", "s"], "via_file": bool(rng.random() < 0.5),
            "pos_dtype": dt}


def seg_term(b, it, cmi):
    return f"(mkseg {L.z(b[0] if isinstance(b[0], int) else it(b[0]))} {L.z(it('c:' + b[1]))} {L.z(b[2])} {L.z(cmi(float(b[3])))})"


def table_term(tbl, it, cmi, names):
    return L.lst(tbl, lambda s: f"({L.z(names(s[0]))}, ({L.lst(s[1], lambda b: seg_term(b, it, cmi))}, {L.lst(s[2], lambda b: seg_term(b, it, cmi))}))")


def arr_term(arr, f):
    return L.lst(arr, lambda row: L.lst(row, lambda c: f"({L.z(f(c[0]))}, {L.z(f(c[1]))})"))


def touches_boundary(tbl, qs):
    for _, s0, s1 in tbl:
        for st in (s0, s1):
            per = {}
            for b in st:
                per.setdefault(b[1], []).append(b[2])
            for c, p in qs:
                es = per.get(c, [])
                if len(es) >= 2 and (p in es or p - 1 in es):
                    return True
    return False


def lookup_classes(tbl, qs, req):
    out = []
    allends = {}
    for _, s0, s1 in tbl:
        for b in s0 + s1:
            allends.setdefault(b[1], set()).add(b[2])
    for c, p in qs:
        es = allends.get(c)
        if es is None:
            out.append("q:absent-chrom")
        elif p in es:
            out.append("q:on-end")
        elif p - 1 in es:
            out.append("q:end+1")
        elif p > max(es):
            out.append("q:beyond-last")
        elif p <= 1:
            out.append("q:pos<=1")
        else:
            out.append("q:inside")
    out = sorted(set(out))
    names = [s[0] for s in tbl]
    if req is None:
        out.append("req:none")
    elif len(set(req)) < len(req):
        out.append("req:repeated")
    elif any(r not in names for r in req):
        out.append("req:unknown")
    elif req == names:
        out.append("req:same-order")
    elif sorted(req) == sorted(names):
        out.append("req:permuted")
    else:
        out.append("req:partial")
    if any(not s0 or not s1 for _, s0, s1 in tbl):
        out.append("tbl:empty-strand")
    out.append(f"samples={len(tbl)}")
    return out


# ---------------------------------------------------------------------------


def find_ends(inp):
    """the ends array of a find input; {"upto": n, "step": s} is the compact form of [s, 2s, ..., ns]."""
    e = inp["ends"]
    if isinstance(e, dict):
        return [i * e["step"] for i in range(1, e["upto"] + 1)]
    return e


class Find(Relation):
    name = "find"
    coq_module = "C05_Check"
    coq_check = "check_find"
    coq_case_type = "fcase"
    coq_model = "model_find"
    coq_imports = ["Tracts", "BpText", "C05_Model"]
    budget = {"quick": 1200, "thorough": 10000}
    anchors = [("haptools/data/breakpoints.py", "Breakpoints._find_blocks")]

    def generate(self, rng, n, tier):
        out = []
        for _ in range(n):
            k = int(rng.integers(0, 7))
            ends = sorted(rng.choice(GRID + BIG, size=k).tolist())
            m = int(rng.integers(0, 6))
            pos = []
            for _ in range(m):
                r = rng.random()
                if ends and r < 0.4:
                    pos.append(int(rng.choice(ends)))
                elif ends and r < 0.7:
                    pos.append(min(int(rng.choice(ends)) + 1, 2**32 - 1))
                elif r < 0.8:
                    pos.append(int(rng.integers(0, 2)))
                else:
                    pos.append(int(rng.choice(GRID)) + int(rng.integers(-1, 2)))
            if rng.random() < 0.12:
                # not ascending: outside the documented format, numpy's bisection is still deterministic (agree only)
                ends = [int(e) for e in rng.permutation(ends)]
                if rng.random() < 0.5:
                    pos = [int(p) for p in rng.integers(0, 52, size=m)]
            out.append({"ends": [int(e) for e in ends], "pos": pos})
        # width boundaries: 255 / 256 / 257 ends (index past np.uint8), keys in int64 / uint64 beyond uint32
        for j in range(max(3, n // 400) if tier == "quick" else 45):
            kind = ("long", "edges", "beyond")[j % 3]
            if kind == "long":
                k = int(rng.choice([127, 128, 255, 256, 257, 1000, 1001]))
                step = int(rng.choice([1, 2]))
                ends = [(i + 1) * step for i in range(k)]
                if rng.random() < 0.3:
                    ends = [int(e) for e in rng.permutation(ends)]
                pos = [ends[-1], ends[-2] + 1, ends[k // 2], step * 255, step * 256, step * 256 + 1, 0]
                if rng.random() < 0.3:
                    pos.append(max(ends) + 1)
                out.append({"ends": ends, "pos": pos})
            else:
                edges = [2**31 - 2, 2**31 - 1, 2**31, 2**31 + 1, 2**32 - 2, 2**32 - 1]
                ends = sorted(int(e) for e in rng.choice(edges, size=int(rng.integers(1, 6))))
                dt = str(rng.choice(["uint32", "int64", "uint64"]))
                pos = [int(p) for p in rng.choice(edges, size=int(rng.integers(1, 6)))]
                if kind == "beyond":
                    dt = str(rng.choice(["int64", "uint64"]))
                    pos = pos[: int(rng.integers(0, 2))] + [int(rng.choice([2**32, 2**32 + 1, 2**40]))]
                out.append({"ends": ends, "pos": pos, "pos_dtype": dt})
        return out

    def exhaustive(self, tier):
        out = []
        pts = [2, 3, 5]
        # every array of <= 4 elements over {2,3,5} in EVERY order (sorted or not) x every key 0..6
        for k in range(0, 5):
            for ends in itertools.product(pts, repeat=k):
                if list(ends) != sorted(ends):
                    out.append({"ends": list(ends), "pos": [0, 1, 2, 3, 4, 5, 6]})
        for k in range(0, 4):
            for ends in itertools.combinations_with_replacement(pts, k):
                out.append({"ends": list(ends), "pos": [0, 1, 2, 3, 4, 5]})
                out.append({"ends": list(ends), "pos": [6]})
                for p in (1, 2, 3, 4, 5, 6):
                    out.append({"ends": list(ends), "pos": [p]})
        return out

    def run_impl(self, inp):
        from haptools.data import Breakpoints

        try:
            r = Breakpoints._find_blocks(np.array(find_ends(inp), dtype=np.uint32),
                                         np.array(inp["pos"], dtype=np.dtype(inp.get("pos_dtype", "uint32"))))
            return {"ok": [int(x) for x in r]}
        except Exception as e:  # noqa
            return {"err": err_kind(e)}

    def encode(self, inp, obs):
        if "ok" not in obs and "err" not in obs:
            obs = {"err": obs.get("kind", 99)}
        e = inp["ends"]
        ends = f"(arith_list {L.z(e['upto'])} {L.z(e['step'])})" if isinstance(e, dict) else L.zl(e)
        return f"(mkf {ends} {L.zl(inp['pos'])} {L.res(obs, L.zl)})"

    def nontrivial(self, inp, obs):
        es = set(find_ends(inp))
        return len(es) >= 2 and any(p in es or p - 1 in es for p in inp["pos"])

    def classes(self, inp, obs):
        es = find_ends(inp)
        out = [f"ends={min(len(es), 4)}"]
        if len(es) > 65535:
            out.append("ends>65535")
        for p in inp["pos"]:
            if p in es:
                out.append("on-end")
            elif p - 1 in es:
                out.append("end+1")
            if es and p > es[-1]:
                out.append("beyond-last")
        if len(set(es)) < len(es):
            out.append("equal-ends")
        if es != sorted(es):
            out.append("non-ascending")
        if len(es) >= 255:
            out.append("ends>=255")
        if any(p >= 2**31 for p in inp["pos"]):
            out.append("pos>=2^31")
        if any(p > 2**32 - 1 for p in inp["pos"]):
            out.append("pos>uint32")
        if isinstance(obs, dict) and "err" in obs:
            out.append(f"err{obs['err']}")
        return sorted(set(out))

    def shrink(self, inp):
        if isinstance(inp["ends"], dict):
            e = inp["ends"]
            for n in (e["upto"] // 2, e["upto"] - 1):
                if n >= 1:
                    yield dict(inp, ends=dict(e, upto=n))
        else:
            for j in range(len(inp["ends"])):
                yield dict(inp, ends=inp["ends"][:j] + inp["ends"][j + 1:])
        for j in range(len(inp["pos"])):
            yield dict(inp, pos=inp["pos"][:j] + inp["pos"][j + 1:])

    def mutate(self, inp, rng):
        for e in find_ends(inp)[:40]:
            for d in (-1, 0, 1):
                if e + d >= 0:
                    yield dict(inp, pos=[e + d])
        for n in (257, 65537):  # index widths
            yield {"ends": {"upto": n, "step": 1}, "pos": [1, 255, 256, 257, n - 1, n]}

    def signature(self, inp, obs):
        es = find_ends(inp)
        kind = "error" if "err" in obs else "index"
        on = any(p in es for p in inp["pos"])
        return f"_find_blocks {kind} position-on-block-end={on} ends-ascending={es == sorted(es)}"


class Lookup(Relation):
    name = "lookup"
    coq_module = "C05_CheckHist"
    coq_check = "check_lookupA"
    coq_case_type = "lcaseA"
    coq_model = "model_lookupA"
    coq_imports = ["Tracts", "BpText", "C05_Model", "C05_Check"]
    budget = {"quick": 700, "thorough": 8000}
    anchors = [("haptools/data/breakpoints.py", "Breakpoints.population_array"),
               ("haptools/data/breakpoints.py", "Breakpoints._find_blocks")]

    def generate(self, rng, n, tier):
        out = []
        for _ in range(n):
            tbl, chroms = gen_table(rng, malformed=0.08 if rng.random() < 0.3 else 0.0)
            if rng.random() < 0.06:
                tbl = shuffle_strand(rng, tbl)
            out.append({"tbl": tbl, "qs": gen_queries(rng, tbl, chroms), "req": gen_request(rng, tbl),
                        "via_file": bool(rng.random() < 0.3), "req_kind": "list" if rng.random() < 0.35 else "tuple"})
        for j in range(max(3, n // 230) if tier == "quick" else 45):
            out.append(wide_lookup_case(rng, ("blocks", "edges", "beyond")[j % 3]))
        return out

    def exhaustive(self, tier):
        # every layout of <= 3 ends over a 3-point grid on one chromosome x 2 labels, all positions 0..7,
        # second strand fixed, a second sample so that the request order matters
        out = []
        pts = [2, 3, 5]
        for k in range(1, 4):
            for ends in itertools.combinations(pts, k):
                for labs in itertools.product(["A", "B"], repeat=k):
                    s0 = [[labs[i], "1", e, float(i)] for i, e in enumerate(ends)]
                    s1 = [["B", "1", 7, 0.5]]
                    tbl = [["s", s0, s1], ["t", s1, s0]]
                    for req in (None, ["t", "s"]):
                        out.append({"tbl": tbl, "qs": [["1", p] for p in range(0, 8)], "req": req})
                        for p in range(0, 8):
                            out.append({"tbl": tbl, "qs": [["1", p]], "req": req})
        return out

    def run_impl(self, inp):
        d = tempfile.mkdtemp(prefix="hv_c05_")
        try:
            bp = build_bp(inp["tbl"], d, via_file=inp.get("via_file", False))
            # the argument objects: looked at again after the call (they must be what they were)
            V = variants_array(inp["qs"], inp.get("pos_dtype", "uint32"))
            req = request_object(inp["req"], inp.get("req_kind", "tuple"))
            try:
                arr = bp.population_array(V, samples=req)
                obs = {"ok": arr.tolist(), "shape": list(arr.shape), "dtype": str(arr.dtype)}
            except Exception as e:  # noqa
                obs = {"err": err_kind(e), "msg": str(e)[:120]}
            obs["vs_after"] = array_after(V)
            obs["req_after"] = object_after(req)
            return obs
        finally:
            shutil.rmtree(d, ignore_errors=True)

    def encode(self, inp, obs):
        it, cmi, nm = Intern(), L.Interner(), L.Interner()
        tbl = table_term(inp["tbl"], it, cmi, nm)
        vs = L.lst(inp["qs"], lambda q: f"(mkvar {L.z(it('c:' + q[0]))} {L.z(q[1])})")
        req = L.opt(inp["req"], lambda r: L.lst(r, lambda s: L.z(nm(s))))
        if "ok" in obs:
            o = f"(Ok {arr_term(obs['ok'], it)})"
        else:
            o = f"(Err {L.z(obs.get('err', obs.get('kind', 99)))})"
        vs_after = L.lst(obs.get("vs_after", inp["qs"]), lambda q: f"(mkvar {L.z(it('c:' + q[0]))} {L.z(q[1])})")
        req_after = L.opt(obs.get("req_after", inp["req"]), lambda r: L.lst(r, lambda s: L.z(nm(s))))
        return f"(mklA (mkl {tbl} {vs} {req} {o}) {vs_after} {req_after})"

    def nontrivial(self, inp, obs):
        return touches_boundary(inp["tbl"], inp["qs"])

    def classes(self, inp, obs):
        out = lookup_classes(inp["tbl"], inp["qs"], inp["req"])
        if inp.get("via_file"):
            out.append("loaded-from-file")
        if not ascending_table(inp["tbl"]):
            out.append("tbl:non-ascending")
        if any(len(st) >= 255 for s_ in inp["tbl"] for st in s_[1:]):
            out.append("tbl:blocks>=255")
        if any(q[1] >= 2**31 for q in inp["qs"]):
            out.append("q:pos>=2^31")
        if any(q[1] > 2**32 - 1 for q in inp["qs"]):
            out.append("q:pos>uint32")
        if inp.get("pos_dtype", "uint32") != "uint32":
            out.append("pos-dtype:" + inp["pos_dtype"])
        if isinstance(obs, dict) and "err" in obs:
            out.append(f"err{obs['err']}")
        return out

    def shrink(self, inp):
        tbl = inp["tbl"]
        for j in range(len(tbl)):
            if inp["req"] is None or tbl[j][0] not in inp["req"]:
                yield dict(inp, tbl=tbl[:j] + tbl[j + 1:])
            else:
                yield dict(inp, tbl=tbl[:j] + tbl[j + 1:], req=[r for r in inp["req"] if r != tbl[j][0]])
        for j in range(len(inp["qs"])):
            yield dict(inp, qs=inp["qs"][:j] + inp["qs"][j + 1:])
        for j, (nm, s0, s1) in enumerate(tbl):
            for t, st in ((1, s0), (2, s1)):
                for i in range(len(st)):
                    new = list(tbl[j])
                    new[t] = st[:i] + st[i + 1:]
                    yield dict(inp, tbl=tbl[:j] + [new] + tbl[j + 1:])
        if inp["req"] is not None:
            yield dict(inp, req=None)

    def mutate(self, inp, rng):
        for _, s0, s1 in inp["tbl"]:
            for b in s0 + s1:
                for dlt in (0, 1):
                    yield dict(inp, qs=[[b[1], min(b[2] + dlt, 2**32 - 1)]])
        tbl = inp["tbl"]
        if tbl:  # a long strand: the answer for a block past the 255th
            nm, s0, s1 = tbl[0]
            if s0:
                c = s0[0][1]
                long0 = [[s0[i % len(s0)][0], c, i + 1, 0.0] for i in range(260)]
                yield dict(inp, tbl=[[nm, long0, s1]] + tbl[1:], qs=[[c, 1], [c, 255], [c, 256], [c, 257], [c, 260]])

    def signature(self, inp, obs):
        kind = "raises" if "err" in obs else "answers"
        cls = [c for c in lookup_classes(inp["tbl"], inp["qs"], inp["req"]) if c.startswith(("q:", "req:"))]
        return f"population_array {kind} {' '.join(cls)}"


def gen_given(rng, tbl):
    present = []
    for _, s0, s1 in tbl:
        for b in s0 + s1:
            if b[0] not in present:
                present.append(b[0])
    r = rng.random()
    if r < 0.25:
        return None
    pool = list(present)
    if r < 0.55:
        pass
    elif r < 0.75:
        pool += [l for l in ("ZZZ", "unseen") if l not in pool]
    elif r < 0.9:
        pool = pool[: int(rng.integers(0, len(pool) + 1))]
    else:
        pool = pool + pool[:1]  # repeated label: outside the codec's domain (agree only)
    return [pool[i] for i in rng.permutation(len(pool))]


def wide_codec_case(rng):
    """label-count boundaries of the np.uint8 codes: 255 / 256 / 257 / 300 distinct labels (given + present), laid out
    over one or two samples so that an overflow leaves earlier strands already encoded."""
    n = int(rng.choice([255, 256, 257, 258]))
    labs = [f"L{i}" for i in range(n)]
    r = rng.random()
    if r < 0.4:
        given = None
    elif r < 0.6:
        given = [labs[2], labs[0], labs[n - 1]]
    elif r < 0.8:
        # unused given labels take the low codes: the table's labels start at len(given)
        k = int(rng.choice([1, 250, 254, 255, 256, 300]))
        given = [f"G{i}" for i in range(k)]
        m = [x for x in (1, 2, 255 - k, 256 - k, 257 - k) if 1 <= x <= n]
        labs = labs[: int(rng.choice(m))]
    else:
        given = list(reversed(labs))   # every label given: code of labs[i] is n-1-i
    cuts = sorted(int(c) for c in rng.choice(np.arange(1, max(2, len(labs))), size=3))
    parts = [labs[: cuts[0]], labs[cuts[0]: cuts[1]], labs[cuts[1]: cuts[2]], labs[cuts[2]:]]
    parts = [pt if pt else [labs[0]] for pt in parts]
    strands = [[[lab, "1", i + 1, 0.0] for i, lab in enumerate(pt)] for pt in parts]
    if rng.random() < 0.5:
        tbl = [["s", strands[0] + [[labs[0], "1", len(strands[0]) + 5, 0.5]], strands[1]], ["t", strands[2], strands[3]]]
    else:
        whole = [[lab, "1", i + 1, 0.0] for i, lab in enumerate(labs)]
        tbl = [["s", whole, strands[0]]]
    qs = [["1", 1], ["1", 2], ["1", len(strands[0])]]
    return {"tbl": tbl, "given": given, "qs": qs, "req": None, "via_file": False}


class Codec(Relation):
    name = "codec"
    coq_module = "C05_CheckHist"
    coq_check = "check_codecA"
    coq_case_type = "ecaseA"
    coq_model = "model_codecA"
    coq_imports = ["Tracts", "BpText", "C05_Model", "C05_Check"]
    budget = {"quick": 400, "thorough": 4000}
    anchors = [("haptools/data/breakpoints.py", "Breakpoints.encode"),
               ("haptools/data/breakpoints.py", "Breakpoints.recode"),
               ("haptools/data/breakpoints.py", "Breakpoints.population_array")]

    def generate(self, rng, n, tier):
        out = []
        for _ in range(n):
            tbl, chroms = gen_table(rng, malformed=0.06 if rng.random() < 0.2 else 0.0)
            if rng.random() < 0.04:
                tbl = shuffle_strand(rng, tbl)
            out.append({"tbl": tbl, "given": gen_given(rng, tbl), "qs": gen_queries(rng, tbl, chroms),
                        "req": gen_request(rng, tbl), "via_file": bool(rng.random() < 0.3),
                        "given_kind": "list" if rng.random() < 0.5 else "tuple",
                        "req_kind": "list" if rng.random() < 0.35 else "tuple"})
        for _ in range(max(2, n // 200) if tier == "quick" else 24):
            out.append(wide_codec_case(rng))
        return out

    def exhaustive(self, tier):
        # every order of every sub-/superset of the labels {A,B,C} given to the encoder
        s0 = [["B", "1", 2, 0.1], ["A", "1", 5, 0.2], ["C", "1", 9, 0.3]]
        s1 = [["C", "1", 3, 0.1], ["B", "1", 9, 0.2]]
        tbl = [["s", s0, s1], ["t", s1, s0]]
        qs = [["1", p] for p in (1, 2, 3, 4, 5, 6, 9)]
        out = [{"tbl": tbl, "given": None, "qs": qs, "req": None}]
        for k in range(0, 5):
            for g in itertools.permutations(["A", "B", "C", "D"], k):
                out.append({"tbl": tbl, "given": list(g), "qs": qs, "req": ["t", "s"]})
        return out

    @staticmethod
    def _data(bp):
        return [[nm, [[(int(x) if isinstance(x, (int, np.integer)) else (float(x) if isinstance(x, float) else str(x))) for x in b] for b in st[0].tolist()],
                 [[(int(x) if isinstance(x, (int, np.integer)) else (float(x) if isinstance(x, float) else str(x))) for x in b] for b in st[1].tolist()]]
                for nm, st in bp.data.items()]

    def run_impl(self, inp):
        d = tempfile.mkdtemp(prefix="hv_c05_")
        try:
            bp = build_bp(inp["tbl"], d, via_file=inp.get("via_file", False))
            # ONE labels object for both encode calls, one variants array, one samples object: all looked at
            # again at the end (they must be what they were)
            given = request_object(inp["given"], inp.get("given_kind", "tuple"))
            V = variants_array(inp["qs"])
            req = request_object(inp["req"], inp.get("req_kind", "tuple"))
            obs = {}
            failed = False

            def args_after():
                obs["given_after"] = object_after(given)
                obs["vs_after"] = array_after(V)
                obs["req_after"] = object_after(req)
            try:
                bp.encode(labels=given)
                obs["enc"] = {"ok": {"data": self._data(bp), "labels": [[str(k), int(v)] for k, v in bp.labels.items()]}}
            except Exception as e:  # noqa
                failed = True
                obs["enc"] = {"err": err_kind(e)}
                if isinstance(e, OverflowError):
                    # np.uint8 cannot hold the code: the strands before the failing one are already encoded
                    obs["part"] = self._data(bp) if bp.labels is None else None
                    if obs["part"] is None:
                        obs["enc"] = {"err": 97}
            try:
                arr = bp.population_array(V, samples=req)
                cells = arr.tolist()
                if arr.dtype.kind != "U":
                    cells = [[[int(x) for x in c] for c in row] for row in cells]
                obs["arr"] = {"ok": cells, "dtype": str(arr.dtype)}
            except Exception as e:  # noqa
                obs["arr"] = {"err": err_kind(e)}
            if failed:
                # the object is half encoded with labels None: the remaining steps are not run (model: E_Skip)
                obs["again"] = obs["rec"] = obs["rec_again"] = {"err": 98}
                args_after()
                return obs
            try:
                bp.encode(labels=given)
                obs["again"] = {"ok": 0}
            except Exception as e:  # noqa
                obs["again"] = {"err": err_kind(e)}
            try:
                bp.recode()
                obs["rec"] = {"ok": self._data(bp)} if bp.labels is None else {"err": 97}
            except Exception as e:  # noqa
                obs["rec"] = {"err": err_kind(e)}
            try:
                bp.recode()
                obs["rec_again"] = {"ok": 0}
            except Exception as e:  # noqa
                obs["rec_again"] = {"err": err_kind(e)}
            args_after()
            return obs
        finally:
            shutil.rmtree(d, ignore_errors=True)

    def encode(self, inp, obs):
        it, cmi, nm = Intern(), L.Interner(), L.Interner()
        tbl = table_term(inp["tbl"], it, cmi, nm)
        vs = L.lst(inp["qs"], lambda q: f"(mkvar {L.z(it('c:' + q[0]))} {L.z(q[1])})")
        req = L.opt(inp["req"], lambda r: L.lst(r, lambda s: L.z(nm(s))))
        given = L.opt(inp["given"], lambda g: L.lst(g, lambda s: L.z(it(s))))
        if "enc" not in obs:
            k = obs.get("kind", 99)
            obs = {x: {"err": k} for x in ("enc", "arr", "again", "rec", "rec_again")}
        enc = L.res(obs["enc"], lambda o: f"({table_term(o['data'], it, cmi, nm)}, "
                                          f"{L.lst(o['labels'], lambda kv: f'({L.z(it(kv[0]))}, {L.z(kv[1])})')})")
        # cells of an encoded object are codes; of an object left with labels None they are strings: labels, or the
        # decimal rendering of the codes of the strands a failed encode had already replaced
        cell = lambda x: int(x) if isinstance(x, int) or str(x).isdigit() else it(x)
        arr = L.res(obs["arr"], lambda a: arr_term(a, cell))
        rec = L.res(obs["rec"], lambda t: table_term(t, it, cmi, nm))
        part = L.opt(obs.get("part"), lambda t: table_term(t, it, cmi, nm))
        given_after = L.opt(obs.get("given_after", inp["given"]), lambda g: L.lst(g, lambda s: L.z(it(s))))
        vs_after = L.lst(obs.get("vs_after", inp["qs"]), lambda q: f"(mkvar {L.z(it('c:' + q[0]))} {L.z(q[1])})")
        req_after = L.opt(obs.get("req_after", inp["req"]), lambda r: L.lst(r, lambda s: L.z(nm(s))))
        return (f"(mkeA (mke {tbl} {given} {vs} {req} {enc} {part} {arr} {L.res(obs['again'], L.z)} {rec} "
                f"{L.res(obs['rec_again'], L.z)}) {given_after} {vs_after} {req_after})")

    def nontrivial(self, inp, obs):
        labs = {b[0] for _, s0, s1 in inp["tbl"] for b in s0 + s1}
        return len(labs) >= 2

    def classes(self, inp, obs):
        g = inp["given"]
        labs = []
        for _, s0, s1 in inp["tbl"]:
            for b in s0 + s1:
                if b[0] not in labs:
                    labs.append(b[0])
        if g is None:
            out = ["given:none"]
        elif len(set(g)) < len(g):
            out = ["given:repeated"]
        elif set(g) == set(labs):
            out = ["given:first-seen-order" if g == labs else "given:permuted"]
        elif set(g) > set(labs):
            out = ["given:superset"]
        else:
            out = ["given:partial"]
        out.append(f"labels={len(labs)}" if len(labs) < 200 else f"labels+given={len(set(labs) | set(g or []))}")
        if isinstance(obs, dict) and obs.get("enc", {}).get("err") == 7:
            out.append("encode-overflow")
        if not ascending_table(inp["tbl"]):
            out.append("tbl:non-ascending")
        if any(not s0 or not s1 for _, s0, s1 in inp["tbl"]):
            out.append("tbl:empty-strand")
        if inp.get("via_file"):
            out.append("loaded-from-file")
        if isinstance(obs, dict) and "rec" in obs and "err" in obs["rec"]:
            out.append(f"recode-err{obs['rec']['err']}")
        return out

    def shrink(self, inp):
        yield from Lookup.shrink(self, inp)
        if inp["given"]:
            for j in range(len(inp["given"])):
                yield dict(inp, given=inp["given"][:j] + inp["given"][j + 1:])
            yield dict(inp, given=None)

    def mutate(self, inp, rng):
        labs = sorted({b[0] for _, s0, s1 in inp["tbl"] for b in s0 + s1})
        for g in itertools.islice(itertools.permutations(labs), 24):
            yield dict(inp, given=list(g))
        for n in (256, 257):  # the label-count boundary of np.uint8
            wl = [f"L{i}" for i in range(n)]
            yield dict(inp, tbl=[["w", [[l, "1", i + 1, 0.0] for i, l in enumerate(wl[:-1])], [[wl[-1], "1", 5, 0.0]]]],
                       given=None, qs=[["1", 1], ["1", 5]], req=None)

    def signature(self, inp, obs):
        rec = obs.get("rec", {})
        if "err" in obs.get("enc", {}):
            return f"codec encode raises kind={obs['enc']['err']} given={'none' if inp['given'] is None else 'list'}"
        what = "recode raises" if "err" in rec else "encode/recode/query"
        return f"codec {what} given={'none' if inp['given'] is None else 'list'}"


# ---------------------------------------------------------------------------
# text level


def chars(s):
    return L.chars(s)


def conv_token(tok):
    """(uint32 result, float64 result) of numpy's conversion of a str field, as res dicts."""
    out = []
    for dt in (np.uint32, np.float64):
        try:
            v = np.array([(tok,)], dtype=[("x", dt)])["x"][0]
            out.append({"ok": int(v) if dt is np.uint32 else fbits(v)})
        except Exception as e:  # noqa
            out.append({"err": err_kind(e)})
    return out


def ptab_term(lines):
    toks = []
    for ln in lines:
        if len(ln) == 4:
            for t in ln[2:]:
                if t not in toks:
                    toks.append(t)
    return L.lst(toks, lambda t: f"({chars(t)}, ({L.res(conv_token(t)[0], L.z)}, {L.res(conv_token(t)[1], L.z)}))")


def ctable_term(tbl):
    blk = lambda b: f"(mkcb {chars(b[0])} {chars(b[1])} {L.z(b[2])} {L.z(b[3])})"
    return L.lst(tbl, lambda s: f"({chars(s[0])}, ({L.lst(s[1], blk)}, {L.lst(s[2], blk)}))")


def lines_term(lines):
    return L.lst(lines, lambda ln: L.lst(ln, chars))


def data_chars(bp):
    out = []
    for nm, st in bp.data.items():
        row = [str(nm)]
        for s in st:
            row.append([[str(b[0]), str(b[1]), int(b[2]), fbits(b[3])] for b in s.tolist()])
        out.append(row)
    return out


BAD_INT = ["x", "-1", "1.0", "4294967296", " 12", "1_0", "", "+5", "12 "]
BAD_FLT = ["x", "nan", "inf", "1e400", "", "1_0.5", " 1.5 ", "-0.0", "1,5"]


def gen_lines(rng, malformed):
    """A .bp file as token lines, well-formed or perturbed."""
    n = int(rng.integers(1, 5))
    names = [NAMES[i] for i in rng.choice(len(NAMES), size=n, replace=False)]
    if malformed and rng.random() < 0.2:
        names.append(names[0])  # repeated sample
    lines = []
    for nm in names:
        for t in (1, 2):
            lines.append([f"{nm}_{t}"])
            for _ in range(int(rng.integers(0, 4))):
                lab = str(rng.choice(LABELS))
                c = str(rng.choice(CHROMS[:5]))
                lines.append([lab, c, str(int(rng.choice(GRID + BIG))), repr(float(rng.choice(CMS)))])
    if not malformed:
        if rng.random() < 0.3:
            lines.insert(0, ["#comment line"])
        return lines
    for _ in range(int(rng.integers(1, 4))):
        r = rng.random()
        j = int(rng.integers(0, len(lines) + 1))
        if r < 0.12:
            lines.insert(j, ["# c", "x"] if rng.random() < 0.5 else ["#"])
        elif r < 0.22:
            lines.insert(j, [str(rng.choice(["S_3", "S", "1", "2", "_1", "_2", " ", "a_b_"]))])
        elif r < 0.32:
            lines.insert(j, ["YRI", "1", "5"] if rng.random() < 0.5 else ["YRI", "1", "5", "0.5", "extra"])
        elif r < 0.37:
            lines.insert(j, [])
        elif r < 0.45:
            lines.insert(0, ["YRI", "1", "5", "0.5"])
        elif r < 0.52 and lines:
            lines.pop(0)
        elif r < 0.7:
            k = [i for i, ln in enumerate(lines) if len(ln) == 4]
            if k:
                i = int(rng.choice(k))
                lines[i] = lines[i][:2] + [str(rng.choice(BAD_INT)), lines[i][3]]
        elif r < 0.85:
            k = [i for i, ln in enumerate(lines) if len(ln) == 4]
            if k:
                i = int(rng.choice(k))
                lines[i] = lines[i][:3] + [str(rng.choice(BAD_FLT))]
        elif r < 0.93:
            k = [i for i, ln in enumerate(lines) if len(ln) == 4]
            if k:
                i = int(rng.choice(k))
                lines[i] = ["LONGLABEL", "chr1234567890"] + lines[i][2:]
        else:
            k = [i for i, ln in enumerate(lines) if len(ln) == 1 and ln[0].endswith("_2")]
            if k:
                i = int(rng.choice(k))
                lines[i] = ["other_2"]
    return lines


def write_lines(lines, path):
    import gzip

    text = "".join("\t".join(ln) + "\n" for ln in lines)
    if path.endswith(".gz"):
        with gzip.open(path, "wt") as f:
            f.write(text)
    else:
        with open(path, "w") as f:
            f.write(text)


class Read(Relation):
    name = "read"
    coq_module = "C05_CheckHist"
    coq_check = "check_readA"
    coq_case_type = "rcaseA"
    coq_model = "model_readA"
    coq_imports = ["Tracts", "BpText", "C05_Model", "C05_Check"]
    budget = {"quick": 250, "thorough": 3000}
    max_cases_per_shard = 60
    anchors = [("haptools/data/breakpoints.py", "Breakpoints.__iter__"),
               ("haptools/data/breakpoints.py", "Breakpoints.read")]

    def generate(self, rng, n, tier):
        out = []
        for _ in range(n):
            lines = gen_lines(rng, malformed=rng.random() < 0.5)
            names = sorted({ln[0][:-2] for ln in lines if len(ln) == 1 and ln[0][-2:] in ("_1", "_2")})
            r = rng.random()
            if r < 0.6 or not names:
                samples = None
            elif r < 0.9:
                k = int(rng.integers(0, len(names) + 1))
                samples = [names[i] for i in rng.permutation(len(names))[:k]]
            else:
                samples = names[:1] + ["absent"]
            # twice: the file is read a second time (a new Breakpoints object) with the SAME set object
            out.append({"lines": lines, "samples": samples, "gz": bool(rng.random() < 0.1),
                        "twice": bool(rng.random() < (0.5 if samples is not None else 0.1))})
        return out

    def exhaustive(self, tier):
        # every file of <= 4 lines over a 6-line alphabet
        alpha = [["s_1"], ["s_2"], ["t_1"], ["A", "1", "5", "0.5"], ["#c"], ["s_3"]]
        out = []
        for k in range(0, 5):
            for ls in itertools.product(alpha, repeat=k):
                out.append({"lines": [list(x) for x in ls], "samples": None, "gz": False})
        return out

    def run_impl(self, inp):
        from haptools.data import Breakpoints

        d = tempfile.mkdtemp(prefix="hv_c05_")
        try:
            p = os.path.join(d, "in.bp" + (".gz" if inp.get("gz") else ""))
            write_lines(inp["lines"], p)
            S = request_object(inp["samples"], "set")   # the caller's set: one object for every call

            def one_read():
                bp = Breakpoints(p, log=quiet_log())
                try:
                    bp.read(samples=S)
                    return {"ok": data_chars(bp)}
                except Exception as e:  # noqa
                    return {"err": err_kind(e), "msg": str(e)[:120]}

            obs = one_read()
            if inp.get("twice"):
                obs["again"] = one_read()
            obs["samples_after"] = object_after(S)
            return obs
        finally:
            shutil.rmtree(d, ignore_errors=True)

    def encode(self, inp, obs):
        if "ok" not in obs and "err" not in obs:
            obs = {"err": obs.get("kind", 99)}
        canon = None if inp["samples"] is None else sorted(set(inp["samples"]))
        samples = L.opt(canon, lambda s: L.lst(s, chars))
        after = L.opt(obs.get("samples_after", canon), lambda s: L.lst(s, chars))
        again = L.opt(obs.get("again"), lambda o: L.res(o, ctable_term))
        return (f"(mkrA (mkr {L.b(STRICT_FIELD_WIDTH)} {lines_term(inp['lines'])} {samples} {ptab_term(inp['lines'])} "
                f"{L.res(obs, ctable_term)}) {after} {again})")

    def nontrivial(self, inp, obs):
        hdr = [ln[0] for ln in inp["lines"] if len(ln) == 1]
        return len(hdr) >= 4 or any(h.count("_") >= 2 for h in hdr)

    def classes(self, inp, obs):
        out = []
        ls = inp["lines"]
        if any(len(ln) == 0 for ln in ls):
            out.append("blank-line")
        if any(ln and ln[0].startswith("#") for ln in ls):
            out.append("comment")
        if any(len(ln) not in (0, 1, 4) for ln in ls):
            out.append("wrong-field-count")
        if any(len(ln) == 1 and ln[0].rsplit("_", 1)[-1] not in ("1", "2") and not ln[0].startswith("#") for ln in ls):
            out.append("bad-header")
        if any(len(ln) == 1 and ln[0].count("_") >= 2 for ln in ls):
            out.append("underscore-name")
        out.append("samples:" + ("none" if inp["samples"] is None else "subset"))
        if inp.get("gz"):
            out.append("gz")
        out.append("ok" if isinstance(obs, dict) and "ok" in obs else f"err{obs.get('err', obs.get('kind')) if isinstance(obs, dict) else '?'}")
        return out

    def shrink(self, inp):
        ls = inp["lines"]
        for j in range(len(ls)):
            yield dict(inp, lines=ls[:j] + ls[j + 1:])
        if inp["samples"] is not None:
            yield dict(inp, samples=None)
        if inp.get("gz"):
            yield dict(inp, gz=False)
        if inp.get("twice"):
            yield dict(inp, twice=False)

    def signature(self, inp, obs):
        return "Breakpoints.read " + ("raises" if "err" in obs else "returns")


def gen_ctable(rng, out_of_domain=False):
    n = int(rng.integers(1, 5))
    names = [NAMES[i] for i in rng.choice(len(NAMES), size=n, replace=False)]
    if rng.random() < 0.1:
        names[0] = ""
    tbl = []
    for nm in names:
        st = []
        for t in range(2):
            blocks = []
            for _ in range(int(rng.integers(0, 5))):
                lab = str(rng.choice(LABELS + [""]))
                c = str(rng.choice(CHROMS))[:10]
                bp = int(rng.choice(GRID + BIG + [0]))
                cm = float(rng.choice(CMS + [float("inf"), float("nan"), 5e-324, -0.0, 1 / 3, 123456789.123456789]))
                blocks.append([lab, c, bp, fbits(cm)])
            st.append(blocks)
        tbl.append([nm, st[0], st[1]])
    if out_of_domain:
        r = rng.random()
        if r < 0.5:
            tbl[0][0] = "#" + tbl[0][0]
        elif tbl[0][1]:
            tbl[0][1][0][0] = "#ab"
    return tbl


class Write(Relation):
    name = "write"
    coq_module = "C05_Check"
    coq_check = "check_write"
    coq_case_type = "wcase"
    coq_model = "model_write"
    coq_imports = ["Tracts", "BpText", "C05_Model"]
    budget = {"quick": 200, "thorough": 2500}
    max_cases_per_shard = 60
    anchors = [("haptools/data/breakpoints.py", "Breakpoints.write"),
               ("haptools/data/breakpoints.py", "Breakpoints.__iter__")]

    def generate(self, rng, n, tier):
        return [{"tbl": gen_ctable(rng, out_of_domain=rng.random() < 0.08), "gz": bool(rng.random() < 0.1)}
                for _ in range(n)]

    def run_impl(self, inp):
        import gzip

        from haptools.data import Breakpoints
        from haptools.data.breakpoints import HapBlock

        d = tempfile.mkdtemp(prefix="hv_c05_")
        try:
            p = os.path.join(d, "out.bp" + (".gz" if inp.get("gz") else ""))
            bp = Breakpoints(p, log=quiet_log())
            bp.data = {
                s[0]: [np.array([(b[0], b[1], b[2], bits_f(b[3])) for b in st], dtype=HapBlock) for st in s[1:]]
                for s in inp["tbl"]
            }
            obs = {}
            try:
                bp.write()
                raw = gzip.open(p, "rb").read() if inp.get("gz") else open(p, "rb").read()
                text = raw.decode()
                ls = text.split("\n")
                obs["lines"] = {"ok": [ln.split("\t") for ln in (ls[:-1] if ls and ls[-1] == "" else ls)]}
            except Exception as e:  # noqa
                obs["lines"] = {"err": err_kind(e), "msg": str(e)[:120]}
                return obs
            try:
                b2 = Breakpoints.load(p)
                obs["reread"] = {"ok": data_chars(b2)}
            except Exception as e:  # noqa
                obs["reread"] = {"err": err_kind(e), "msg": str(e)[:120]}
            return obs
        finally:
            shutil.rmtree(d, ignore_errors=True)

    def encode(self, inp, obs):
        if "lines" not in obs:
            obs = {"lines": {"err": obs.get("kind", 99)}, "reread": {"err": obs.get("kind", 99)}}
        if "reread" not in obs:
            obs["reread"] = {"err": 97}
        ints, flts = [], []
        for s in inp["tbl"]:
            for st in s[1:]:
                for b in st:
                    if b[2] not in ints:
                        ints.append(b[2])
                    if b[3] not in flts:
                        flts.append(b[3])
        fint = L.lst(ints, lambda v: f"({L.z(v)}, {chars(str(np.uint32(v)))})")
        fflt = L.lst(flts, lambda v: f"({L.z(v)}, {chars(str(np.float64(bits_f(v))))})")
        written = obs["lines"].get("ok", [])
        return (f"(mkw {L.b(STRICT_FIELD_WIDTH)} {ctable_term(inp['tbl'])} {fint} {fflt} {ptab_term(written)} "
                f"{L.res(obs['lines'], lines_term)} {L.res(obs['reread'], ctable_term)})")

    def nontrivial(self, inp, obs):
        return len(inp["tbl"]) >= 2 or any("_" in s[0] for s in inp["tbl"])

    def classes(self, inp, obs):
        out = [f"samples={len(inp['tbl'])}"]
        if any("_" in s[0] for s in inp["tbl"]):
            out.append("underscore-name")
        if any(s[0].startswith("#") or any(b[0].startswith("#") for st in s[1:] for b in st) for s in inp["tbl"]):
            out.append("out-of-domain-hash")
        if any(not st for s in inp["tbl"] for st in s[1:]):
            out.append("empty-strand")
        if inp.get("gz"):
            out.append("gz")
        return out

    def shrink(self, inp):
        tbl = inp["tbl"]
        for j in range(len(tbl)):
            yield dict(inp, tbl=tbl[:j] + tbl[j + 1:])
        for j, s in enumerate(tbl):
            for t in (1, 2):
                for i in range(len(s[t])):
                    new = list(s)
                    new[t] = s[t][:i] + s[t][i + 1:]
                    yield dict(inp, tbl=tbl[:j] + [new] + tbl[j + 1:])
        if inp.get("gz"):
            yield dict(inp, gz=False)

    def signature(self, inp, obs):
        if "err" in obs.get("lines", {}):
            return "Breakpoints.write raises"
        if "err" in obs.get("reread", {}):
            return "reading the written file raises"
        return "write/read round trip"


# ---------------------------------------------------------------------------
# a file with full-length strings, read and queried


def gen_ftable(rng, kind):
    """[name, strand1, strand2] with blocks [label, chrom, bp, cM]; kind: 'plain' (labels <= 6, chromosomes <= 10
    characters), 'long-label', 'long-chrom' (one name of more than 10 characters), 'collide' (two chromosome names
    sharing their first 10 characters), 'bp-overflow' (a position uint32 cannot hold)."""
    n = int(rng.integers(1, 4))
    names = [NAMES[i] for i in rng.choice(len(NAMES), size=n, replace=False)]
    if kind == "collide":
        chroms = [LONG_CHROMS[0], LONG_CHROMS[1]] if rng.random() < 0.7 else [LONG_CHROMS[4], LONG_CHROMS[5]]
    elif kind == "long-chrom":
        chroms = [str(rng.choice(LONG_CHROMS[:5]))] + ([str(rng.choice(CHROMS))] if rng.random() < 0.5 else [])
    else:
        k = int(rng.integers(1, 3))
        chroms = [CHROMS[i] for i in sorted(rng.choice(len(CHROMS), size=k, replace=False).tolist())]
        if rng.random() < 0.15:
            chroms[0] = LONG_CHROMS[5]  # exactly 10 characters
    labels = LABELS + (LONG_LABELS if kind == "long-label" else [])
    tbl = []
    for nm in names:
        st = []
        for t in range(2):
            blocks = []
            for c in chroms:
                k = int(rng.integers(1, 4))
                ends = sorted(set(int(e) for e in rng.choice(GRID, size=k)))
                if rng.random() < 0.5:
                    ends.append(int(rng.choice(BIG[:2])))
                for e in ends:
                    blocks.append([str(rng.choice(labels)), c, e, float(rng.choice(CMS[:6]))])
            st.append(blocks)
        tbl.append([nm, st[0], st[1]])
    if kind == "long-label":
        tbl[0][1][0][0] = str(rng.choice(LONG_LABELS))
    if kind == "bp-overflow":
        tbl[0][1][-1][2] = 2**32 + int(rng.integers(0, 2))
    return tbl, chroms


def fl_kind(tbl):
    chroms = {b[1] for s_ in tbl for st in s_[1:] for b in st}
    if any(b[2] > 2**32 - 1 for s_ in tbl for st in s_[1:] for b in st):
        return "bp-overflow"
    if any(len(b[0]) > 6 for s_ in tbl for st in s_[1:] for b in st):
        return "long-label"
    if any(len(c) > 10 for c in chroms):
        return "collide" if len({c[:10] for c in chroms}) < len(chroms) else "long-chrom"
    return "plain"


class FLookup(Relation):
    """Breakpoints.read of a harness-written file whose strings have their full length, then population_array: labels
    and chromosome names are characters on both sides, the reader's field widths are inside the model."""

    name = "flookup"
    coq_module = "C05_CheckHist"
    coq_check = "check_flookupA"
    coq_case_type = "flcaseA"
    coq_model = "model_flookupA"
    coq_imports = ["Tracts", "BpText", "C05_Model", "C05_Check"]
    budget = {"quick": 90, "thorough": 1500}
    max_cases_per_shard = 45
    anchors = [("haptools/data/breakpoints.py", "Breakpoints.__iter__"),
               ("haptools/data/breakpoints.py", "Breakpoints.read"),
               ("haptools/data/breakpoints.py", "Breakpoints.population_array"),
               ("haptools/data/breakpoints.py", "Breakpoints._find_blocks")]

    def generate(self, rng, n, tier):
        out = []
        for _ in range(n):
            r = rng.random()
            kind = ("plain" if r < 0.55 else "long-label" if r < 0.65 else "long-chrom" if r < 0.78
                    else "collide" if r < 0.95 else "bp-overflow")
            tbl, chroms = gen_ftable(rng, kind)
            qs = gen_queries(rng, tbl, chroms)
            if not qs:
                qs = [[chroms[0], 5]]
            out.append({"tbl": tbl, "qs": qs, "req": gen_request(rng, tbl),
                        "qwidth": "U10" if rng.random() < 0.8 else "U32",
                        "req_kind": "list" if rng.random() < 0.35 else "tuple"})
        return out

    def exhaustive(self, tier):
        # two contigs sharing their first 10 characters x every interleaving of three ends x every position
        out = []
        a, b = "ABCDEFGHIJK", "ABCDEFGHIJL"
        for ends in itertools.permutations([2, 4, 6]):
            for cs in itertools.product([a, b], repeat=3):
                if list(cs) != sorted(cs):
                    continue
                s0 = [[lab, c, e, 0.5] for lab, c, e in zip("XYZ", cs, ends)]
                tbl = [["s", s0, [["W", a, 9, 0.0], ["W", b, 9, 0.0]]]]
                for w in ("U10", "U32"):
                    out.append({"tbl": tbl, "qs": [[c, p] for c in (a, b) for p in range(1, 8)], "req": None, "qwidth": w})
        return out

    @staticmethod
    def file_lines(tbl):
        lines = []
        for nm, s0, s1 in tbl:
            for t, st in ((1, s0), (2, s1)):
                lines.append([f"{nm}_{t}"])
                for b in st:
                    lines.append([b[0], b[1], str(int(b[2])), repr(float(b[3]))])
        return lines

    def run_impl(self, inp):
        from haptools.data import Breakpoints

        d = tempfile.mkdtemp(prefix="hv_c05_")
        try:
            path = os.path.join(d, "in.bp")
            write_lines(self.file_lines(inp["tbl"]), path)
            V = variants_array(inp["qs"], "uint32", inp.get("qwidth", "U10"))
            obs = {"seen": array_after(V)}
            req = request_object(inp["req"], inp.get("req_kind", "tuple"))
            try:
                bp = Breakpoints(path, log=quiet_log())
                bp.read()
                arr = bp.population_array(V, samples=req)
                obs["ok"] = arr.tolist()
            except Exception as e:  # noqa
                obs["err"] = err_kind(e)
                obs["msg"] = str(e)[:120]
            obs["qs_after"] = array_after(V)
            obs["req_after"] = object_after(req)
            return obs
        finally:
            shutil.rmtree(d, ignore_errors=True)

    def encode(self, inp, obs):
        tbl = [[nm, [[b[0], b[1], int(b[2]), fbits(b[3])] for b in s0], [[b[0], b[1], int(b[2]), fbits(b[3])] for b in s1]]
               for nm, s0, s1 in inp["tbl"]]
        ints, flts = [], []
        for s_ in tbl:
            for st in s_[1:]:
                for b in st:
                    if b[2] not in ints:
                        ints.append(b[2])
                    if b[3] not in flts:
                        flts.append(b[3])
        fint = L.lst(ints, lambda v: f"({L.z(v)}, {chars(str(int(v)))})")
        fflt = L.lst(flts, lambda v: f"({L.z(v)}, {chars(repr(bits_f(v)))})")
        seen = obs.get("seen") if isinstance(obs, dict) else None
        if seen is None:
            seen = [[q[0][:10], q[1]] for q in inp["qs"]]
        qs = L.lst(seen, lambda q: f"({chars(q[0])}, {L.z(q[1])})")
        req = L.opt(inp["req"], lambda r: L.lst(r, chars))
        if isinstance(obs, dict) and "ok" in obs:
            o = "(Ok " + L.lst(obs["ok"], lambda row: L.lst(row, lambda c: f"({chars(c[0])}, {chars(c[1])})")) + ")"
        else:
            o = f"(Err {L.z(obs.get('err', obs.get('kind', 99)))})"
        qs_after = L.lst(obs.get("qs_after", seen) if isinstance(obs, dict) else seen,
                         lambda q: f"({chars(q[0])}, {L.z(q[1])})")
        req_after = L.opt(obs.get("req_after", inp["req"]) if isinstance(obs, dict) else inp["req"],
                          lambda r: L.lst(r, chars))
        return (f"(mkflA (mkfl {L.b(STRICT_FIELD_WIDTH)} {ctable_term(tbl)} {fint} {fflt} "
                f"{ptab_term(self.file_lines(inp['tbl']))} {qs} {req} {o}) {qs_after} {req_after})")

    def nontrivial(self, inp, obs):
        return touches_boundary(inp["tbl"], inp["qs"])

    def classes(self, inp, obs):
        out = ["file:" + fl_kind(inp["tbl"]), "query-array:" + inp.get("qwidth", "U10")]
        out += [c for c in lookup_classes(inp["tbl"], inp["qs"], inp["req"]) if c.startswith(("q:", "req:"))]
        out.append("answers" if isinstance(obs, dict) and "ok" in obs else f"err{obs.get('err', obs.get('kind')) if isinstance(obs, dict) else '?'}")
        return out

    def shrink(self, inp):
        yield from Lookup.shrink(self, inp)
        if inp.get("qwidth", "U10") != "U10":
            yield dict(inp, qwidth="U10")

    def mutate(self, inp, rng):
        yield from Lookup.mutate(self, inp, rng)

    def signature(self, inp, obs):
        kind = "raises" if "err" in obs else "answers"
        k = fl_kind(inp["tbl"])
        return (f"file lookup {kind} chromosome-name-longer-than-10={k in ('collide', 'long-chrom')} "
                f"names-collide-after-10={k == 'collide'} label-longer-than-6={k == 'long-label'}")


# ---------------------------------------------------------------------------
# histories: ONE samples object, ONE variants array, ONE order object through several calls

HIST_TEMPLATES = {
    "read-twice": [["read", 0], ["read", 0]],
    "write-read": [["read", 0], ["write", 1], ["read", 1]],
    "write-read-gz": [["read", 0], ["write", 2], ["read", 2]],
    "read-look": [["read", 0], ["look"]],
    "read-look-twice": [["read", 0], ["look"], ["read", 0], ["look"]],
    "look-twice": [["read", 0], ["look"], ["look"]],
    "round-and-back": [["read", 0], ["write", 1], ["read", 1], ["look"], ["write", 2], ["read", 2], ["read", 0]],
}


def valid_ops(ops):
    """files are read after they exist; written and queried after something was loaded."""
    files, cur = {0}, False
    for op in ops:
        if op[0] == "read":
            if op[1] not in files:
                return False
            cur = True
        elif not cur:
            return False
        elif op[0] == "write":
            files.add(op[1])
    return len(ops) >= 1


def valid_hist(inp):
    if not valid_ops(inp["ops"]):
        return False
    if inp.get("from_set"):
        # the lookup's samples are derived from the shared set: the request must lie inside it
        if inp["samples"] is None or inp["order"] is None or any(o not in inp["samples"] for o in inp["order"]):
            return False
    return True


def gen_htable(rng, out_of_domain=False):
    n = int(rng.integers(1, 6))
    names = [NAMES[i] for i in rng.choice(len(NAMES), size=n, replace=False)]
    k = int(rng.integers(1, 3))
    chroms = [CHROMS[i] for i in sorted(rng.choice(len(CHROMS), size=k, replace=False).tolist())]
    tbl = []
    closed = bool(rng.random() < 0.8)   # every strand reaches a chromosome-end sentinel: lookups mostly answer
    for nm in names:
        st = []
        for t in range(2):
            blocks = []
            for c in chroms:
                ends = sorted(set(int(e) for e in rng.choice(GRID, size=int(rng.integers(1, 4)))))
                if closed or rng.random() < 0.3:
                    ends.append(BIG[1] if closed else int(rng.choice(BIG[:2])))
                for e in ends:
                    blocks.append([str(rng.choice(LABELS)), c, e, float(rng.choice(CMS[:10]))])
            st.append(blocks)
        tbl.append([nm, st[0], st[1]])
    if out_of_domain:
        r = rng.random()
        if r < 0.35:
            tbl[-1][0] = "#" + tbl[-1][0]              # the header lines of this sample are comments
        elif r < 0.7:
            tbl[0][1][0][0] = str(rng.choice(LONG_LABELS))   # refused by the reader (ValueError)
        else:
            tbl[0][2] = []                              # a strand without blocks
    return tbl, chroms


def gen_hist(rng, template=None):
    tbl, chroms = gen_htable(rng, out_of_domain=rng.random() < 0.08)
    names = [s[0] for s in tbl]
    r = rng.random()
    if r < 0.12:
        samples = None
    else:
        k = int(rng.integers(0 if r < 0.2 else 1, len(names) + 1))
        samples = [names[i] for i in rng.permutation(len(names))[:k]]
        if rng.random() < 0.1:
            samples.append("absent")
    loaded = [nm for nm in names if samples is None or nm in samples]
    r = rng.random()
    if r < 0.2 or not loaded:
        order = None
    else:
        k = int(rng.integers(1, len(loaded) + 1))
        order = [loaded[i] for i in rng.permutation(len(loaded))[:k]]
        if rng.random() < 0.05:
            order.append("absent" if samples is not None and "absent" in samples else "nobody")
        elif rng.random() < 0.04:
            order.append(order[0])
    if template is None:
        keys = list(HIST_TEMPLATES) + ["random"] * 2
        template = str(rng.choice(keys))
    if template == "random":
        ops = [["read", 0]]
        files = {0}
        for _ in range(int(rng.integers(1, 6))):
            r = rng.random()
            if r < 0.45:
                ops.append(["read", int(rng.choice(sorted(files)))])
            elif r < 0.75:
                f = int(rng.integers(0, 3))
                ops.append(["write", f])
                files.add(f)
            else:
                ops.append(["look"])
    else:
        ops = [list(op) for op in HIST_TEMPLATES[template]]
    qs = gen_queries(rng, tbl, chroms) or [[chroms[0], 5]]
    inp = {"tbl": tbl, "samples": samples, "samples_kind": "set" if rng.random() < 0.85 else "frozenset",
           "order": order, "order_kind": "list" if rng.random() < 0.5 else "tuple", "qs": qs, "ops": ops,
           "gz0": bool(rng.random() < 0.15), "from_set": False}
    if samples is not None and order is not None and all(o in samples for o in order) and rng.random() < 0.25:
        inp["from_set"] = True
    return inp


class Hist(Relation):
    """A short history of calls - read file f / write file g / population_array - in ONE process, every call of a kind
    receiving the SAME argument object (the caller's samples set, the variants array, the order list / tuple).  After
    each call the objects are looked at again."""

    name = "hist"
    coq_module = "C05_CheckHist"
    coq_check = "check_hist"
    coq_case_type = "hcase"
    coq_model = "model_hist"
    coq_imports = ["Tracts", "BpText", "C05_Model", "C05_Check"]
    budget = {"quick": 110, "thorough": 1800}
    max_cases_per_shard = 40
    max_chars_per_shard = 70_000
    anchors = [("haptools/data/breakpoints.py", "Breakpoints.__iter__"),
               ("haptools/data/breakpoints.py", "Breakpoints.read"),
               ("haptools/data/breakpoints.py", "Breakpoints.write"),
               ("haptools/data/breakpoints.py", "Breakpoints.population_array")]

    def generate(self, rng, n, tier):
        out = []
        keys = list(HIST_TEMPLATES)
        for j in range(n):
            # the first histories of a run cycle through the templates, the rest are drawn
            out.append(gen_hist(rng, template=keys[j] if j < len(keys) else None))
        return out

    def exhaustive(self, tier):
        # two samples; every subset of them as the shared set; every template; every order of the loaded samples
        s = lambda a, b: [[a, "1", 5, 0.5], [b, "1", 9, 1.5]]
        tbl = [["a", s("A", "B"), s("B", "A")], ["b_1", s("B", "B"), s("A", "B")]]
        qs = [["1", p] for p in (1, 5, 6, 9)]
        out = []
        for samples in (None, [], ["a"], ["b_1"], ["a", "b_1"], ["b_1", "zz"]):
            loaded = [n_ for n_ in ("a", "b_1") if samples is None or n_ in samples]
            orders = [None] + [list(p) for k in range(1, len(loaded) + 1) for p in itertools.permutations(loaded, k)]
            for tname, ops in HIST_TEMPLATES.items():
                for order in orders:
                    for from_set in (False, True):
                        inp = {"tbl": tbl, "samples": samples, "samples_kind": "set", "order": order,
                               "order_kind": "tuple", "qs": qs, "ops": [list(o) for o in ops], "gz0": False,
                               "from_set": from_set}
                        looks = any(o[0] == "look" for o in ops)
                        if valid_hist(inp) and (looks or (order is None and not from_set)):
                            out.append(inp)
        return out

    @staticmethod
    def tokens(b):
        """the tokens of a block line as Breakpoints.write renders them (relation write ties that to the code)"""
        return [b[0], b[1], str(np.uint32(b[2])), str(np.float64(b[3]))]

    @classmethod
    def file0_lines(cls, tbl):
        lines = []
        for nm, s0, s1 in tbl:
            for t, st in ((1, s0), (2, s1)):
                lines.append([f"{nm}_{t}"])
                lines += [cls.tokens(b) for b in st]
        return lines

    def run_impl(self, inp):
        import gzip
        from pathlib import Path

        from haptools.data import Breakpoints

        d = tempfile.mkdtemp(prefix="hv_c05_")
        try:
            paths = {0: os.path.join(d, "all.bp" + (".gz" if inp.get("gz0") else "")),
                     1: os.path.join(d, "sub.bp"), 2: os.path.join(d, "sub.bp.gz")}
            write_lines(self.file0_lines(inp["tbl"]), paths[0])
            # the caller's objects, built once
            S = request_object(inp["samples"], inp.get("samples_kind", "set"))
            order = request_object(inp["order"], inp.get("order_kind", "tuple"))
            V = variants_array(inp["qs"], "uint32", "U10")
            obs = {"seen": array_after(V), "steps": []}
            cur = None
            for op in inp["ops"]:
                if op[0] == "read":
                    bp = Breakpoints(paths[op[1]], log=quiet_log())
                    try:
                        bp.read(samples=S)
                        cur = bp
                        r = {"ok": data_chars(bp)}
                    except Exception as e:  # noqa
                        r = {"err": err_kind(e), "msg": str(e)[:120]}
                    obs["steps"].append({"r": r, "after": object_after(S)})
                elif op[0] == "write":
                    if cur is None:
                        obs["steps"].append({"w": {"err": 97}})
                        continue
                    try:
                        cur.fname = Path(paths[op[1]])
                        cur.write()
                        p = paths[op[1]]
                        raw = gzip.open(p, "rb").read() if p.endswith(".gz") else open(p, "rb").read()
                        ls = raw.decode().split("\n")
                        w = {"ok": [ln.split("\t") for ln in (ls[:-1] if ls and ls[-1] == "" else ls)]}
                    except Exception as e:  # noqa
                        w = {"err": err_kind(e), "msg": str(e)[:120]}
                    obs["steps"].append({"w": w})
                else:
                    if cur is None:
                        obs["steps"].append({"l": {"err": 97}, "qs_after": array_after(V), "order_after": object_after(order)})
                        continue
                    # from_set: the caller builds the lookup's samples from the set it loaded with
                    smp = tuple(s for s in order if s in S) if inp.get("from_set") else order
                    try:
                        arr = cur.population_array(V, samples=smp)
                        lk = {"ok": arr.tolist()}
                    except Exception as e:  # noqa
                        lk = {"err": err_kind(e), "msg": str(e)[:120]}
                    obs["steps"].append({"l": lk, "qs_after": array_after(V), "order_after": object_after(smp)})
            return obs
        finally:
            shutil.rmtree(d, ignore_errors=True)

    def encode(self, inp, obs):
        tbl = [[nm, [[b[0], b[1], int(b[2]), fbits(b[3])] for b in s0], [[b[0], b[1], int(b[2]), fbits(b[3])] for b in s1]]
               for nm, s0, s1 in inp["tbl"]]
        ints, flts = [], []
        for s_ in tbl:
            for st in s_[1:]:
                for b in st:
                    if b[2] not in ints:
                        ints.append(b[2])
                    if b[3] not in flts:
                        flts.append(b[3])
        fint = L.lst(ints, lambda v: f"({L.z(v)}, {chars(str(np.uint32(v)))})")
        fflt = L.lst(flts, lambda v: f"({L.z(v)}, {chars(str(np.float64(bits_f(v))))})")
        canon = None if inp["samples"] is None else sorted(set(inp["samples"]))
        steps = obs.get("steps") if isinstance(obs, dict) else None
        if steps is None or len(steps) != len(inp["ops"]):
            k = obs.get("kind", 99) if isinstance(obs, dict) else 99
            steps = [{"r": {"err": k}, "after": canon} if op[0] == "read" else {"w": {"err": k}} if op[0] == "write"
                     else {"l": {"err": k}, "qs_after": inp["qs"], "order_after": inp["order"]} for op in inp["ops"]]
        seen = obs.get("seen") if isinstance(obs, dict) and obs.get("seen") is not None else inp["qs"]
        # tables that occur several times in the case (the table itself, what each read returned) are bound once
        tterms = [ctable_term(tbl)] + [ctable_term(st["r"]["ok"]) for st in steps if "r" in st and "ok" in st["r"]]
        names, lets = {}, []
        for t in tterms:
            if t not in names and tterms.count(t) >= 2:
                names[t] = f"t{len(names)}"
                lets.append(f"let {names[t]} : ctable := {t} in ")
        wterms = [lines_term(st["w"]["ok"]) for st in steps if "ok" in st.get("w", {})]
        wnames = {}
        for t in wterms:
            if t not in wnames and wterms.count(t) >= 2:
                wnames[t] = f"w{len(wnames)}"
                lets.append(f"let {wnames[t]} : list (list str) := {t} in ")
        tref = lambda t: names.get(t, t)
        written = []
        oterms = []
        for op, st in zip(inp["ops"], steps):
            if op[0] == "read":
                r = st["r"]
                rt = f"(Ok {tref(ctable_term(r['ok']))})" if "ok" in r else f"(Err {L.z(r['err'])})"
                oterms.append(f"(ORead {rt} {L.opt(st.get('after'), lambda s: L.lst(s, chars))})")
            elif op[0] == "write":
                w = st["w"]
                if "ok" in w:
                    written += w["ok"]
                oterms.append(f"(OWrite {L.res(w, lambda ls: wnames.get(lines_term(ls), lines_term(ls)))})")
            else:
                lk = st["l"]
                if "ok" in lk:
                    o = "(Ok " + L.lst(lk["ok"], lambda row: L.lst(row, lambda c: f"({chars(c[0])}, {chars(c[1])})")) + ")"
                else:
                    o = f"(Err {L.z(lk['err'])})"
                qa = L.lst(st.get("qs_after", seen), lambda q: f"({chars(q[0])}, {L.z(q[1])})")
                oterms.append(f"(OLook {o} {qa} {L.opt(st.get('order_after'), lambda s: L.lst(s, chars))})")
        ops = L.lst(inp["ops"], lambda op: f"(HRead {L.z(op[1])})" if op[0] == "read"
                    else f"(HWrite {L.z(op[1])})" if op[0] == "write" else "HLook")
        ptab = ptab_term(self.file0_lines(inp["tbl"]) + written)
        qs = L.lst(seen, lambda q: f"({chars(q[0])}, {L.z(q[1])})")
        return (f"({''.join(lets)}mkh {L.b(STRICT_FIELD_WIDTH)} {tref(tterms[0])} {fint} {fflt} {ptab} "
                f"{L.opt(canon, lambda s: L.lst(s, chars))} {qs} {L.opt(inp['order'], lambda s: L.lst(s, chars))} "
                f"{ops} {L.lst(oterms)})")

    @staticmethod
    def shared_calls(inp):
        kinds = [op[0] for op in inp["ops"]]
        reads, looks = kinds.count("read"), kinds.count("look")
        return ((inp["samples"] is not None and reads >= 2) or (inp["order"] is not None and looks >= 2)
                or (bool(inp.get("from_set")) and reads >= 1 and looks >= 1))

    def nontrivial(self, inp, obs):
        return self.shared_calls(inp)

    def classes(self, inp, obs):
        ops = [[o[0]] + o[1:] for o in inp["ops"]]
        tname = next((k for k, v in HIST_TEMPLATES.items() if v == ops), "other")
        out = ["history:" + tname, "set:" + ("none" if inp["samples"] is None else inp.get("samples_kind", "set")),
               "order:" + ("none" if inp["order"] is None else inp.get("order_kind", "tuple")), f"calls={min(len(ops), 7)}"]
        if inp.get("from_set"):
            out.append("lookup-samples-from-set")
        if inp.get("gz0"):
            out.append("gz-source")
        if any(o[0] == "write" and o[1] == 2 for o in ops):
            out.append("gz-written")
        if any(o[0] == "write" and o[1] == 0 for o in ops):
            out.append("source-overwritten")
        if inp["samples"] is not None:
            names = [s_[0] for s_ in inp["tbl"]]
            out.append("subset:" + ("empty" if not inp["samples"] else "unknown-name" if any(x not in names for x in inp["samples"])
                                    else "all" if set(inp["samples"]) == set(names) else "proper"))
        steps = obs.get("steps", []) if isinstance(obs, dict) else []
        if any("err" in st.get("r", {}) for st in steps):
            out.append("read-raises")
        if any("err" in st.get("l", {}) for st in steps):
            out.append("lookup-raises")
        return out

    def shrink(self, inp):
        def ok(c):
            return valid_hist(c)

        ops = inp["ops"]
        for j in range(len(ops)):
            c = dict(inp, ops=ops[:j] + ops[j + 1:])
            if c["ops"] and ok(c):
                yield c
        tbl = inp["tbl"]
        for j in range(len(tbl)):
            nm = tbl[j][0]
            c = dict(inp, tbl=tbl[:j] + tbl[j + 1:],
                     samples=None if inp["samples"] is None else [x for x in inp["samples"] if x != nm],
                     order=None if inp["order"] is None else [x for x in inp["order"] if x != nm])
            if c["tbl"] and ok(c):
                yield c
        for j in range(len(inp["qs"])):
            if len(inp["qs"]) > 1:
                yield dict(inp, qs=inp["qs"][:j] + inp["qs"][j + 1:])
        for j, (nm, s0, s1) in enumerate(tbl):
            for t, st in ((1, s0), (2, s1)):
                for i in range(len(st)):
                    new = list(tbl[j])
                    new[t] = st[:i] + st[i + 1:]
                    yield dict(inp, tbl=tbl[:j] + [new] + tbl[j + 1:])
        if inp["samples"] is not None:
            for j in range(len(inp["samples"])):
                c = dict(inp, samples=inp["samples"][:j] + inp["samples"][j + 1:])
                if ok(c):
                    yield c
        if inp["order"] is not None:
            for j in range(len(inp["order"])):
                if len(inp["order"]) > 1:
                    yield dict(inp, order=inp["order"][:j] + inp["order"][j + 1:])
            if not inp.get("from_set"):
                yield dict(inp, order=None)
        if inp.get("from_set"):
            yield dict(inp, from_set=False)
        if inp.get("gz0"):
            yield dict(inp, gz0=False)
        if inp.get("samples_kind", "set") != "set":
            yield dict(inp, samples_kind="set")

    def mutate(self, inp, rng):
        names = [s_[0] for s_ in inp["tbl"]]
        for tname, ops in HIST_TEMPLATES.items():
            for k in range(1, len(names) + 1):
                c = dict(inp, ops=[list(o) for o in ops], samples=names[:k], samples_kind="set", order=None, from_set=False)
                if valid_hist(c):
                    yield c
                c = dict(c, samples=names[-k:], order=list(reversed(names[-k:])), from_set=True)
                if valid_hist(c):
                    yield c

    def signature(self, inp, obs):
        steps = obs.get("steps", []) if isinstance(obs, dict) else []
        n_ok = [len(st["r"]["ok"]) for st in steps if "ok" in st.get("r", {})]
        what = ("a read raises" if any("err" in st.get("r", {}) for st in steps)
                else "reads of one request return different numbers of samples" if len(set(n_ok)) > 1
                else "a lookup raises" if any("err" in st.get("l", {}) for st in steps)
                else "lookups of one request return different numbers of rows"
                if len({len(st["l"]["ok"]) for st in steps if "ok" in st.get("l", {})}) > 1 else "every call answers")
        return (f"history of calls sharing their argument objects: {what} shared-set={inp['samples'] is not None} "
                f"written-and-read-back={any(o[0] == 'write' for o in inp['ops'])}")


RELATIONS = [Find(), Lookup(), Codec(), Read(), Write(), FLookup(), Hist()]

LEVEL_TEXT = (
    "Coq theorems over all block tables, query lists, sample requests, label orders and token files (no size bound) about "
    "a Gallina model of Breakpoints._find_blocks/population_array/encode/recode/__iter__/write, including numpy's "
    "bisection (proved equal to the first-end->=-position scan on ascending ends), the np.uint8 code width (encode raises "
    "OverflowError beyond 256 labels, proved the only failure), the 'U6'/'U10' field widths of the reader and the "
    "composition write -> read -> population_array on the strings of the table; the model is tied to the code on every "
    "run by evaluating, inside Coq, model-vs-implementation agreement and the property's finite checker (written with "
    "label_at, not with the model) on generated cases incl. every block end, end+1, 1, beyond-last query and the width "
    "boundaries 255|256|257 blocks / labels and 2^31, 2^32 positions, and on histories of calls that share one samples "
    "set / variants array / order list (every read returns the requested samples of the table its file holds, the "
    "written subset reads back identical, no argument object is changed)."
)
LEVEL_NOTE = (
    "Trusted: Coq kernel/vm_compute; the hand-written model (validated differentially, np.searchsorted's bisection "
    "included); numpy's str<->uint32/float64 codecs and csv tab splitting (Section variables with round-trip hypotheses in "
    "bp_roundtrip; recorded tables in the correspondence). Out of the codec's domain and only compared for agreement: "
    "repeated labels given to encode (C05_encode_repeated_given_collides), strands without blocks (recode raises ValueError "
    "there), tables whose block ends are not ascending. Since fix 0bcb215 the reader refuses labels > 6 / chromosome names "
    "> 10 characters (switch STRICT_FIELD_WIDTH, on; off = the truncating reader before it, compared with the truncating "
    "model only). Arguments handed to read / population_array / encode are compared with what they were before the call "
    "(agree); that two calls with one argument object answer alike is judged on histories (relation hist)."
)
TECHNIQUE = "Coq proof by induction on block/variant/line lists + vm_compute-evaluated correspondence against the implementation"
