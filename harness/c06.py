"""C06 - .hap files round-trip and are parsed according to their header.

Relations
  header    : Haplotypes.check_header called on header lines (character level), with and
              without inserted comment lines; soft and raising mode; with/without version check
  read      : Haplotypes.read on generated files (plain or gzip), with and without inserted
              comment lines; dynamically built Haplotype/Variant/Repeat subclasses request extras
  roundtrip : write -> read (same classes or classes asking for fewer extras) -> write

Lines that start with '#' travel to Coq as code-point lists; every other line as
(line[0], line[1], line[2:].split('\\t')) with each field a token = interned identity +
what Python's int()/float() make of it (the codecs are inputs of the model).
"""
import gzip
import itertools
import logging
import os
import re
import shutil
import tempfile

import numpy as np

from . import coqlit as L
from .core import Relation, err_kind

PROP = "C06"
CLAIMED = True
COQ_MODULES = ["C06_Check", "C06_Proofs", "C06_Proofs2", "C06_Proofs3", "C06_Proofs4", "C06_Proofs5", "C06_Proofs6",
               "C06_Proofs7", "C06_Proofs8", "C06_Proofs9", "C06_Proofs10", "C06_Proofs11", "C06_Proofs12", "C06_Proofs13"]
PROPERTY_MODULE = "C06_Property"
ALLOWED_AXIOMS = []
RULE = (
    "header: 0-8 header lines (version / order / declaration lines in random order, well-formed and malformed) with "
    "0-3 inserted comment lines of the shapes '#', '# ', '#x', '#text', '# text', '#\\ttext', '#H', '#\\t' ...; "
    "non-trivial = at least one declaration or metadata line. read: files with 0-3 haplotypes, 0-2 repeats, 0-3 "
    "variants per haplotype, 0-3 str/int/float extras per line type, declared columns a permutation / superset / "
    "subset of what the reader's classes request, declaration lines carrying any Python format (requested columns: "
    "the class's own format or another of its type incl. e E g G n F, no letter, width / sign / alignment specs; "
    "skipped columns: also x X b o c % and grouping), one case in twelve built so that every line type declares "
    "skipped columns of such formats before and after the requested ones with (0.4) or without an order line; "
    "sorted and shuffled line orders, plain and gzip, comment lines "
    "inserted anywhere; non-trivial = at least one record line and (an inserted comment or a bound extra); a quarter "
    "of the read cases re-use one Haplotypes object (read file A, then point it at file B with another header "
    "layout, or write over A and read again) and demand the result a fresh object gives for the file on disk; one "
    "case per run has a header of 255|256|257 declared columns of which three are requested. "
    "roundtrip: generated collections written, read back (same classes or classes asking for fewer extras) and "
    "written again, after which the same reader object reads its own file and writes it a third time (second "
    "sub-case); extras of every format letter the package's classes use (s, d, f) with and without width / sign / "
    "precision specs and (30 %) of the other formats the annotated type's constructor reads back (str: no letter, "
    "alignment, width, precision; int: no letter, n, sign, blank / zero fill, '_', '.0f'; float: e E g G n F, no "
    "letter, precision .0 to .17, sign, '#', width, '_'); integers incl. 2^31-1|2^31, 2^32-1|2^32, 2^63-1|2^63, 2^64, 10^18; floats at the rounding "
    "boundaries of .0f-.3f, with exponents, signed zero, nan, inf; ids with non-ASCII characters; one case per run "
    "with 255|256|257 extras on one line type and one with a line of 1000..65537+ characters; non-trivial = at "
    "least one record. Distinct = distinct canonical JSON."
)
TRUSTED = [
    "tokenisation of non-'#' lines (line[0], line[1], line[2:].split('\\t')) and interning of field texts are done by the "
    "harness (the character-level statement is C06_text_layer_roundtrip, a theorem about the model's split/join)",
    "Python int()/float()/format() results for each field text are computed by the harness and are inputs of the model "
    "(codec hypotheses codec_data / codec_data2 in the theorems)",
    "log records are classified by the first words of their message",
]
ASSUMPTIONS = [
    "round trip (wf_cfg, wf_data, clean_cfg, clean_text): keys of Haplotypes.data equal the records' ids, ids distinct, "
    "repeats carry no variants, the classes' _extras name exactly their extra dataclass fields; the version string and "
    "the names of extra fields contain no tab, field texts no tab / newline / carriage return (C06_unclean_name_refuted, "
    "C06_unclean_text_refuted: without this the written file does not say what the collection holds; the unchanged "
    "writer writes such a file silently and the reader then raises - outside 'IDs and contigs over the permitted alphabet')",
    "codecs: every written text converts back (reader's str/int/float) to the value it was formatted from; "
    "format(parse(format(x))) = format(x) for the second write (hypothesis Forall2 same_toks_entry)",
    "binding: the header assigns each requested extra exactly one column (order line or declaration order without "
    "duplicates, not naming a mandatory field); record ids distinct",
    "formats: the reader converts by the class's ANNOTATED type (str / int / float), never by the declared format; a "
    "requested extra is generated with any format whose output that type's constructor reads back (decimal notation). "
    "Not generated for REQUESTED extras (declared only for skipped columns, where they must not matter): formats whose "
    "output int() / float() do not read back - b o x X c, '%', ',' grouping, fill characters other than blank / 0, "
    "'=' alignment with blanks, zero-padded non-finite floats (format(nan, '08.3f') = '00000nan') - the unchanged "
    "writer writes them and the unchanged reader raises ValueError (loud) or, for digit-only b / o / x output such as "
    "format(5, 'b') = '101', returns the decimal reading; and the largest doubles under a rounding e / g precision "
    "(format(1.7976931348623157e308, '.3e') = '1.798e+308', which float() reads as inf): replaced by 0.5",
]

LETTERS = "HVR"
TYPES = {"s": str, "d": int, "f": float}
COQ_TY = {"s": "TStr", "d": "TInt", "f": "TFlt"}
MAND = {"H": [("chrom", "s"), ("start", "d"), ("end", "d"), ("id", "s")],
        "R": [("chrom", "s"), ("start", "d"), ("end", "d"), ("id", "s")],
        "V": [("start", "d"), ("end", "d"), ("id", "s"), ("allele", "s")]}
NAME_POOL = ["beta", "anc", "score", "x1", "q", "b2", "pip", "w"]
E_VERSION, E_MISSING = 101, 102


# ----------------------------------------------------------------------------
# running the implementation


def make_classes(cfg):
    from dataclasses import field, make_dataclass

    from haptools.data.haplotypes import Extra, Haplotype, Repeat, Variant

    out = {}
    for t, base in (("H", Haplotype), ("V", Variant), ("R", Repeat)):
        c = cfg[t]
        if not c["fields"] and not c["extras"]:
            out[t] = base
            continue
        fl = [(n, TYPES[ty]) for n, ty in c["fields"]]
        fl.append(("_extras", tuple, field(repr=False, init=False,
                                           default=tuple(Extra(n, f, d) for n, f, d in c["extras"]))))
        out[t] = make_dataclass("Hv" + t, fl, bases=(base,))
    return out


class _Logs(logging.Handler):
    def __init__(self):
        super().__init__()
        self.recs = []

    def emit(self, r):
        if r.levelno >= logging.WARNING:
            self.recs.append(r.getMessage())


def _logger():
    lg = logging.getLogger("hv_c06")
    lg.setLevel(logging.WARNING)
    lg.propagate = False
    for h in list(lg.handlers):
        lg.removeHandler(h)
    h = _Logs()
    lg.addHandler(h)
    return lg, h


def classify_logs(msgs, cfg):
    out = []
    for m in msgs:
        if m == "The data has already been loaded. Overriding.":
            continue  # Data.read on an object that is used again; not part of what is compared
        a = re.match(r"^The version of the provided \.hap file is v(.*) but this tool only works with", m, re.S)
        b = re.match(r"^The version of the provided \.hap file \(v(.*)\) is outdated\. Consider upgrading", m, re.S)
        c = re.match(r"^Ignoring unsupported line type '(.)'$", m, re.S)
        if a:
            out.append(["unsup", a.group(1)])
        elif b:
            out.append(["outdated", b.group(1)])
        elif m == "There have been fixes to the .hap spec":
            out.append(["patch"])
        elif m.startswith("Expected the input .hap file to have these extra fields"):
            pairs = re.findall(r"'#([HVR]) ([^']*)'", m)
            names = {t: [x[0] for x in cfg[t]["extras"]] for t in LETTERS}
            key = lambda p: (LETTERS.index(p[0]), names[p[0]].index(p[1]) if p[1] in names[p[0]] else 999, p[1])
            out.append(["missing", [list(p) for p in sorted(set(pairs), key=key)]])
        elif c:
            out.append(["badline", c.group(1)])
        else:
            out.append(["other", m[:80]])
    return out


def refine_err(e):
    k = err_kind(e)
    msg = str(e)
    if isinstance(e, ValueError):
        if msg.startswith("The version of the provided .hap file is v"):
            return E_VERSION
        if msg.startswith("Expected the input .hap file to have these extra fields"):
            return E_MISSING
    return k


def tv(x):
    """typed JSON value of an attribute"""
    if isinstance(x, bool):
        return ["o", repr(x)]
    if isinstance(x, str):
        return ["s", x]
    if isinstance(x, int):
        return ["d", int(x)]
    if isinstance(x, float):
        return ["f", x.hex()]
    return ["o", repr(x)]


def from_tv(v):
    return float.fromhex(v[1]) if v[0] == "f" else v[1]


def observe_data(hp, classes):
    """Haplotypes.data as [[key, kind, vals, vars]] in dict order (attribute values in class order)."""
    from haptools.data.haplotypes import Haplotype

    out = []
    for key, o in hp.data.items():
        kind = "H" if isinstance(o, Haplotype) else "R"
        names = list(type(o).types.keys())
        vals = [tv(getattr(o, n)) for n in names]
        vs = []
        for v in getattr(o, "variants", ()) or ():
            vs.append([tv(getattr(v, n)) for n in type(v).types.keys()])
        out.append([key, kind, vals, vs])
    return out


def write_text(path, text, gz):
    if gz:
        with gzip.open(path, "wt", encoding="utf-8", newline="") as f:
            f.write(text)
    else:
        with open(path, "w", encoding="utf-8", newline="") as f:
            f.write(text)


def read_text(path):
    if str(path).endswith(".gz"):
        with gzip.open(path, "rb") as f:
            return f.read().decode("utf-8")
    with open(path, "rb") as f:
        return f.read().decode("utf-8")


def parse_line(s):
    if s == "":
        return "blank"
    if s[0] == "#":
        return {"h": s}
    return {"k": s[0], "sep": s[1] if len(s) > 1 else None, "t": s[2:].split("\t")}


def file_lines(text):
    """lines of a written file (the final newline terminates the last line)"""
    ls = text.split("\n")
    if ls and ls[-1] == "":
        ls = ls[:-1]
    return [parse_line(x) for x in ls]


def do_read(cfg, lines, sel, gz, d, tag):
    from haptools.data.haplotypes import Haplotypes

    classes = make_classes(cfg)
    path = os.path.join(d, f"{tag}.hap" + (".gz" if gz else ""))
    write_text(path, "".join(x + "\n" for x in lines), gz)
    lg, h = _logger()
    try:
        hp = Haplotypes(path, haplotype=classes["H"], variant=classes["V"], repeat=classes["R"], log=lg)
        hp.read(haplotypes=None if sel is None else set(sel))
        return {"ok": {"data": observe_data(hp, classes), "logs": classify_logs(h.recs, cfg)}}
    except Exception as e:  # noqa
        return {"err": refine_err(e), "cls": type(e).__name__, "msg": str(e)[:120]}


def do_reuse(cfg, prior, lines, sel, gz, d):
    """One Haplotypes object reads file A (prior) and is then used again.

    op 'point'  : obj.fname = file B (lines); obj.read()
    op 'rewrite': obj.write() over file A; obj.read()  (the file read is what is then on disk)
    Returns (second read by the same object, read of the same file by a fresh object, text lines of
    that file) or None when the first read / the write fails (nothing to compare then)."""
    from pathlib import Path

    from haptools.data.haplotypes import Haplotypes

    classes = make_classes(cfg)
    ext = ".hap" + (".gz" if gz else "")
    pa = os.path.join(d, "first" + ext)
    write_text(pa, "".join(x + "\n" for x in prior["lines"]), gz)
    lg, h = _logger()
    hp = Haplotypes(pa, haplotype=classes["H"], variant=classes["V"], repeat=classes["R"], log=lg)
    try:
        hp.read()
        if prior["op"] == "rewrite":
            hp.write()
            target = pa
            text = read_text(pa)
            flines = text.split("\n")
            flines = flines[:-1] if flines and flines[-1] == "" else flines
        else:
            target = os.path.join(d, "second" + ext)
            write_text(target, "".join(x + "\n" for x in lines), gz)
            hp.fname = Path(target)
            flines = list(lines)
    except Exception:  # noqa
        return None
    h.recs.clear()
    try:
        hp.read(haplotypes=None if sel is None else set(sel))
        again = {"ok": {"data": observe_data(hp, classes), "logs": classify_logs(h.recs, cfg)}}
    except Exception as e:  # noqa
        again = {"err": refine_err(e), "cls": type(e).__name__, "msg": str(e)[:120]}
    lg2, h2 = _logger()
    try:
        fr = Haplotypes(target, haplotype=classes["H"], variant=classes["V"], repeat=classes["R"], log=lg2)
        fr.read(haplotypes=None if sel is None else set(sel))
        fresh = {"ok": {"data": observe_data(fr, classes), "logs": classify_logs(h2.recs, cfg)}}
    except Exception as e:  # noqa
        fresh = {"err": refine_err(e), "cls": type(e).__name__, "msg": str(e)[:120]}
    return again, fresh, flines


# ----------------------------------------------------------------------------
# Gallina literals


class Enc:
    def __init__(self):
        self.intern = L.Interner()

    def sid(self, s):
        return self.intern(("s", s))

    def fid(self, x):
        return self.intern(("f", float(x).hex()))

    def tok(self, s):
        i = self.sid(s)
        try:
            zi = int(s)
        except ValueError:
            zi = None
        try:
            fl = self.fid(float(s))
        except (ValueError, OverflowError):
            fl = None
        if zi is None and fl is None:
            return f"(tn {i})"
        if zi is None:
            return f"(tf {i} {fl})"
        if fl is None:
            return f"(mktok {i} (Some {L.z(zi)}) None)"
        return f"(ti {i} {L.z(zi)} {fl})"

    def val(self, v):
        if v[0] == "s":
            return f"(VStr {self.sid(v[1])})"
        if v[0] == "d":
            return f"(VInt {L.z(v[1])})"
        if v[0] == "f":
            return f"(VFlt {self.fid(float.fromhex(v[1]))})"
        return "(VInt (-424242))"  # an attribute of an unexpected Python type: never equals the model

    def line(self, ln):
        if ln == "blank":
            return "LBlank"
        if "h" in ln:
            return f"(Hs {L.chars(ln['h'])})"
        sep = -1 if ln["sep"] is None else ord(ln["sep"])
        return f"(Rc {ord(ln['k'])} {L.z(sep)} {L.lst(ln['t'], self.tok)})"

    def cls(self, c):
        fl = L.lst(c["fields"], lambda nt: f"({L.chars(nt[0])}, {COQ_TY[nt[1]]})")
        ex = L.lst(c["extras"], lambda x: f"(mkx {L.chars(x[0])} {L.chars(x[1])} {L.chars(x[2])})")
        return f"(mkcls {fl} {ex})"

    def cfg(self, cfg):
        return f"(mkcfg {self.cls(cfg['H'])} {self.cls(cfg['V'])} {self.cls(cfg['R'])} {L.chars(cfg['version'])})"

    def event(self, e):
        if e[0] == "unsup":
            return f"(EvUnsupported {L.chars(e[1])})"
        if e[0] == "outdated":
            return f"(EvOutdated {L.chars(e[1])})"
        if e[0] == "patch":
            return "EvPatch"
        if e[0] == "missing":
            return "(EvMissing " + L.lst(e[1], lambda p: f"({ord(p[0])}, {L.chars(p[1])})") + ")"
        if e[0] == "badline":
            return f"(EvBadLine {ord(e[1])})"
        return "(EvBadLine (-1))"

    def entry(self, e):
        key, kind, vals, vs = e
        return (f"({self.sid(key)}, mkobj {ord(kind)} {L.lst(vals, self.val)} "
                f"{L.lst(vs, lambda v: L.lst(v, self.val))})")

    def rout(self, o):
        if "ok" not in o:
            return f"(Err {L.z(o.get('err', o.get('kind', 99)))})"
        return f"(Ok ({L.lst(o['ok']['data'], self.entry)}, {L.lst(o['ok']['logs'], self.event)}))"

    def sel(self, sel):
        return "None" if sel is None else f"(Some {L.lst(sel, lambda s: str(self.sid(s)))})"


def fmt_spec(cfg, t, name):
    for n, ty in MAND[t]:
        if n == name:
            return ty
    for n, f, d in cfg[t]["extras"]:
        if n == name:
            return f
    return None


def attr_names(cfg, t):
    return [n for n, _ in MAND[t]] + [n for n, _ in cfg[t]["fields"]]


def format_vals(cfg, t, vals):
    """[(typed value, formatted text)] for attribute values in class order; None if a format fails."""
    out = []
    for n, v in zip(attr_names(cfg, t), vals):
        spec = fmt_spec(cfg, t, n)
        try:
            txt = format(from_tv(v), spec) if spec is not None else ""
        except Exception:  # noqa
            return None
        out.append([v, txt])
    return out


# ----------------------------------------------------------------------------
# generators


# The reader converts a column with the ANNOTATED type of the class's dataclass field (get_type_hints: str / int /
# float); the declared format is used by the writer alone ("{name:fmt}".format) and is never consulted on reading
# (Extra._type is never set: the hook that would derive it from the format's last letter is not called).  So every
# Python format spec that format() accepts for the annotated type may be declared; the value comes back up to the
# format whenever the type's constructor reads format()'s output (decimal notation):
#   str   : [[fill]align][width][.precision][s]                      (always)
#   int   : [sign][0][width][_] + d / n / no letter; '.0f'           (fill: blank or 0)
#   float : [sign][#][width][_][.precision] + e E f F g G n / no letter
# Not read back by int() / float() - the unchanged writer writes them, the unchanged reader then raises ValueError or,
# for digit-only outputs of b / o / x, returns the decimal reading: b o x X c, '%', ',' grouping, fill characters other
# than blank / 0, '='-alignment with blanks, zero-padded nan / inf.  Such formats are declared only for columns the
# reader does NOT ask for (FMT_UNREAD): there the format must not matter at all.
FMT_OTHER = {
    "s": ["", ">6", ".3", "^5", "10", "<3"],
    "d": ["", "n", "5", "05", "+", " ", "_", ">10", "^9d", "+08d", ".0f"],
    "f": ["e", "E", ".3e", ".2E", "+.2e", "12.3e", "<12.3e", " .3e", "g", "G", ".4g", "#.3g", "+g", "n", "", ".3", ".6",
          ">10", "F", ".2F", "_f", ".0e", ".10e", ".17g"],
}
FMT_UNREAD = sorted(set(FMT_OTHER["s"] + FMT_OTHER["d"] + FMT_OTHER["f"]
                        + ["x", "X", "b", "o", "c", "%", ".1%", ",d", ",.2f", "#x", "*>8d", "012.3e", "=+8d"]))


def plain_fmt(f):
    """a format of the letter families the package's own classes use"""
    return f[-1:] in ("s", "d", "f")


def codec_idem(v, spec):
    """format(parse(format(v))) == format(v) for the value's own type (Python's codec law)"""
    try:
        t = format(v, spec)
        return format(type(v)(t), spec) == t
    except Exception:  # noqa
        return False


def safe_value(v, spec):
    """the typed value, or a plain one where Python's own float() does not read format()'s output back to the same
    text (the largest doubles under a rounding e / g precision: format(1.7976931348623157e308, '.3e') = '1.798e+308'
    = inf for float())"""
    if spec is None or codec_idem(from_tv(v), spec):
        return v
    return {"s": ["s", "a"], "d": ["d", 7], "f": ["f", (0.5).hex()]}[v[0]]


def gen_cfg(rng, version, maxx=3, rich=True, other=0.3):
    cfg = {"version": version}
    for t in LETTERS:
        k = int(rng.choice([0, 0, 1, 2, maxx])) if rich else int(rng.choice([0, 1]))
        names = [str(x) for x in rng.choice(NAME_POOL, size=k, replace=False)]
        extras, fields = [], []
        for n in names:
            ty = str(rng.choice(["s", "d", "f"]))
            if rng.random() < other:
                f = str(rng.choice(FMT_OTHER[ty]))
            elif ty == "s":
                f = "s" if rng.random() < 0.85 else str(rng.choice(["4s", ">6s", "<3s", "^5s", ".2s"]))
            elif ty == "d":
                f = "d" if rng.random() < 0.8 else str(rng.choice(["03d", "5d", "+d", "_d", " d", "<4d"]))
            else:
                f = str(rng.choice([".2f", ".3f", "f", ".0f", "+.1f", "8.2f", ".2f", ".3f", ".1f", ".6f", "#.0f"]))
            desc = str(rng.choice(["", "Effect size", "a b", "Local ancestry", "x"]))
            extras.append([n, f, desc])
            fields.append([n, ty])
        perm = rng.permutation(len(fields)).tolist()
        cfg[t] = {"fields": [fields[i] for i in perm], "extras": extras}
    return cfg


ID_CHARS = list("abchr12.*_-") + [" ", "#", "H", "V", ":", "+", "\u00e9", "\u03a9"]


def gen_text(rng, short=False):
    r = rng.random()
    if r < 0.5:
        return str(rng.choice(["h1", "h2", "h3", "r1", "chr21.q.3365*1", "21_26938353_STR", "A", "G", "1", "21", "chrX"]))
    n = int(rng.integers(0 if r > 0.97 else 1, 4 if short else 7))
    return "".join(rng.choice(ID_CHARS, size=n).tolist())


# positions and integer extras are Python ints (unbounded): values straddling the fixed widths a port to
# numpy / C would introduce
INT_EDGES = [2**31 - 1, 2**31, 2**32 - 1, 2**32, 2**63 - 1, 2**63, 2**64, 10**18, -(2**31) - 1, -(2**63)]


def gen_int(rng):
    if rng.random() < 0.12:
        return int(INT_EDGES[int(rng.integers(0, len(INT_EDGES)))])
    return int(rng.choice([0, 1, 7, 10, 26928472, -5, 2**31 - 1, 10**12, int(rng.integers(0, 1000))]))


# rounding boundaries of the declared formats (.0f .1f .2f .3f), ties, values whose repr needs an exponent,
# signed zeros, non-finite values, the extremes of the binary64 range
FLOAT_EDGES = [0.0, -0.0, 0.5, 1.5, 2.5, -0.5, 0.05, 0.25, 0.125, 0.375, 1 / 3, 1e-5, 1e-7, 0.005, 0.015, 0.045, 1.005,
               2.675, 0.0005, 0.9995, 9.995, 99.95, 0.95, 1e15, 1e16, 1e22, 123456789.125, -7.25, 3.0, 5e-324,
               2.2250738585072014e-308, 1.7976931348623157e308, float("inf"), float("-inf"), float("nan")]


def gen_float(rng):
    r = rng.random()
    if r < 0.6:
        return float(round(rng.normal(), int(rng.integers(0, 5))))
    return float(FLOAT_EDGES[int(rng.integers(0, len(FLOAT_EDGES)))])


def gen_value(rng, ty):
    if ty == "s":
        return ["s", gen_text(rng)]
    if ty == "d":
        return ["d", gen_int(rng)]
    return ["f", gen_float(rng).hex()]


VERSIONS_OK = ["0.0.1", "0.1.0", "0.2.0", "0.2.1", "0.3.0", "1.0.0", "0.02.0", "0.2.00", " 0.2.0", "0.1.9", "00.2.0",
               "+0.2.0", "0.-1.0", "0.2.1_0", "2.2.0", "0.10.0"]
VERSIONS_BAD = ["", "0.2", "0.2.0.1", "a.b.c", "0.2.x", "v0.2.0", "0..0", "0.2.0 x", "1", "0.2._1", "0.2.1_", "- 0.2.0"]
COMMENTS_PURE = ["#", "# ", "#x", "#H", "#V", "#\t", "# a comment", "#text", "#\ttext", "#\tnote\tmore", "#xy", "##",
                 "#  ", "#HV", "#Hx\tbeta\t.2f\t", "#X\tfoo\tbar\tbaz", "#\tversionX\t9.9.9", "#\torderX\ta", "# \torderH\tq",
                 "#\torder\tbeta", "#\tVersion\t9.0.0", "#h\tbeta\ts\td", "#\t\tversion\t9.0.0"]
COMMENTS_IMPURE = ["#H\tfoo", "#H\t", "#V\ta\tb", "#\tversion\t0.2.0", "#\tversion\t1.0.0", "#\torderH\tzz",
                   "#H\tzz\ts\tdesc", "#\tversion", "#\torderV", "#R\tw\td\t", "#H\tzz\t.3e\tdesc", "#H\tzq\t\tdesc",
                   "#V\tzz\t.1%\t", "#R\tzz\tx\tflags"]


def decl_fmt(rng, cfg, t, n, ty, unread_other):
    """the format a declaration line carries: for a requested field the class's own format or any other format of
    its type (the file need not have been written by these classes); for a column nobody asked for, any format"""
    own = [x[1] for x in cfg[t]["extras"] if x[0] == n]
    if own:
        if rng.random() < 0.6:
            return own[0]
        return str(rng.choice(FMT_OTHER[ty] + [{"s": "s", "d": "d", "f": ".2f"}[ty]]))
    if rng.random() < unread_other:
        return str(rng.choice(FMT_UNREAD))
    return {"s": "s", "d": "d", "f": ".2f"}[ty]


def gen_header(rng, cfg, mal=0.15, drop=0.15, order_p=0.8, spare_counts=(0, 0, 1, 2), unread_other=0.5):
    """Returns (header lines, {t: column names in the file's column order}, {t: {name: type}})."""
    lines = []
    cols, ctypes = {}, {}
    r = rng.random()
    if r < 0.75:
        v = str(rng.choice(VERSIONS_OK)) if rng.random() < 0.85 else str(rng.choice(VERSIONS_BAD))
        if rng.random() < 0.4:
            v = cfg["version"]
        lines.append("#\tversion\t" + v)
        if rng.random() < 0.05:
            lines.append("#\tversion\t" + str(rng.choice(VERSIONS_OK)))
    for t in LETTERS:
        req = {n: ty for n, ty in cfg[t]["fields"]}
        names = list(req)
        # drop some requested names (undeclared but required), add unrequested ones
        if names and rng.random() < drop:
            names = names[: int(rng.integers(0, len(names)))]
        spare = [n for n in NAME_POOL if n not in req]
        for _ in range(int(rng.choice(list(spare_counts)))):
            n = str(rng.choice(spare))
            if n not in names:
                names.append(n)
        names = [names[i] for i in rng.permutation(len(names)).tolist()]
        types = {n: req.get(n, str(rng.choice(["s", "d", "f"]))) for n in names}
        decl = [names[i] for i in rng.permutation(len(names)).tolist()]
        order = list(names)
        has_order = rng.random() < order_p
        if rng.random() < mal and names:
            k = rng.random()
            if k < 0.3:
                order = order[:-1]
            elif k < 0.6:
                order = order + [order[0]]
            elif k < 0.8:
                order = order + [str(rng.choice(["start", "id", "allele", "chrom"]))]
            else:
                decl = decl + [decl[0]]
        for n in decl:
            desc = str(rng.choice(["", "desc", "Effect size"]))
            ln = f"#{t}\t{n}\t" + decl_fmt(rng, cfg, t, n, types[n], unread_other) + "\t" + desc
            if rng.random() < 0.04:
                ln = f"#{t}\t{n}\td"  # too few fields: ignored as a declaration
            lines.append(ln)
        if has_order and (names or rng.random() < 0.1):
            lines.append(f"#\torder{t}" + "".join("\t" + n for n in order))
            if rng.random() < 0.05:
                lines.append(f"#\torder{t}" + "".join("\t" + n for n in order))
            cols[t] = order
        else:
            cols[t] = decl
        ctypes[t] = types
    lines = [lines[i] for i in rng.permutation(len(lines)).tolist()] if rng.random() < 0.7 else lines
    # the column order actually in force is recomputed by the checker; this copy only guides record generation
    return lines, cols, ctypes


def gen_token(rng, ty, bad=0.02):
    if rng.random() < bad:
        return str(rng.choice(["", "x", "1.5", "nan", "1e3", " 7", "0x10", "1_0"]))
    if ty == "s":
        return gen_text(rng)
    if ty == "d":
        return str(gen_int(rng))
    x = gen_float(rng)
    return str(rng.choice([repr(x), format(x, ".2f"), format(x, ".3f"), str(int(x)) if x == x and abs(x) < 1e6 else repr(x),
                           format(x, ".3e"), format(x, "g"), format(x, ".2E")]))


def gen_records(rng, cfg, cols, ctypes, mal=0.1, bad=0.02):
    def rec(t, mand_tokens):
        toks = list(mand_tokens)
        for n in cols[t]:
            toks.append(gen_token(rng, ctypes[t].get(n, "s"), bad))
        if rng.random() < mal * 0.3 and toks:
            toks = toks[:-1]
        if rng.random() < mal * 0.2:
            toks.append("extra")
        return toks

    hr, vs = [], []
    ids = []
    nh, nr = int(rng.choice([0, 1, 1, 2, 3])), int(rng.choice([0, 0, 1, 2]))
    for i in range(nh + nr):
        t = "H" if i < nh else "R"
        ident = gen_text(rng)
        while ident in ids and rng.random() > mal * 0.3:
            ident = gen_text(rng) + str(i)
        ids.append(ident)
        a = gen_int(rng)
        toks = rec(t, [str(rng.choice(["1", "21", "chrX", gen_text(rng, True)])), str(a), str(a + int(rng.integers(0, 100))), ident])
        hr.append(t + "\t" + "\t".join(toks))
        if t == "H" or rng.random() < mal * 0.2:
            for j in range(int(rng.choice([0, 1, 2, 3]))):
                p = gen_int(rng)
                vt = rec("V", [str(p), str(p + 1), str(rng.choice(["rs1", "21_1_A_G", gen_text(rng, True)])), str(rng.choice(["A", "C", "G", "T", "AT"]))])
                vs.append("V\t" + ident + "\t" + "\t".join(vt))
    if rng.random() < mal * 0.3:
        vs.append("V\tnohap\t1\t2\tv\tA")
    if rng.random() < mal * 0.3:
        hr.append(str(rng.choice(["X\tfoo", "x", "h\t1", " H\t1\t2\t3\t4"])))
    if rng.random() < mal * 0.2:
        hr.append("")
    if rng.random() < mal * 0.3 and hr:
        hr.append("H" + str(rng.choice([" ", "x", "\t\t"])) + hr[0][2:])
    r = rng.random()
    if r < 0.4:
        out = hr + vs
    elif r < 0.6:
        out = vs + hr
    else:
        out = hr + vs
        out = [out[i] for i in rng.permutation(len(out)).tolist()]
    return out, ids


def insert_comments(rng, lines, k=None, pool_impure=0.12):
    """-> [[text, inserted?]]"""
    out = [[x, False] for x in lines]
    k = int(rng.choice([0, 1, 1, 2, 3])) if k is None else k
    for _ in range(k):
        c = str(rng.choice(COMMENTS_IMPURE)) if rng.random() < pool_impure else str(rng.choice(COMMENTS_PURE))
        out.insert(int(rng.integers(0, len(out) + 1)), [c, True])
    return out


WIDE_COUNTS = [127, 128, 253, 254, 255, 256, 257]


def wide_cfg(ver, w, t="H"):
    """a class with w extra fields x0..x{w-1} on line type t (types cycle d, s, f)"""
    tys = ["d", "s", "f"]
    fmts = {"d": "d", "s": "s", "f": ".2f"}
    names = [f"x{i}" for i in range(w)]
    cfg = {"version": ver}
    for u in LETTERS:
        cfg[u] = {"fields": [], "extras": []}
    cfg[t] = {"fields": [[n, tys[i % 3]] for i, n in enumerate(names)],
              "extras": [[n, fmts[tys[i % 3]], ""] for i, n in enumerate(names)]}
    return cfg


def gen_wide_roundtrip(rng, ver, tier="quick"):
    """width boundary: a collection whose H or V class has 127..257 extra fields (a line of up to 262 columns);
    positions at 2^31-1 | 2^32.  One record, first sub-case only (the literal is ~40 k characters)."""
    w = int(rng.choice(WIDE_COUNTS if tier != "quick" else [255, 256, 257]))
    t = str(rng.choice(["H", "V"]))
    cfg = wide_cfg(ver, w, t)
    vals = [["s", "1"], ["d", 2**31 - 1], ["d", 2**32], ["s", "wa"]]
    vals += [gen_value(rng, ty) for _, ty in cfg["H"]["fields"]]
    vs = []
    if t == "V":
        vs = [[["d", 2**31 - 2], ["d", 2**31 - 1], ["s", "v"], ["s", "A"]] + [gen_value(rng, ty) for _, ty in cfg["V"]["fields"]]]
    return {"cfg": cfg, "rcfg": cfg, "same": True, "data": [["wa", "H", vals, vs]], "gz": False, "single": True}


def gen_long_roundtrip(rng, ver):
    """width boundary: one very long line (a str extra of 65535..65537 or 1000|1001 characters, a contig of 300, an id
    of 255..257 characters); field texts are interned, so the literal stays small"""
    n = int(rng.choice([255, 256, 257]))
    m = int(rng.choice([1000, 1001, 4095, 4096, 4097, 65535, 65536, 65537]))
    cfg = {"version": ver, "H": {"fields": [["anc", "s"]], "extras": [["anc", "s", "Local ancestry"]]},
           "V": {"fields": [], "extras": []}, "R": {"fields": [], "extras": []}}
    ident = "L" + "a" * (n - 1)
    ents = [[ident, "H", [["s", "chr" + "1" * 300], ["d", 10**18], ["d", 10**18 + 1], ["s", ident], ["s", "q" * m]],
             [[["d", 1], ["d", 2], ["s", "v" * m], ["s", "A"]]]],
            ["h2", "H", [["s", "1"], ["d", 0], ["d", 1], ["s", "h2"], ["s", ""]], []]]
    return {"cfg": cfg, "rcfg": cfg, "same": True, "data": ents, "gz": bool(rng.random() < 0.5)}


def gen_wide_read(rng, ver, tier="quick", w=None):
    """width boundary: a header declaring 127..257 columns of which the reader asks for the first, one in the
    middle and the last (the others are skipped); declared in another order than the order line"""
    w = w or int(rng.choice(WIDE_COUNTS if tier != "quick" else [255, 256, 257]))
    names = [f"x{i}" for i in range(w)]
    want = sorted(set([0, w // 2, w - 1]))
    tys = {0: "d", w // 2: "s", w - 1: "f"}
    fields = [[names[i], tys[i]] for i in want]
    fields = [fields[i] for i in rng.permutation(len(fields)).tolist()]
    cfg = {"version": ver, "H": {"fields": fields, "extras": [[n, {"d": "d", "s": "s", "f": ".2f"}[ty], ""] for n, ty in fields]},
           "V": {"fields": [], "extras": []}, "R": {"fields": [], "extras": []}}
    decl = [names[i] for i in rng.permutation(w).tolist()]
    hdr = ["#\tversion\t" + ver, "#\torderH" + "".join("\t" + n for n in names)]
    hdr += [f"#H\t{n}\t" + {"d": "d", "s": "s", "f": ".2f"}[tys.get(int(n[1:]), "d")] + "\t" for n in decl]
    recs = []
    for j, ident in enumerate(["h1", "h2"]):
        toks = ["1", str(2**31 - 1 + j), str(2**32 + j), ident]
        for i in range(w):
            toks.append(gen_token(rng, tys.get(i, "d"), bad=0.0) if i in tys else str(i))
        recs.append("H\t" + "\t".join(toks))
    recs.append("V\th2\t1\t2\tv\tA")
    return {"cfg": cfg, "lines": insert_comments(rng, hdr + recs, k=1), "sel": None, "gz": False}



def gen_other_format_read(rng, ver):
    """declared formats outside s / d / f: every line type's header declares one or two columns the reader did not ask
    for, with any Python format ('.3e', 'g', 'x', '.1%', '', '>10' ...), before and after the requested ones, with
    an order line (0.4) or in declaration order; the reader's own classes mostly use plain formats"""
    cfg = gen_cfg(rng, ver, other=0.15)
    if not any(cfg[t]["fields"] for t in "HV"):
        cfg = gen_cfg(rng, ver, other=0.15)
    hdr, cols, ctypes = gen_header(rng, cfg, mal=0.0, drop=0.0, order_p=0.4, spare_counts=(1, 1, 2), unread_other=0.9)
    recs, ids = gen_records(rng, cfg, cols, ctypes, mal=0.0, bad=0.0)
    return {"cfg": cfg, "lines": insert_comments(rng, hdr + recs, pool_impure=0.0), "sel": None,
            "gz": bool(rng.random() < 0.15)}


def header_format_classes(cfg, lines):
    """coverage labels: which declaration shapes a header (list of texts) has"""
    out = set()
    decl = {t: [] for t in LETTERS}
    has_order = set()
    for x in lines:
        if len(x) > 2 and x[0] == "#" and x[2] == "\t" and x[1] in LETTERS:
            f = x[3:].split("\t")
            if len(f) >= 3:
                decl[x[1]].append((f[0], f[1]))
        elif x.startswith("#\torder") and len(x) > 7 and x[7] in LETTERS:
            has_order.add(x[7])
        elif not x.startswith("#"):
            break
    for t in LETTERS:
        req = {n for n, _ in cfg[t]["fields"]}
        seen_other_unread = False
        for n, f in decl[t]:
            if not plain_fmt(f):
                out.add("declared-format-outside-s-d-f" + ("-requested" if n in req else "-not-requested"))
            if n in req and seen_other_unread:
                out.add("unrequested-column-of-other-format-before-a-requested-one"
                        + ("-order-line" if t in has_order else "-declaration-order"))
            if n not in req and not plain_fmt(f):
                seen_other_unread = True
    return sorted(out)


def current_version():
    from haptools.data.haplotypes import Haplotypes

    return str(Haplotypes.version)


def short_hash_lines(lines):
    return [x for x in lines if x.startswith("#") and len(x) < 3]


class _Base(Relation):
    coq_module = "C06_Check"
    coq_imports = ["C06_Model"]
    max_cases_per_shard = 60
    max_chars_per_shard = 70_000
    timeout_per_case = 60
    anchors = [
        ("haptools/data/haplotypes.py", "Haplotypes.check_header"),
        ("haptools/data/haplotypes.py", "Haplotypes.check_version"),
        ("haptools/data/haplotypes.py", "Haplotypes._get_field_types"),
        ("haptools/data/haplotypes.py", "Haplotypes.__iter__"),
        ("haptools/data/haplotypes.py", "Haplotypes.read"),
        ("haptools/data/haplotypes.py", "Haplotypes.to_str"),
        ("haptools/data/haplotypes.py", "Haplotypes.write"),
        ("haptools/data/haplotypes.py", "Haplotype.from_hap_spec"),
        ("haptools/data/haplotypes.py", "Variant.from_hap_spec"),
        ("haptools/data/haplotypes.py", "Repeat.from_hap_spec"),
        ("haptools/data/haplotypes.py", "Extra.from_hap_spec"),
        ("haptools/data/haplotypes.py", "Haplotype.to_hap_spec"),
        ("haptools/data/haplotypes.py", "Variant.to_hap_spec"),
        ("haptools/data/haplotypes.py", "Repeat.to_hap_spec"),
    ]


# ---------------------------------------------------------------------------


class Header(_Base):
    name = "header"
    coq_check = "check_header_rel"
    coq_case_type = "hcase"
    coq_model = "model_header"
    budget = {"quick": 380, "thorough": 4000}

    def generate(self, rng, n, tier):
        ver = current_version()
        out = []
        for i in range(n):
            cfg = gen_cfg(rng, ver, rich=rng.random() < 0.6)
            lines, _, _ = gen_header(rng, cfg, mal=0.2)
            if rng.random() < 0.1:
                lines = []
            out.append({"cfg": cfg, "cv": bool(rng.random() < 0.85), "softly": bool(rng.random() < 0.6),
                        "lines": insert_comments(rng, lines)})
        return out

    def exhaustive(self, tier):
        ver = current_version()
        cfg = {"version": ver, "H": {"fields": [["beta", "f"]], "extras": [["beta", ".2f", "d"]]},
               "V": {"fields": [], "extras": []}, "R": {"fields": [], "extras": []}}
        base = ["#\torderH\tbeta", "#\tversion\t0.3.0", "#H\tbeta\t.2f\td"]
        out = []
        for c in COMMENTS_PURE + COMMENTS_IMPURE:
            for pos in range(len(base) + 1):
                for softly in (True, False):
                    ls = [[x, False] for x in base]
                    ls.insert(pos, [c, True])
                    out.append({"cfg": cfg, "cv": True, "softly": softly, "lines": ls})
        for f in FMT_UNREAD:
            for softly in (True, False):
                for name in ("beta", "pval"):
                    ls = [[x, False] for x in base[:2]] + [[f"#H\t{name}\t{f}\td", False]]
                    out.append({"cfg": cfg, "cv": True, "softly": softly, "lines": ls})
        return out

    def run_impl(self, inp):
        from haptools.data.haplotypes import Haplotypes

        cfg = inp["cfg"]
        classes = make_classes(cfg)

        def one(lines):
            lg, h = _logger()
            hp = Haplotypes("unused.hap", haplotype=classes["H"], variant=classes["V"], repeat=classes["R"], log=lg)
            try:
                metas, extras = hp.check_header(list(lines), check_version=inp["cv"], softly=inp["softly"])
                order = [[k, list(v)] for k, v in metas.get("order", {}).items()]
                return {"ok": {"version": metas.get("version"), "order": order,
                               "extras": [[t, list(extras[t])] for t in extras],
                               "logs": classify_logs(h.recs, cfg), "keys": sorted(metas.keys())}}
            except Exception as e:  # noqa
                return {"err": refine_err(e), "cls": type(e).__name__}

        return {"all": one([x for x, _ in inp["lines"]]), "base": one([x for x, ins in inp["lines"] if not ins])}

    def _hout(self, E, o):
        if "ok" not in o:
            return f"(Err {L.z(o.get('err', o.get('kind', 99)))})"
        k = o["ok"]
        zl = lambda p: f"({ord(p[0]) if len(p[0]) == 1 else -1}, {L.lst(p[1], L.chars)})"
        return (f"(Ok (mkhout {L.opt(k['version'], L.chars)} {L.lst(k['order'], zl)} "
                f"{L.lst(k['extras'], zl)} {L.lst(k['logs'], E.event)}))")

    def encode(self, inp, obs):
        E = Enc()
        if "all" not in obs:
            obs = {"all": obs, "base": obs}
        ls = L.lst(inp["lines"], lambda x: f"({L.chars(x[0])}, {L.b(x[1])})")
        return (f"(mkh {E.cfg(inp['cfg'])} {L.b(inp['cv'])} {L.b(inp['softly'])} {ls} "
                f"{self._hout(E, obs['all'])} {self._hout(E, obs['base'])})")

    def nontrivial(self, inp, obs):
        return any(len(x) > 2 and (x[1] == "\t" or x[2] == "\t") for x, ins in inp["lines"] if not ins)

    def classes(self, inp, obs):
        out = ["softly" if inp["softly"] else "raising", f"lines={min(len(inp['lines']), 9)}",
               f"inserted={sum(1 for _, i in inp['lines'] if i)}"]
        if short_hash_lines([x for x, _ in inp["lines"]]):
            out.append("has-short-hash-line")
        out += header_format_classes(inp["cfg"], [x for x, _ in inp["lines"]])
        o = obs.get("all", {}) if isinstance(obs, dict) else {}
        if "err" in o:
            out.append(f"err{o['err']}")
        elif "ok" in o:
            out += sorted(set("log-" + e[0] for e in o["ok"]["logs"]))
        return out

    def shrink(self, inp):
        ls = inp["lines"]
        for j in range(len(ls)):
            yield dict(inp, lines=ls[:j] + ls[j + 1:])
        empty = {"fields": [], "extras": []}
        for t in LETTERS:
            if inp["cfg"][t]["fields"]:
                yield dict(inp, cfg=dict(inp["cfg"], **{t: empty}))

    def mutate(self, inp, rng):
        for c in COMMENTS_PURE[:8]:
            ls = list(inp["lines"])
            ls.insert(int(rng.integers(0, len(ls) + 1)), [c, True])
            yield dict(inp, lines=ls)

    def signature(self, inp, obs):
        o = obs.get("all", obs) if isinstance(obs, dict) else {}
        sh = short_hash_lines([x for x, _ in inp["lines"]])
        if o.get("err") == 2 and sh:
            return "check_header raises IndexError on a '#' line shorter than 3 characters"
        if "err" in o:
            return f"check_header raises {o.get('cls', o.get('err'))}"
        return "check_header result differs from what the header lines declare"


# ---------------------------------------------------------------------------


def records_of(lines):
    return [x for x in lines if x and not x.startswith("#")]


class Read(_Base):
    name = "read"
    coq_check = "check_read_rel"
    coq_case_type = "rcase"
    coq_model = "model_read"
    budget = {"quick": 420, "thorough": 5000}

    def generate(self, rng, n, tier):
        ver = current_version()
        out = []
        for i in range(n):
            cfg = gen_cfg(rng, ver)
            clean = rng.random() < 0.7
            hdr, cols, ctypes = gen_header(rng, cfg, mal=0.0 if clean else 0.2)
            recs, ids = gen_records(rng, cfg, cols, ctypes, mal=0.0 if clean else 0.3)
            if rng.random() < 0.06:
                recs = []
            lines = insert_comments(rng, hdr + recs)
            sel = None
            if rng.random() < 0.12:
                pool = ids + ["zz"]
                sel = sorted(set(str(x) for x in rng.choice(pool, size=int(rng.integers(0, 3)))))
            out.append({"cfg": cfg, "lines": lines, "sel": sel, "gz": bool(rng.random() < 0.25)})
        # reuse stream: one object reads file A, then (point) file B with another header layout, or
        # (rewrite) the file it wrote over A; parsing must follow the header of the file being read
        k = max(4, n // 4) if out else 0
        for j in range(k):
            cfg = gen_cfg(rng, ver)
            if not any(cfg[t]["fields"] for t in LETTERS) and rng.random() < 0.8:
                cfg = gen_cfg(rng, ver)
            ha, ca, ta = gen_header(rng, cfg, mal=0.0, drop=0.0)
            ra, ida = gen_records(rng, cfg, ca, ta, mal=0.0, bad=0.0)
            op = "point" if rng.random() < 0.65 else "rewrite"
            if op == "point":
                hb, cb, tb = gen_header(rng, cfg, mal=0.0 if rng.random() < 0.85 else 0.2)
                rb, idb = gen_records(rng, cfg, cb, tb, mal=0.0)
                lines = [[x, False] for x in hb + rb]
            else:
                lines = [[x, False] for x in ha + ra]
            out[(j * 3 + 1) % len(out)] = {"cfg": cfg, "lines": lines, "sel": None, "gz": bool(rng.random() < 0.2),
                                           "prior": {"lines": ha + ra, "op": op}}
        # declared formats outside s / d / f, for requested and for skipped columns
        for j in range(max(6, n // 12) if out else 0):
            out[(j * 3 + 2) % len(out)] = gen_other_format_read(rng, ver)
        # width-boundary stream: a header of 127..257 declared columns
        for j in range(min(1 if tier == "quick" else 6, len(out) // 4)):
            out[(3 * j) % len(out)] = gen_wide_read(rng, ver, tier)
        return out

    def exhaustive(self, tier):
        """every comment shape at every position of a small file (<= 6 lines)"""
        ver = current_version()
        cfg = {"version": ver, "H": {"fields": [["beta", "f"]], "extras": [["beta", ".2f", "d"]]},
               "V": {"fields": [], "extras": []}, "R": {"fields": [], "extras": []}}
        base = ["#\torderH\tbeta", "#\tversion\t0.1.0", "#H\tbeta\t.2f\td", "H\t1\t10\t20\th1\t0.25", "V\th1\t10\t11\tv1\tA"]
        out = []
        for c in COMMENTS_PURE:
            for pos in range(len(base) + 1):
                ls = [[x, False] for x in base]
                ls.insert(pos, [c, True])
                out.append({"cfg": cfg, "lines": ls, "sel": None, "gz": False})
        for c1, c2 in itertools.product(COMMENTS_PURE[:6], repeat=2):
            for p1, p2 in itertools.combinations(range(len(base) + 2), 2):
                ls = [[x, False] for x in base]
                ls.insert(p1, [c1, True])
                ls.insert(p2, [c2, True])
                out.append({"cfg": cfg, "lines": ls[:7], "sel": None, "gz": False})
        # every format of FMT_UNREAD on a column the reader skips, declared before / after the requested one, with
        # and without an order line
        for f in FMT_UNREAD:
            for before in (True, False):
                for order in (True, False):
                    d1, d2 = f"#H\tpval\t{f}\tp", "#H\tbeta\t.2f\td"
                    hdr = ["#\tversion\t" + ver] + ([d1, d2] if before else [d2, d1])
                    cols = ["pval", "beta"] if before else ["beta", "pval"]
                    if order:
                        cols = cols[::-1]
                        hdr.append("#\torderH\t" + "\t".join(cols))
                    toks = {"pval": "1.250e-08", "beta": "0.25"}
                    rec = "H\t1\t10\t20\th1\t" + "\t".join(toks[c] for c in cols)
                    out.append({"cfg": cfg, "lines": [[x, False] for x in hdr + [rec]], "sel": None, "gz": False})
        return out

    def run_impl(self, inp):
        d = tempfile.mkdtemp(prefix="hv_c06_")
        try:
            full = [x for x, _ in inp["lines"]]
            base = [x for x, ins in inp["lines"] if not ins]
            if inp.get("prior"):
                r = do_reuse(inp["cfg"], inp["prior"], full, inp["sel"], inp["gz"], d)
                if r is not None:
                    return {"all": r[0], "base": r[1], "file": r[2], "reused": True}
            a = do_read(inp["cfg"], full, inp["sel"], inp["gz"], d, "full")
            b = a if len(base) == len(full) else do_read(inp["cfg"], base, inp["sel"], inp["gz"], d, "base")
            return {"all": a, "base": b}
        finally:
            shutil.rmtree(d, ignore_errors=True)

    def encode(self, inp, obs):
        E = Enc()
        if "all" not in obs:
            obs = {"all": obs, "base": obs}
        src = [[x, False] for x in obs["file"]] if obs.get("reused") else inp["lines"]
        ls = L.lst(src, lambda x: f"({E.line(parse_line(x[0]))}, {L.b(x[1])})")
        return (f"(mkr {E.cfg(inp['cfg'])} {E.sel(inp['sel'])} {ls} {E.rout(obs['all'])} {E.rout(obs['base'])})")

    def nontrivial(self, inp, obs):
        full = [x for x, _ in inp["lines"]]
        if inp.get("prior"):
            return bool(isinstance(obs, dict) and obs.get("reused") and records_of(obs.get("file", [])))
        return bool(records_of(full)) and (any(i for _, i in inp["lines"]) or any(inp["cfg"][t]["fields"] for t in LETTERS))

    def classes(self, inp, obs):
        full = [x for x, _ in inp["lines"]]
        out = ["gzip" if inp["gz"] else "plain", f"records={min(len(records_of(full)), 12)}",
               f"inserted={sum(1 for _, i in inp['lines'] if i)}"]
        if inp["sel"] is not None:
            out.append("subset-of-ids")
        if any(x.startswith("#\torder") and x.count("\t") > 100 for x in full):
            out.append("header-of-127..257-columns")
        out += header_format_classes(inp["cfg"], full)
        if inp.get("prior"):
            out.append("reused-object-" + inp["prior"]["op"] if isinstance(obs, dict) and obs.get("reused")
                       else "reused-object-first-read-failed")
        first = next((j for j, x in enumerate(full) if x and not x.startswith("#")), None)
        if first is not None and any(i and j > first for j, (x, i) in enumerate(inp["lines"])):
            out.append("comment-after-first-record")
        if first is None:
            out.append("no-record-line")
        if short_hash_lines(full):
            out.append("has-short-hash-line")
        recs = records_of(full)
        seen_h = False
        for x in recs:
            if x[0] in "HR":
                seen_h = True
            if x[0] == "V" and not seen_h:
                out.append("V-before-H")
                break
        o = obs.get("all", {}) if isinstance(obs, dict) else {}
        if "err" in o:
            out.append(f"err{o['err']}")
        elif "ok" in o:
            out += sorted(set("log-" + e[0] for e in o["ok"]["logs"]))
            if any(len(e[2]) > 4 for e in o["ok"]["data"]):
                out.append("extras-bound")
        return out

    def shrink(self, inp):
        ls = inp["lines"]
        for j in range(len(ls)):
            yield dict(inp, lines=ls[:j] + ls[j + 1:])
        if inp["gz"]:
            yield dict(inp, gz=False)
        if inp["sel"] is not None:
            yield dict(inp, sel=None)
        if inp.get("prior"):
            pl = inp["prior"]["lines"]
            for j in range(len(pl)):
                q = dict(inp["prior"], lines=pl[:j] + pl[j + 1:])
                if inp["prior"]["op"] == "rewrite":
                    yield dict(inp, prior=q, lines=[[x, False] for x in q["lines"]])
                else:
                    yield dict(inp, prior=q)
        empty = {"fields": [], "extras": []}
        for t in LETTERS:
            if inp["cfg"][t]["fields"]:
                yield dict(inp, cfg=dict(inp["cfg"], **{t: empty}))

    def mutate(self, inp, rng):
        for c in COMMENTS_PURE[:8]:
            ls = list(inp["lines"])
            ls.insert(int(rng.integers(0, len(ls) + 1)), [c, True])
            yield dict(inp, lines=ls)

    def signature(self, inp, obs):
        if inp.get("prior") and isinstance(obs, dict) and obs.get("reused"):
            a, b = obs.get("all", {}), obs.get("base", {})
            if a != b:
                how = f"raises {a.get('cls', a.get('err'))}" if "err" in a else "returns other records"
                return (f"re-used Haplotypes object ({inp['prior']['op']}): the second read {how} where a fresh object "
                        "reads the file according to its own header")
            return "re-used Haplotypes object: read differs from the columns the file's header binds"
        full = [x for x, _ in inp["lines"]]
        o = obs.get("all", obs) if isinstance(obs, dict) else {}
        b = obs.get("base", {}) if isinstance(obs, dict) else {}
        if o.get("err") == 2 and short_hash_lines(full) and "ok" in b:
            return "read raises IndexError on a '#' line shorter than 3 characters"
        if "ok" in o and not records_of(full):
            return "header of a file without record lines is not checked (version / undeclared extras unreported)"
        if "err" in o and "ok" in b:
            return f"inserted comment line makes read raise {o.get('cls', o.get('err'))}"
        if "ok" in o and "ok" in b and o != b:
            return "inserted comment line changes what read returns"
        if "ok" in o:
            return "read result differs from the columns the header binds / warnings demanded"
        return f"read raises {o.get('cls', o.get('err'))}"


# ---------------------------------------------------------------------------


def gen_collection(rng, cfg, mal=0.0):
    ents = []
    ids = []
    n = int(rng.choice([0, 1, 1, 2, 3, 4]))
    for i in range(n):
        t = "H" if rng.random() < 0.7 else "R"
        ident = gen_text(rng)
        while ident in ids:
            ident = gen_text(rng) + str(i)
        ids.append(ident)
        a = gen_int(rng)
        vals = [["s", str(rng.choice(["1", "21", "chrX", gen_text(rng, True)]))], ["d", a], ["d", a + int(rng.integers(0, 50))], ["s", ident]]
        vals += [safe_value(gen_value(rng, ty), fmt_spec(cfg, t, n)) for n, ty in cfg[t]["fields"]]
        vs = []
        if t == "H":
            for j in range(int(rng.choice([0, 1, 2, 3, 5]))):
                p = gen_int(rng)
                v = [["d", p], ["d", p + 1], ["s", str(rng.choice(["rs1", "21_1_A_G", gen_text(rng, True)]))], ["s", str(rng.choice(["A", "C", "G", "T"]))]]
                v += [safe_value(gen_value(rng, ty), fmt_spec(cfg, "V", n)) for n, ty in cfg["V"]["fields"]]
                vs.append(v)
        key = ident if rng.random() >= mal else ident + "k"
        ents.append([key, t, vals, vs])
    return ents


def sub_cfg(rng, cfg):
    out = {"version": cfg["version"]}
    for t in LETTERS:
        keep = [x for x in cfg[t]["extras"] if rng.random() < 0.5]
        names = [x[0] for x in keep]
        fl = [f for f in cfg[t]["fields"] if f[0] in names]
        fl = [fl[i] for i in rng.permutation(len(fl)).tolist()]
        out[t] = {"fields": fl, "extras": [keep[i] for i in rng.permutation(len(keep)).tolist()]}
    return out


class Roundtrip(_Base):
    name = "roundtrip"
    coq_check = "check_roundtrip_rel"
    coq_case_type = "wcase"
    coq_model = "model_roundtrip"
    budget = {"quick": 250, "thorough": 3000}

    def generate(self, rng, n, tier):
        ver = current_version()
        out = []
        for i in range(n):
            cfg = gen_cfg(rng, ver)
            same = bool(rng.random() < 0.7)
            rcfg = cfg if same else sub_cfg(rng, cfg)
            out.append({"cfg": cfg, "rcfg": rcfg, "same": same or rcfg == cfg,
                        "data": gen_collection(rng, cfg, mal=0.03), "gz": bool(rng.random() < 0.3)})
        # width-boundary stream: one wide and one long case per run (more in thorough)
        k = 1 if tier == "quick" else 6
        for j in range(min(k, len(out) // 4)):
            out[(4 * j + 1) % len(out)] = gen_wide_roundtrip(rng, ver, tier)
            out[(4 * j + 2) % len(out)] = gen_long_roundtrip(rng, ver)
        return out

    def exhaustive(self, tier):
        ver = current_version()
        out = []
        for kinds in itertools.product("HR", repeat=2):
            for nv in range(3):
                for swap in (False, True):
                    cfg = {"version": ver, "H": {"fields": [["beta", "f"], ["anc", "s"]], "extras": [["anc", "s", ""], ["beta", ".2f", "b"]]},
                           "V": {"fields": [["score", "d"]], "extras": [["score", "d", "s"]]},
                           "R": {"fields": [["beta", "f"]], "extras": [["beta", ".3f", ""]]}}
                    ents = []
                    for j, t in enumerate(kinds):
                        ident = ["b", "a"][j] if swap else ["a", "b"][j]
                        vals = [["s", "1"], ["d", 10 * j], ["d", 10 * j + 5], ["s", ident]]
                        vals += [["f", (0.125 + j).hex()], ["s", "YRI"]] if t == "H" else [["f", (1 / 3).hex()]]
                        vs = [[["d", k], ["d", k + 1], ["s", f"v{k}"], ["s", "A"], ["d", k]] for k in range(nv)] if t == "H" else []
                        ents.append([ident, t, vals, vs])
                    out.append({"cfg": cfg, "rcfg": cfg, "same": True, "data": ents, "gz": False})
        # every format outside the s / d / f families that the annotated type's constructor reads back
        samples = {"s": ["YRI", "", "a b c d"], "d": [0, -5, 2**31, 1234567], "f": [0.25, 1.25e-08, -1234567.5, float("nan")]}
        for ty in "sdf":
            for f in FMT_OTHER[ty]:
                cfg = {"version": ver, "H": {"fields": [["x1", ty], ["beta", "f"]], "extras": [["x1", f, "d"], ["beta", ".2f", ""]]},
                       "V": {"fields": [["w", ty]], "extras": [["w", f, ""]]}, "R": {"fields": [], "extras": []}}
                rcfg = {"version": ver, "H": {"fields": [["beta", "f"]], "extras": [["beta", ".2f", ""]]},
                        "V": {"fields": [["w", ty]], "extras": [["w", f, ""]]}, "R": {"fields": [], "extras": []}}
                ents = []
                for j, x in enumerate(samples[ty]):
                    v = ["f", x.hex()] if ty == "f" else [ty, x]
                    ents.append([f"h{j}", "H", [["s", "1"], ["d", j], ["d", j + 5], ["s", f"h{j}"], v, ["f", (0.5).hex()]],
                                 [[["d", j], ["d", j + 1], ["s", "v"], ["s", "A"], v]]])
                out.append({"cfg": cfg, "rcfg": cfg, "same": True, "data": ents, "gz": False})
                out.append({"cfg": cfg, "rcfg": rcfg, "same": False, "data": ents, "gz": False})
        return out

    def run_impl(self, inp):
        from haptools.data.haplotypes import Haplotypes

        d = tempfile.mkdtemp(prefix="hv_c06_")
        try:
            cfg, rcfg = inp["cfg"], inp["rcfg"]
            wc = make_classes(cfg)
            ext = ".hap.gz" if inp["gz"] else ".hap"
            p1, p2 = os.path.join(d, "one" + ext), os.path.join(d, "two" + ext)
            data = {}
            for key, t, vals, vs in inp["data"]:
                o = wc[t](*[from_tv(v) for v in vals])
                if t == "H" or vs:
                    o.variants = tuple(wc["V"](*[from_tv(x) for x in v]) for v in vs)
                data[key] = o
            lg, h = _logger()
            hp = Haplotypes(p1, haplotype=wc["H"], variant=wc["V"], repeat=wc["R"], log=lg)
            hp.data = data
            res = {}
            try:
                hp.write()
                res["bytes1"] = {"ok": file_lines(read_text(p1))}
            except Exception as e:  # noqa
                res["bytes1"] = {"err": refine_err(e), "cls": type(e).__name__}
                return res
            rc = make_classes(rcfg)
            lg2, h2 = _logger()
            hp2 = Haplotypes(p1, haplotype=rc["H"], variant=rc["V"], repeat=rc["R"], log=lg2)
            try:
                hp2.read()
                res["read"] = {"ok": {"data": observe_data(hp2, rc), "logs": classify_logs(h2.recs, rcfg)}}
            except Exception as e:  # noqa
                res["read"] = {"err": refine_err(e), "cls": type(e).__name__, "msg": str(e)[:120]}
                return res
            try:
                from pathlib import Path

                hp2.fname = Path(p2)
                hp2.write()
                res["bytes2"] = {"ok": file_lines(read_text(p2))}
            except Exception as e:  # noqa
                res["bytes2"] = {"err": refine_err(e), "cls": type(e).__name__}
                return res
            # the same object goes on: it reads the file it has just written (whose header differs from
            # the first file's when the reader asked for fewer extras) and writes it once more
            h2.recs.clear()
            try:
                hp2.read()
                res["read3"] = {"ok": {"data": observe_data(hp2, rc), "logs": classify_logs(h2.recs, rcfg)}}
            except Exception as e:  # noqa
                res["read3"] = {"err": refine_err(e), "cls": type(e).__name__, "msg": str(e)[:120]}
                return res
            try:
                p3 = os.path.join(d, "three" + ext)
                hp2.fname = Path(p3)
                hp2.write()
                res["bytes3"] = {"ok": file_lines(read_text(p3))}
            except Exception as e:  # noqa
                res["bytes3"] = {"err": refine_err(e), "cls": type(e).__name__}
            return res
        finally:
            shutil.rmtree(d, ignore_errors=True)

    def _wentry(self, E, cfg, e):
        key, t, vals, vs = e
        fvs = format_vals(cfg, t, vals)
        fvars = [format_vals(cfg, "V", v) for v in vs]
        if fvs is None or any(x is None for x in fvars):
            return None
        f = lambda p: f"(fv {E.val(p[0])} {E.tok(p[1])})"
        return (f"(mkwe {L.chars(key)} {E.tok(key)} (mkwobj {ord(t)} {L.lst(fvs, f)} "
                f"{L.lst(fvars, lambda v: L.lst(v, f))}))")

    def encode(self, inp, obs):
        E = Enc()
        if "bytes1" not in obs:
            k = obs.get("kind", 99)
            obs = {"bytes1": {"err": k}}
        data = [self._wentry(E, inp["cfg"], e) for e in inp["data"]]
        if any(x is None for x in data):
            data = []  # generator never does this (ill-typed value for its format)
        lines = lambda o: f"(Err {L.z(o['err'])})" if "ok" not in o else f"(Ok {L.lst(o['ok'], E.line)})"
        b1 = obs["bytes1"]
        rd = obs.get("read", {"err": b1.get("err", 97)})
        d2 = []
        if "ok" in rd:
            d2 = [self._wentry(E, inp["rcfg"], e) for e in rd["ok"]["data"]]
            if any(x is None for x in d2):
                d2 = []
        b2 = obs.get("bytes2")
        if b2 is None:
            # nothing was read: the model's second write is of the empty collection; mirror what it cannot know
            b2 = {"err": 97}
        rcl = "c" if inp["rcfg"] == inp["cfg"] else E.cfg(inp["rcfg"])
        first = (f"(let c := {E.cfg(inp['cfg'])} in let rc := {rcl} in mkw c rc {L.b(inp['same'])} {L.lst(data)} "
                 f"{lines(b1)} {E.rout(rd)} {L.lst(d2)} {lines(b2)})")
        if inp.get("single") or "read3" not in obs or "ok" not in b2 or "ok" not in rd or (rd["ok"]["data"] and not d2):
            return first
        # second sub-case: the reader object itself round-trips what it read (read; write; read again; write)
        r3 = obs["read3"]
        d3 = []
        if "ok" in r3:
            d3 = [self._wentry(E, inp["rcfg"], e) for e in r3["ok"]["data"]]
            if any(x is None for x in d3):
                d3 = []
        b3 = obs.get("bytes3", {"err": 97})
        second = (f"(let rc := {E.cfg(inp['rcfg'])} in mkw rc rc true {L.lst(d2)} {lines(b2)} {E.rout(r3)} "
                  f"{L.lst(d3)} {lines(b3)})")
        return [first, second]

    def nontrivial(self, inp, obs):
        return len(inp["data"]) > 0

    def classes(self, inp, obs):
        out = ["gzip" if inp["gz"] else "plain", "same-classes" if inp["same"] else "reader-asks-for-fewer-extras",
               f"records={len(inp['data'])}", f"variants={min(sum(len(e[3]) for e in inp['data']), 9)}"]
        for t in LETTERS:
            if inp["cfg"][t]["fields"]:
                out.append(f"extras-on-{t}")
        ks = [e[0] for e in inp["data"] if e[1] == "H"]
        if ks != sorted(ks):
            out.append("unsorted-haplotype-ids")
        ncols = max(len(inp["cfg"][t]["fields"]) for t in LETTERS)
        if ncols >= 100:
            out.append("columns>255" if ncols + 5 > 255 else "columns-127..255")
        if any(v[0] == "s" and len(v[1]) >= 1000 for e in inp["data"] for v in e[2]):
            out.append("line-longer-than-1000" if max(len(v[1]) for e in inp["data"] for v in e[2] if v[0] == "s") < 4000
                       else "line-longer-than-4096")
        allv = [v for e in inp["data"] for v in e[2]] + [v for e in inp["data"] for vs in e[3] for v in vs]
        ints = [v[1] for v in allv if v[0] == "d"]
        if any(abs(z) >= 2**31 for z in ints):
            out.append("int>=2^31")
        if any(abs(z) >= 2**63 for z in ints):
            out.append("int>=2^63")
        if any(v[0] == "f" and float.fromhex(v[1]) in (2.675, 1.005, 0.125, 2.5, 0.045, 9.995) for v in allv):
            out.append("float-at-rounding-boundary")
        if any(v[0] == "f" and float.fromhex(v[1]) != float.fromhex(v[1]) for v in allv):
            out.append("float-nan")
        if any(v[0] == "s" and any(ord(ch) > 127 for ch in v[1]) for v in allv):
            out.append("non-ascii-text")
        for t in LETTERS:
            if any(e[1] == t for e in inp["data"]) or (t == "V" and any(e[3] for e in inp["data"])):
                for _, f, _ in inp["cfg"][t]["extras"]:
                    out.append("format-" + (f[-1] if f and f[-1].isalpha() else "no-letter") + ("" if len(f) <= 1 else "-with-spec"))
        for k in ("bytes1", "read", "bytes2"):
            if isinstance(obs, dict) and "err" in obs.get(k, {}):
                out.append(f"{k}-err{obs[k]['err']}")
        return out

    def shrink(self, inp):
        ds = inp["data"]
        for j in range(len(ds)):
            yield dict(inp, data=ds[:j] + ds[j + 1:])
        for j, e in enumerate(ds):
            for k in range(len(e[3])):
                yield dict(inp, data=ds[:j] + [[e[0], e[1], e[2], e[3][:k] + e[3][k + 1:]]] + ds[j + 1:])
        if inp["gz"]:
            yield dict(inp, gz=False)

    def signature(self, inp, obs):
        if isinstance(obs, dict) and "__exc__" in obs:
            return (f"roundtrip: {obs['__exc__']} before anything is written (declaring the classes with their extras / "
                    f"building the records): {str(obs.get('msg', ''))[:80]}")
        for k in ("bytes1", "read", "bytes2"):
            if isinstance(obs, dict) and "err" in obs.get(k, {}):
                return f"roundtrip {k} raises {obs[k].get('cls', obs[k]['err'])}"
        if isinstance(obs, dict) and "err" in obs.get("read3", {}):
            return (f"same object: read; write; read again raises {obs['read3'].get('cls', obs['read3']['err'])} "
                    "(the file just written is not parsed according to its own header)")
        if isinstance(obs, dict) and "ok" in obs.get("read3", {}) and "ok" in obs.get("read", {}) \
                and obs["read3"]["ok"]["data"] != obs["read"]["ok"]["data"]:
            return "same object: read; write; read again returns other records than the first read"
        return "roundtrip: records read back differ from what was written, or the second write differs"


from .c06_tv import TRANSLATION, TVVersion  # noqa: E402,F401  (translation validation of check_version: c06_tv.py)

RELATIONS = [Header(), Read(), Roundtrip(), TVVersion()]

LEVEL_TEXT = (
    "Coq theorems (all inputs, no size bound) about a Gallina model of the .hap reader and writer: '#' lines that are "
    "not header declarations never change check_header or read wherever and however often they are inserted; "
    "check_version reports exactly when the major differs or the minor is newer, and check_header/read carry that "
    "report (also for a file without record lines); version strings int() cannot parse are never accepted; for every "
    "accepted header the types dict of a line type is the reordering by the columns the header gives it "
    "(C06_types_follow_header), so every requested extra field is read from the column its name has in the order line "
    "(or declaration order) and unrequested columns are skipped without shifting others; a declaration line counts for "
    "its line type and field name alone - files that differ in the formats / descriptions of their declaration lines "
    "(s, .2f, .3e, g, %, x, empty ...) are read identically, exceptions included (C06_declared_format_irrelevant_read; "
    "the reader converts by the class's annotated type); expected-but-undeclared extras "
    "are reported; WHOLE FILES: for every collection of haplotypes, repeats and variants and every extra-field "
    "configuration, read (to_str d) returns d's records in order with their field values and variants and no warning "
    "(C06_hap_roundtrip), also for a reader asking for any sub-selection of the extras (C06_hap_roundtrip_subreader), "
    "values up to their declared format and the second write byte-identical (C06_hap_roundtrip_up_to_format, "
    "C06_write_read_write_idem); where the V lines stand among the H/R lines is irrelevant "
    "(C06_read_line_order_independent); splitting the written characters on newline / tab gives back the lines and "
    "field texts when these contain no tab / newline / carriage return (C06_text_layer_roundtrip; refuted without). "
    "The model is tied to /repo on every run by evaluating, inside Coq, model-vs-implementation agreement and the "
    "property's finite checkers on generated header-line sets, generated files read through dynamically built "
    "Haplotype/Variant/Repeat subclasses (with and without inserted comment lines), and generated collections "
    "written, read back and written again."
)
LEVEL_NOTE = (
    "Codec laws are hypotheses: the int()/float()/format() results of each field text are computed by the harness and "
    "are inputs of the model, so 'every written text converts back to its value' (codec_data) and 'formatting the "
    "value read gives the same text' (same_toks_entry) are assumed per value in the theorems and checked on every "
    "generated value by the roundtrip relation. Trusted: Coq kernel/vm_compute; the hand-written model (validated "
    "only differentially); tokenisation of record lines by the harness; log records are classified by their first "
    "words. Out of scope by the property's own quantifier ('permitted alphabet'): field texts with tab / newline / "
    "carriage return. The tabix (indexed, region/subset) branch of __iter__ is not modelled (C08/C11 territory); "
    "gzip is exercised on the implementation side only; order lines that repeat a name or name a mandatory field "
    "are agree-only."
)
TECHNIQUE = "Coq proof by induction on line lists / header folds + vm_compute-evaluated correspondence against the implementation"
