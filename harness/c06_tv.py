"""C06 - translation validation of Haplotypes.check_version: the method is regenerated from $HAPTOOLS_REPO's current
source (HVG.Gen_Version) and proved equal to C06_Model.check_version / parse3 (coq/translated/TV_C06.v); relation
tv_version evaluates the translated code on version strings against direct calls of the real method."""
from . import coqlit as L
from .core import Relation, err_kind

_H = "haptools/data/haplotypes.py"
_D = "haptools/data/data.py"

TRANSLATION = {
    "spec": {
        "module": "Gen_Version",
        "text": True,                       # strings by code points; the f-strings are interpreted
        "ext_methods": ["split"],           # str.split: contract = C06_Model.split_on
        "ext_builtins": ["int"],            # int(str): contract = C06_Model.py_int
        "state_calls": {"err_msgr": "$out"},  # the callable check_header hands in: logs (appends to $out) or raises
        "functions": [
            (_H, "check_version", {
                "name": "check_version", "top": True, "in_class": "Haplotypes",
                "start": {"first": True}, "stop": {"through_return": True},
                "params": ["version", "self_version"], "result": None,
                "self_attrs": {"version": "self_version"}, "class_attr_reads": ["version"],
                "log_calls": {"self.log.warning": "$out"},
                "class_chain": [(_H, "Haplotypes"), (_D, "Data")]}),
        ],
    },
    "models": ["TVM_C06"],
    "proofs": ["TV_C06"],
}

E_REPORTED = 101    # C06_Model.ErrVersionReported: the ValueError a raising err_msgr raises

VERSIONS_OK = ["0.0.1", "0.1.0", "0.2.0", "0.2.1", "0.3.0", "1.0.0", "0.02.0", "0.2.00", " 0.2.0", "0.1.9", "00.2.0",
               "+0.2.0", "0.-1.0", "0.2.1_0", "2.2.0", "0.10.0", "0.2.0 ", "0.\t2.0", "-0.2.0", "0.255.0", "0.256.0",
               "0.2.4294967296", "0.1.99999999999999999999", "1_0.2.0"]
VERSIONS_BAD = ["", "0.2", "0.2.0.1", "a.b.c", "0.2.x", "v0.2.0", "0..0", "0.2.0 x", "1", "0.2._1", "0.2.1_", "- 0.2.0",
                "0.2.0.", ".0.2.0", "0.2.0.x", "x.0.2.0", "0.2.0.1.x", "0,2,0", "0.2.1__0", "...", "0.2.0\n.1"]
CURRENTS = ["0.2.0", "0.2.0", "0.2.0", "1.3.2", "0.0.0", "0.10.1", "0.2", "x.y.z", " 0.2.0"]


class TVVersion(Relation):
    """Direct calls of Haplotypes.check_version(version, err_msgr) on an object whose `version` attribute and logger the
    harness controls: err_msgr logs a warning (soft) or raises (hard), exactly as check_header builds it.  Observed: the
    returned triple and every message reported, in order (texts included), or the exception kind.  agree = the method
    translated from the current source, interpreted with C06_Model's split_on / py_int for the two untranslated string
    operations, returns the same triple, reports the same messages and fails with the same kind - and
    C06_Model.check_version predicts the same events.  holds is not judged here."""
    name = "tv_version"
    coq_lib = "HVG"
    coq_module = "TVM_C06"
    coq_check = "check_tv_version"
    coq_case_type = "tvcase"
    coq_model = "tv_model_version"
    coq_imports = ["C06_Model", "MiniPy"]
    budget = {"quick": 150, "thorough": 2500}
    anchors = [(_H, "Haplotypes.check_version")]

    @staticmethod
    def _random_version(rng):
        parts = []
        for _ in range(int(rng.choice([3, 3, 3, 3, 2, 4]))):
            r = rng.random()
            if r < 0.7:
                parts.append(str(int(rng.integers(0, 4))))
            elif r < 0.85:
                parts.append(str(int(rng.choice([9, 10, 127, 128, 255, 256, 65535, 65536, 2**31 - 1, 2**31, 2**63]))))
            else:
                parts.append(str(rng.choice(["", " 1", "1 ", "01", "+2", "-1", "1_0", "_1", "x", "1x", "1e0", "0x1", "1.", "٣"][:-1])))
        return ".".join(parts)

    def generate(self, rng, n, tier):
        out = []
        for v in VERSIONS_OK + VERSIONS_BAD:
            out.append({"softly": bool(len(out) % 2), "cur": "0.2.0", "v": v})
        for v in ["1.0.0", "0.3.0", "0.1.0", "0.2.0"]:
            out.append({"softly": False, "cur": "0.2.0", "v": v})
            out.append({"softly": True, "cur": "0.2.1", "v": v})
        while len(out) < n:
            v = self._random_version(rng) if rng.random() < 0.7 else str(rng.choice(VERSIONS_OK + VERSIONS_BAD))
            out.append({"softly": bool(rng.integers(0, 2)), "cur": str(rng.choice(CURRENTS)), "v": v})
        return out

    def exhaustive(self, tier):
        out = []
        digs = ["0", "1", "2"]
        for a in digs:
            for b in digs:
                for c in digs:
                    for cur in ("1.1.1", "0.2.0"):
                        for softly in (False, True):
                            out.append({"softly": softly, "cur": cur, "v": f"{a}.{b}.{c}"})
        return out

    def run_impl(self, inp):
        import logging

        from haptools.data.haplotypes import Haplotypes

        msgs = []

        class H(logging.Handler):
            def emit(self, record):
                msgs.append(record.getMessage())

        log = logging.getLogger("hv_c06_tv")
        log.handlers = [H()]
        log.propagate = False
        log.setLevel(logging.DEBUG)

        class Reported(ValueError):
            pass

        hp = Haplotypes(fname=None, log=log)
        hp.version = inp["cur"]
        if inp["softly"]:
            def err_msgr(msg):
                hp.log.warning(msg)
        else:
            def err_msgr(msg):
                raise Reported(msg)
        try:
            r = hp.check_version(inp["v"], err_msgr)
            ok = isinstance(r, tuple) and len(r) == 3 and all(isinstance(x, int) and not isinstance(x, bool) for x in r)
            return {"ret": [int(x) for x in r] if ok else None, "msgs": list(msgs)}
        except Reported:
            return {"err": E_REPORTED, "msgs": list(msgs)}
        except Exception as e:  # noqa: the kind is the observation
            return {"err": err_kind(e), "msgs": list(msgs)}

    def encode(self, inp, obs):
        head = f"(mktvv {L.b(inp['softly'])} {L.chars(inp['cur'])} {L.chars(inp['v'])} "
        if not isinstance(obs, dict) or ("ret" not in obs and "err" not in obs):
            return head + "(Err 97))"
        if "err" in obs:
            return head + f"(Err {L.z(obs['err'])}))"
        if obs["ret"] is None:
            return head + "(Err 97))"
        return head + f"(Ok ({L.zl(obs['ret'])}, {L.lst(obs['msgs'], L.chars)})))"

    def nontrivial(self, inp, obs):
        return isinstance(obs, dict) and (obs.get("msgs") or "err" in obs or inp["v"] != inp["cur"])

    def classes(self, inp, obs):
        if not isinstance(obs, dict):
            return ["unobserved"]
        if obs.get("err") == E_REPORTED:
            return ["unsupported raised"]
        if "err" in obs:
            return ["malformed -> error"]
        m = obs.get("msgs") or []
        if any("only works with" in x for x in m):
            return ["unsupported logged"]
        if any("outdated" in x for x in m):
            return ["outdated"]
        if any("fixes" in x for x in m):
            return ["patch"]
        return ["quiet"]

    def shrink(self, inp):
        out = []
        for key in ("v", "cur"):
            s = inp[key]
            for i in range(len(s)):
                out.append(dict(inp, **{key: s[:i] + s[i + 1:]}))
        return out

    def mutate(self, inp, rng):
        return [dict(inp, v=self._random_version(rng)) for _ in range(4)] + [dict(inp, softly=not inp["softly"])]

    def signature(self, inp, obs):
        return ("tv_version: check_version translated from the current source returns / reports / raises something "
                "else than the real method (or than C06_Model.check_version)")
