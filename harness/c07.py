"""C07 - genotypes written to VCF/BCF or PGEN read back unchanged.

Relations
  pgen : GenotypesPLINK.write (chunk cw) with a recorder around pgenlib.PgenWriter, the written
         files read with pgenlib.PvarReader/PgenReader directly, then GenotypesPLINK.read
         (chunk cr) by haptools; shapes n x p, n x 0, 0 x p, 0 x 0
  vcf  : GenotypesVCF.write to .vcf / .vcf.gz (none, .tbi, .csi) / .bcf (none, .csi), the file
         inspected with pysam.VariantFile directly, then Genotypes.read by haptools without a
         region and with a whole contig as region; the same shapes
  text : the names as characters: the .psam / .pvar text (PGEN) or the VCF text (.vcf, .vcf.gz
         decompressed) resp. pysam's view (.bcf) of samples, IDs, contigs, positions, alleles
         and GTs, and what haptools reads back; unusual but legal names
"""
import gzip
import os
import shutil
import tempfile

import numpy as np

from . import coqlit as L
from .core import Relation, err_kind

PROP = "C07"
CLAIMED = True
COQ_MODULES = ["C07_Check", "C07_ProofsText", "C07_Proofs"]
PROPERTY_MODULE = "C07_Property"
ALLOWED_AXIOMS = []
RULE = (
    "matrices of 0-6 samples x 0-7 variants (the shapes n x 0, 0 x p and 0 x 0 in about 15% of the cases) on 1-3 "
    "contigs, 2-5 alleles per variant, codes drawn from an arbitrary non-empty subset of each variant's alleles (so "
    "unobserved middle alleles and single-allele columns occur), missing calls in any pattern (calls missing in one "
    "allele only for VCF, and in 8% of the PGEN cases to observe the refusal), phased/unphased/mixed, 2- and 3-plane "
    "arrays, the _prephased attribute set on the writing or reading object in about 10% of the cases; chunk sizes "
    "None,1..p+1 independently for write and read; .vcf, .vcf.gz without index / with .tbi / with .csi, .bcf without "
    "index / with .csi, read without a region and with a contig as region; names as text: sample names, variant IDs, "
    "contigs and alleles over printable ASCII and some non-ASCII letters - digits only, underscores, dots, '#' inside "
    "and in front, reserved words (IID, #IID, FID, CHROM, NA, None), a leading double quote, names of 60-300 "
    "characters, IDs of exactly 50 and contigs of exactly 10 characters, symbolic and long alleles, positions up to "
    "2^31-2. Non-trivial = at least one variant and one call that is heterozygous or missing (pgen, vcf); at least one "
    "name outside [A-Za-z0-9] (text). Distinct = distinct canonical JSON."
)
TRUSTED = [
    "pgenlib.PgenWriter accepts a batch iff every declared allele count <= allele_ct_limit and every call is missing "
    "in both alleles or has both codes < its allele count (Section variable paccept; clauses paccept_complete / "
    "paccept_sound; checked on every run: contracts_pgen evaluates the precondition on the batches of every write "
    "that succeeded, and the model, which rejects exactly the other batches, is compared with the outcome)",
    "pgenlib.PgenReader: a stored call reads back with the same alleles, unordered when heterozygous and unphased "
    "(Section variable pload, contract pload_contract; validated directly on every run: the files haptools wrote are "
    "read with pgenlib.PvarReader/PgenReader, not through haptools, and every call is checked against the contract "
    "(pload_okb) and against the concrete instance pload_std; sample/variant/allele counts likewise)",
    "pysam/cyvcf2: a GT tuple and phased flag written with pysam read back unchanged with cyvcf2, missing = -1 "
    "(Section variable vload, contract vload_contract; exercised on every run, the file is also read with pysam; for "
    ".vcf/.vcf.gz the text of the GT tokens is observed and its parsing is a theorem)",
    "htslib: iterating a reader without a region yields every record whatever the format (.vcf, .vcf.gz, .bcf) and "
    "whether or not a .tbi/.csi lies beside the file; a region query without an index fails (record htslib with "
    "contracts hts_iter_contract / hts_region_contract; exercised on every run over all seven format/index "
    "combinations, region queries included)",
    "pysam writes a record as the tab-separated line CHROM POS ID REF ALT(comma-joined) QUAL FILTER INFO [GT ...] "
    "after ## lines and the #CHROM line (observed as text on every run for .pvar, .vcf, .vcf.gz; .bcf is binary: "
    "there pysam's view of the fields is compared)",
    "harness transposes haptools' sample-major array to the model's variant-major rows (numpy.transpose)",
    "pgen/vcf relations: strings are interned to integers per case (they are only compared); text relation: strings "
    "are lists of code points",
]
ASSUMPTIONS = [
    "domain of the round-trip theorems and of holds: every variant has 2..255 alleles, every allele index is within "
    "the variant's allele list or 255 (missing), chunk sizes >= 1 or None; any number of samples and variants, 0 "
    "included (an array without entries must come back as an array without entries, samples and variants unchanged)",
    "names (text relation and theorems): non-empty strings without tab, line feed, carriage return; variant IDs of at "
    "most 50 and contig names of at most 10 characters (longer ones are already cut when put into haptools' numpy "
    "record type, before anything is written), alleles without a comma, positions 1..2^31-2 with the last base of REF "
    "at or below 2^31-1 (htslib/pgenlib limits; beyond them write raises OverflowError/RuntimeError), "
    "ID not '.' (VCF's missing value), contigs and alleles over the characters the VCF specification allows",
    "PGEN, variants without samples: the format cannot hold them (pgenlib's writer crashes for sample_ct = 0); "
    "GenotypesPLINK.write refuses with ValueError, which holds accepts; an interpreter crash is not accepted",
    "PGEN, a call missing in one allele only (e.g. 1/.): outside what the property demands of PGEN. Argument: the "
    "PGEN format has no representation for a half-missing hard call (plink2 itself refuses to import one unless told "
    "how to change it: --vcf-half-call), haptools' own documentation of the format (docs/formats/genotypes.rst, an "
    "anchor of this property) tells users to convert with --vcf-half-call m, and where a property of this suite means "
    "half-missing calls it says so (C13: 'missing in one or both alleles, half-missing') whereas C07 speaks of "
    "'missing calls' of a matrix that is written to either format. No repair can make such a call round-trip through "
    "PGEN. GenotypesPLINK.write fails for exactly the matrices that contain at least one call with exactly one allele "
    "equal to 255 (RuntimeError from pgenlib, after the .psam/.pvar were written); the model has this refusal "
    "(theorem C07_pgen_half_missing_refused) and agree compares it on every run, so a change that starts to store "
    "such calls differently is noticed; through VCF/BCF these calls are in the domain and must round-trip",
]

ALPH = ["A", "C", "G", "T", "AC", "GT", "ACG", "TTA", "CA", "G"]

# ----------------------------------------------------------------------------
# building / dumping haptools objects


def build_obj(cls, path, inp, **kw):
    """A haptools Genotypes* object holding the input matrix (rows are variant-major)."""
    from pathlib import Path
    from haptools.logging import getLogger

    g = cls(Path(path), log=getLogger("hv", "CRITICAL"), **kw)
    g.samples = tuple(inp["samples"])
    g.variants = np.array(
        [(v[0], v[1], v[2], tuple(v[3])) for v in inp["variants"]],
        dtype=g.variants.dtype,
    )
    n, p, k = len(inp["samples"]), len(inp["variants"]), inp.get("planes", 3)
    arr = np.array(inp["rows"], dtype=np.uint8).reshape((p, n, 3))[:, :, :k]
    g.data = np.ascontiguousarray(arr.transpose((1, 0, 2)))
    g._prephased = bool(inp.get("wpre", False))
    return g


def dump_obj(r):
    """Observable state of a haptools Genotypes* object (rows variant-major)."""
    data = r.data
    shape = [int(x) for x in data.shape]
    rows = []
    if data.ndim == 3:
        rows = np.asarray(data).astype(np.int64).transpose((1, 0, 2)).tolist()
    vs = []
    names = r.variants.dtype.names
    for v in r.variants:
        al = [str(a) for a in v["alleles"]] if "alleles" in names else []
        vs.append([str(v["id"]), str(v["chrom"]), int(v["pos"]), al])
    return {"samples": [str(s) for s in r.samples], "variants": vs, "rows": rows, "shape": shape}


# ----------------------------------------------------------------------------
# Gallina literals


class Enc:
    """Per-case interning of strings + geno literals."""

    def __init__(self):
        self.i = L.Interner()

    def s(self, x):
        return L.z(self.i(("s", x)))

    def variant(self, v):
        al = list(v[3])
        return (f"(mkvar {L.z(self.i(('id', v[0])))} {L.z(self.i(('chrom', v[1])))} {L.z(v[2])} "
                f"{L.lst(al, lambda a: L.z(self.i(('al', a))))} {L.z(len(al[0]) if al else 0)})")

    def call(self, c):
        ph = c[2] if len(c) > 2 else 1
        return f"({L.z(c[0])}, {L.z(c[1])}, {L.z(ph)})"

    def geno(self, samples, variants, rows, shape):
        return (f"(mkg {L.lst(samples, self.s)} {L.lst(variants, self.variant)} "
                f"{L.lst(rows, lambda r: L.lst(r, self.call))} {L.zl(shape)})")

    def geno_in(self, inp):
        n, p, k = len(inp["samples"]), len(inp["variants"]), inp.get("planes", 3)
        rows = inp["rows"] if k >= 3 else [[c[:2] for c in r] for r in inp["rows"]]   # 2 planes: no phase plane
        return self.geno(inp["samples"], inp["variants"], rows, [n, p, k])

    def geno_obs(self, o):
        return self.geno(o["samples"], o["variants"], o["rows"], o["shape"])

    def rgeno(self, x):
        return L.res(x, self.geno_obs)


def oerr(obs):
    """error kind of a run the worker could not finish (crash / timeout / uncaught)"""
    return int(obs.get("kind", 99)) if isinstance(obs, dict) else 99


# ----------------------------------------------------------------------------
# generators


def gen_matrix(rng, half_ok, pmax=7, nmax=6, pmin=0):
    n = int(rng.integers(1, nmax + 1))
    p = int(rng.integers(pmin, pmax + 1))
    if rng.random() < 0.06:
        p = 0
    samples = [f"s{j}" for j in rng.permutation(9)[:n].tolist()]
    contigs = [str(c) for c in sorted(rng.choice([1, 2, 3, 7, 10], size=int(rng.integers(1, 4)), replace=False).tolist())]
    if rng.random() < 0.2:
        contigs = ["chr" + c for c in contigs]
    cidx = sorted(rng.integers(0, len(contigs), size=p).tolist())
    ids = [f"v{j}" for j in rng.permutation(20)[:p].tolist()]
    variants, rows = [], []
    pos = 0
    mode = rng.choice(["phased", "unphased", "mixed"])
    missmode = rng.choice(["none", "some", "some", "many"])
    for j in range(p):
        if j and cidx[j] != cidx[j - 1]:
            pos = 0
        pos += int(rng.integers(0 if j and cidx[j] == cidx[j - 1] and rng.random() < 0.1 else 1, 40))
        pos = max(pos, 1)
        na = int(rng.choice([2, 2, 2, 3, 3, 4, 5]))
        al = rng.permutation(len(ALPH))[:na].tolist()
        alleles = []
        for a in al:
            s = ALPH[a]
            while s in alleles:
                s = s + "T"
            alleles.append(s)
        if rng.random() < 0.8:
            alleles[0] = alleles[0][0] if alleles[0][0] not in alleles[1:] else alleles[0]
        # the alleles that are actually observed: any non-empty subset
        k = int(rng.integers(1, na + 1))
        seen = sorted(rng.choice(na, size=k, replace=False).tolist())
        row = []
        for s in range(n):
            a, b = int(rng.choice(seen)), int(rng.choice(seen))
            ph = 1 if mode == "phased" else 0 if mode == "unphased" else int(rng.integers(0, 2))
            r = rng.random()
            pm = {"none": 0.0, "some": 0.15, "many": 0.6}[missmode]
            if r < pm:
                if half_ok and rng.random() < 0.3:
                    if rng.random() < 0.5:
                        a = 255
                    else:
                        b = 255
                else:
                    a = b = 255
            row.append([a, b, ph])
        variants.append([ids[j], contigs[cidx[j]], pos, alleles])
        rows.append(row)
    planes = 2 if (mode == "phased" and rng.random() < 0.3) else 3
    if planes == 2:
        rows = [[[c[0], c[1], 1] for c in r] for r in rows]
    return {"samples": samples, "variants": variants, "rows": rows, "planes": planes}


def chunk_choice(rng, p):
    r = rng.random()
    if r < 0.2:
        return None
    return int(rng.integers(1, p + 3))


def with_empty_shapes(rng, m):
    """About 9% of the matrices lose all their samples (0 x p, and 0 x 0 when there were no variants)."""
    if rng.random() < 0.09:
        m = dict(m, samples=[], rows=[[] for _ in m["rows"]])
    return m


def shape_class(inp):
    n, p = len(inp["samples"]), len(inp["variants"])
    return "shape=" + ("0x0" if not n and not p else "0xp" if not n else "nx0" if not p else "nxp")


def features(inp):
    out = [shape_class(inp)]
    p = len(inp["variants"])
    if p == 0:
        out.append("p=0")
    half = full = gap = False
    for v, row in zip(inp["variants"], inp["rows"]):
        na = len(v[3])
        vals = set()
        for c in row:
            if (c[0] == 255) != (c[1] == 255):
                half = True
            elif c[0] == 255:
                full = True
            vals |= {c[0], c[1]}
        nm = vals - {255}
        if nm and max(nm) + 1 > len(nm):
            gap = True      # some allele index below the largest observed one is carried by nobody
    if half:
        out.append("half-missing")
    if full:
        out.append("missing")
    if gap:
        out.append("unobserved-lower-allele")
    if any(255 in {c[0], c[1]} and len(v[3]) == 2 for v, row in zip(inp["variants"], inp["rows"]) for c in row):
        out.append("missing-on-biallelic")
    if any(c[0] != c[1] and c[2] == 0 for row in inp["rows"] for c in row):
        out.append("unphased-het")
    if any(c[0] != c[1] and c[2] == 1 for row in inp["rows"] for c in row):
        out.append("phased-het")
    if inp.get("planes", 3) == 2:
        out.append("2-planes")
    if len({v[1] for v in inp["variants"]}) > 1:
        out.append("multi-contig")
    if any(len(v[3]) > 2 for v in inp["variants"]):
        out.append("multiallelic")
    return out


def nontrivial_matrix(inp):
    return bool(inp["variants"]) and any(c[0] != c[1] or c[0] == 255 for row in inp["rows"] for c in row)


def shrink_matrix(inp, keep_one_sample=True):
    p, n = len(inp["variants"]), len(inp["samples"])
    for j in range(p):
        yield dict(inp, variants=inp["variants"][:j] + inp["variants"][j + 1:], rows=inp["rows"][:j] + inp["rows"][j + 1:])
    if n > (1 if keep_one_sample else 0):
        for s in range(n):
            yield dict(inp, samples=inp["samples"][:s] + inp["samples"][s + 1:],
                       rows=[r[:s] + r[s + 1:] for r in inp["rows"]])
    for j in range(p):
        for s in range(n):
            c = inp["rows"][j][s]
            for new in ([0, 0, 1], [c[0], c[0], c[2]], [c[0], c[1], 1]):
                if new != c and not (new[0] == 255):
                    rows = [list(map(list, r)) for r in inp["rows"]]
                    rows[j][s] = new
                    yield dict(inp, rows=rows)
    for j in range(p):
        v = inp["variants"][j]
        mx = max([x for c in inp["rows"][j] for x in c[:2] if x != 255] + [1])
        if len(v[3]) > mx + 1:
            vs = list(inp["variants"])
            vs[j] = [v[0], v[1], v[2], v[3][:mx + 1]]
            yield dict(inp, variants=vs)


# ----------------------------------------------------------------------------
# recorder around pgenlib.PgenWriter


class WriterRecorder:
    def __init__(self):
        import pgenlib

        self.pgenlib = pgenlib
        self.real = pgenlib.PgenWriter
        self.limit = 0
        self.batches = []
        self.unobserved = None
        rec = self

        class W:
            def __init__(self, *a, **kw):
                if a or set(kw) - {"filename", "sample_ct", "variant_ct", "allele_ct_limit", "nonref_flags",
                                   "hardcall_phase_present"}:
                    rec.unobserved = "PgenWriter called with unexpected arguments"
                rec.limit = int(kw.get("allele_ct_limit", 2))
                rec.sample_ct = int(kw.get("sample_ct", 0))
                self.w = rec.real(*a, **kw)

            def __enter__(self):
                self.w.__enter__()
                return self

            def __exit__(self, *a):
                return self.w.__exit__(*a)

            def close(self):
                return self.w.close()

            def append_alleles_batch(self, arr, all_phased=False, allele_cts=None):
                if not all_phased or allele_cts is None:
                    rec.unobserved = "append_alleles_batch without all_phased/allele_cts"
                rec.batches.append({"codes": np.array(arr).tolist(), "cts": [int(x) for x in (allele_cts if allele_cts is not None else [])],
                                    "phase": None})
                return self.w.append_alleles_batch(arr, all_phased=all_phased, allele_cts=allele_cts)

            def append_partially_phased_batch(self, arr, phase, allele_cts=None):
                if allele_cts is None:
                    rec.unobserved = "append_partially_phased_batch without allele_cts"
                rec.batches.append({"codes": np.array(arr).tolist(), "cts": [int(x) for x in (allele_cts if allele_cts is not None else [])],
                                    "phase": np.array(phase).astype(np.int64).tolist()})
                return self.w.append_partially_phased_batch(arr, phase, allele_cts=allele_cts)

            def __getattr__(self, name):
                rec.unobserved = f"PgenWriter.{name} used"
                return getattr(self.w, name)

        pgenlib.PgenWriter = W

    def close(self):
        self.pgenlib.PgenWriter = self.real


def batch_term(b):
    pairs = lambda row: L.lst([(row[i], row[i + 1]) for i in range(0, len(row) - 1, 2)], lambda xy: f"({L.z(xy[0])}, {L.z(xy[1])})")
    ph = "None" if b["phase"] is None else f"(Some {L.lst(b['phase'], L.zl)})"
    return f"(mkb {L.lst(b['codes'], pairs)} {L.zl(b['cts'])} {ph})"


def pgenlib_dump(path):
    """The written files as pgenlib itself reports them (not through haptools)."""
    import pgenlib

    pv = pgenlib.PvarReader(bytes(os.path.splitext(path)[0] + ".pvar", "utf8"))
    p = int(pv.get_variant_ct())
    cts = [int(pv.get_allele_ct(i)) for i in range(p)]
    calls = []
    with pgenlib.PgenReader(bytes(path, "utf8"), pvar=pv) as r:
        n = int(r.get_raw_sample_ct())
        pp = int(r.get_variant_ct())
        for i in range(pp):
            a = np.empty(2 * n, dtype=np.int32)
            ph = np.empty(n, dtype=np.uint8)
            r.read_alleles_and_phasepresent(i, a, ph)
            calls.append([[int(a[2 * j]), int(a[2 * j + 1]), int(ph[j])] for j in range(n)])
    return {"n": n, "p": pp, "pvar_p": p, "cts": cts, "calls": calls}


def praw_term(r):
    if r is None:
        return "(Err 0)"
    if "err" in r:
        return f"(Err {L.z(r['err'])})"
    r = r["ok"]
    if r["pvar_p"] != r["p"]:
        return "(Err 97)"
    sc = lambda c: f"({L.z(c[0])}, {L.z(c[1])}, {L.z(c[2])})"
    return f"(Ok (mkpr {L.z(r['n'])} {L.z(r['p'])} {L.zl(r['cts'])} {L.lst(r['calls'], lambda row: L.lst(row, sc))}))"


class Pgen(Relation):
    name = "pgen"
    coq_module = "C07_Check"
    coq_check = "check_pgen"
    coq_case_type = "pcase"
    coq_model = "model_pgen"
    coq_imports = ["C07_Model"]
    budget = {"quick": 300, "thorough": 5000}
    anchors = [
        ("haptools/data/genotypes.py", "GenotypesPLINK.write"),
        ("haptools/data/genotypes.py", "GenotypesPLINK._num_unique_alleles"),
        ("haptools/data/genotypes.py", "GenotypesPLINK.write_variants"),
        ("haptools/data/genotypes.py", "GenotypesPLINK.write_samples"),
        ("haptools/data/genotypes.py", "GenotypesPLINK.read"),
        ("haptools/data/genotypes.py", "GenotypesPLINK.read_variants"),
        ("haptools/data/genotypes.py", "GenotypesPLINK.read_samples"),
        ("haptools/data/genotypes.py", "GenotypesPLINK._iterate_variants"),
    ]

    def generate(self, rng, n, tier):
        out = []
        for i in range(n):
            m = gen_matrix(rng, half_ok=(rng.random() < 0.08))
            m = with_empty_shapes(rng, m)
            p = len(m["variants"])
            m["cw"] = chunk_choice(rng, p)
            m["cr"] = chunk_choice(rng, p)
            if rng.random() < 0.02:
                m["cw" if rng.random() < 0.5 else "cr"] = 0      # malformed: chunk_size = 0
            m["wpre"] = bool(rng.random() < 0.1)                 # _prephased on the writing object
            m["rpre"] = bool(rng.random() < 0.12)                # _prephased on the reading object
            out.append(m)
        return out

    def exhaustive(self, tier):
        # all chunk sizes 1..p+1 (and None) independently for write and read, p <= 5
        rng = np.random.default_rng(77)
        out = []
        for p in range(0, 6):
            m = None
            while m is None or len(m["variants"]) != p:
                m = gen_matrix(rng, half_ok=False, pmax=p, pmin=p, nmax=3)
            for cw in [None] + list(range(1, p + 2)):
                for cr in [None] + list(range(1, p + 2)):
                    out.append(dict(m, cw=cw, cr=cr))
        # every shape without entries x every chunk setting
        for n, p in ((0, 0), (0, 1), (0, 3), (1, 0), (3, 0)):
            m = None
            while m is None or len(m["variants"]) != p:
                m = gen_matrix(rng, half_ok=False, pmax=p, pmin=p, nmax=3)
            if n == 0:
                m = dict(m, samples=[], rows=[[] for _ in m["rows"]])
            for cw in (None, 1, p + 1):
                for cr in (None, 1, p + 1):
                    for wpre, rpre in ((False, False), (True, False), (False, True)):
                        out.append(dict(m, cw=cw, cr=cr, wpre=wpre, rpre=rpre))
        return out

    def run_impl(self, inp):
        from haptools.data import GenotypesPLINK
        from haptools.logging import getLogger

        d = tempfile.mkdtemp(prefix="hv_c07_")
        try:
            path = os.path.join(d, "x.pgen")
            g = build_obj(GenotypesPLINK, path, inp, chunk_size=inp["cw"])
            rec = WriterRecorder()
            try:
                g.write()
                calls = {"ok": {"limit": rec.limit, "batches": rec.batches}}
            except Exception as e:  # noqa
                calls = {"err": err_kind(e), "cls": type(e).__name__, "msg": str(e)[:160]}
            finally:
                rec.close()
            if rec.unobserved:
                return {"unobserved": rec.unobserved}
            if "err" in calls:
                return {"calls": calls, "raw": None, "back": {"err": calls["err"]}}
            raw = None
            if inp["variants"]:
                # the independent reading of what haptools wrote, with pgenlib alone
                try:
                    raw = {"ok": pgenlib_dump(path)}
                except Exception as e:  # noqa
                    raw = {"err": err_kind(e), "cls": type(e).__name__, "msg": str(e)[:160]}
            try:
                from pathlib import Path

                r = GenotypesPLINK(Path(path), log=getLogger("hv", "CRITICAL"), chunk_size=inp["cr"])
                r._prephased = bool(inp.get("rpre", False))
                r.read()
                back = {"ok": dump_obj(r)}
            except Exception as e:  # noqa
                back = {"err": err_kind(e), "cls": type(e).__name__, "msg": str(e)[:160]}
            return {"calls": calls, "raw": raw, "back": back}
        finally:
            shutil.rmtree(d, ignore_errors=True)

    def encode(self, inp, obs):
        E = Enc()
        g = E.geno_in(inp)
        raw = "(Err 0)"
        if "unobserved" in obs:
            calls, back = "(Err 97)", "(Err 97)"
        elif "calls" not in obs:
            calls = back = f"(Err {oerr(obs)})"
        else:
            calls = L.res(obs["calls"], lambda c: f"({L.z(c['limit'])}, {L.lst(c['batches'], batch_term)})")
            back = E.rgeno(obs["back"])
            raw = praw_term(obs.get("raw"))
        return (f"(mkpc {g} {L.opt(inp['cw'], L.z)} {L.opt(inp['cr'], L.z)} "
                f"{L.b(inp.get('wpre', False))} {L.b(inp.get('rpre', False))} {calls} {raw} {back})")

    def nontrivial(self, inp, obs):
        return nontrivial_matrix(inp)

    def classes(self, inp, obs):
        p = len(inp["variants"])
        out = features(inp)
        for key in ("cw", "cr"):
            c = inp[key]
            out.append(f"{key}=" + ("None" if c is None else "0" if c == 0 else "1" if c == 1 else "p" if c == p else ">p" if c > p else "mid"))
        if inp.get("wpre"):
            out.append("writer-prephased")
        if inp.get("rpre"):
            out.append("reader-prephased")
        if isinstance(obs, dict) and "calls" in obs and "err" in obs["calls"]:
            out.append(f"write-err{obs['calls']['err']}")
        if isinstance(obs, dict) and obs.get("raw") and "ok" in obs["raw"]:
            out.append("read-with-pgenlib-directly")
        if isinstance(obs, dict) and "__crash__" in obs:
            out.append("crash")
        return out

    def shrink(self, inp):
        for key in ("cw", "cr"):
            if inp[key] is not None:
                yield dict(inp, **{key: None})
        for key in ("wpre", "rpre"):
            if inp.get(key):
                yield dict(inp, **{key: False})
        yield from shrink_matrix(inp, keep_one_sample=bool(inp["samples"]))

    def mutate(self, inp, rng):
        p = len(inp["variants"])
        for cw in (None, 1, p, p + 1):
            for cr in (None, 1, p, p + 1):
                yield dict(inp, cw=cw, cr=cr)
        if inp["samples"]:
            yield dict(inp, samples=[], rows=[[] for _ in inp["rows"]])
        yield dict(inp, variants=[], rows=[])

    def signature(self, inp, obs):
        f = features(inp)
        if not isinstance(obs, dict) or "calls" not in obs:
            what = "interpreter crash/timeout in write+read"
        elif "err" in obs["calls"]:
            what = f"GenotypesPLINK.write raised {obs['calls'].get('cls')}"
        elif "err" in obs["back"]:
            what = f"GenotypesPLINK.read raised {obs['back'].get('cls')}"
        else:
            what = "PGEN read-back differs from what was written"
        return (f"pgen: {what}; {shape_class(inp)} missing-call={'missing' in f or 'half-missing' in f} "
                f"unobserved-lower-allele={'unobserved-lower-allele' in f} half-missing={'half-missing' in f}")


def pysam_dump(path):
    import pysam

    with pysam.VariantFile(path) as vf:
        samples = [str(s) for s in vf.header.samples]
        recs = []
        for rec in vf:
            calls = []
            for s in samples:
                c = rec.samples[s]
                gt = c["GT"]
                calls.append([None if x is None else int(x) for x in gt] + [bool(c.phased)])
            recs.append([[str(rec.id), str(rec.contig), int(rec.pos), [str(a) for a in rec.alleles]], calls])
    return {"samples": samples, "recs": recs}


def sorted_for_index(inp):
    seen, last, lastc = set(), 0, None
    for v in inp["variants"]:
        if v[1] != lastc:
            if v[1] in seen:
                return False
            seen.add(v[1])
            lastc, last = v[1], 0
        if v[2] < last:
            return False
        last = v[2]
    return True


FORMATS = [("vcf", None), ("vcf.gz", None), ("vcf.gz", "tbi"), ("vcf.gz", "csi"), ("bcf", None), ("bcf", "csi")]
FMT_TERM = {"vcf": "F_vcf", "vcf.gz": "F_vcfgz", "bcf": "F_bcf"}
IDX_TERM = {None: "I_none", "tbi": "I_tbi", "csi": "I_csi"}


def make_index(path, fmt, index):
    import pysam

    if index is None:
        return
    if fmt == "bcf":
        pysam.tabix_index(path, preset="bcf", force=True)
    else:
        pysam.tabix_index(path, preset="vcf", force=True, csi=(index == "csi"))
    want = path + "." + index
    if not os.path.exists(want):
        raise RuntimeError(f"index {want} was not created")


def index_of(inp):
    """the index of a vcf input (older corpus files have a boolean)"""
    idx = inp.get("index")
    if idx is True:
        return "csi" if inp["fmt"] == "bcf" else "tbi"
    return idx or None


class Vcf(Relation):
    name = "vcf"
    coq_module = "C07_Check"
    coq_check = "check_vcf"
    coq_case_type = "vcase"
    coq_model = "model_vcf"
    coq_imports = ["C07_Model"]
    budget = {"quick": 260, "thorough": 4000}
    anchors = [
        ("haptools/data/genotypes.py", "GenotypesVCF.write"),
        ("haptools/data/genotypes.py", "GenotypesVCF._variant_arr"),
        ("haptools/data/genotypes.py", "Genotypes.read"),
        ("haptools/data/genotypes.py", "Genotypes._iterate"),
        ("haptools/data/genotypes.py", "Genotypes._vcf_iter"),
        ("haptools/data/genotypes.py", "Genotypes._return_data"),
        ("haptools/data/genotypes.py", "Genotypes.__iter__"),
    ]

    def generate(self, rng, n, tier):
        out = []
        for i in range(n):
            m = gen_matrix(rng, half_ok=True)
            m = with_empty_shapes(rng, m)
            fmt, idx = FORMATS[int(rng.integers(0, len(FORMATS)))]
            if idx is not None and not sorted_for_index(m):
                idx = None
            m["fmt"], m["index"] = fmt, idx
            m["wpre"] = bool(rng.random() < 0.1)
            m["rpre"] = bool(rng.random() < 0.12)
            # a contig requested as region afterwards (needs an index to be served)
            m["region"] = None
            if m["variants"] and rng.random() < 0.6:
                m["region"] = m["variants"][int(rng.integers(0, len(m["variants"])))][1]
            out.append(m)
        return out

    def exhaustive(self, tier):
        # one matrix of every shape in every format / index combination, with and without region
        rng = np.random.default_rng(78)
        out = []
        for n, p in ((2, 3), (1, 1), (2, 0), (0, 2), (0, 0)):
            m = None
            while m is None or len(m["variants"]) != p or not sorted_for_index(m):
                m = gen_matrix(rng, half_ok=True, pmax=p, pmin=p, nmax=3)
            if n == 0:
                m = dict(m, samples=[], rows=[[] for _ in m["rows"]])
            for fmt, idx in FORMATS:
                for region in ([None] + sorted({v[1] for v in m["variants"]})):
                    out.append(dict(m, fmt=fmt, index=idx, wpre=False, rpre=False, region=region))
        return out

    def run_impl(self, inp):
        from pathlib import Path
        from haptools.data import GenotypesVCF
        from haptools.logging import getLogger

        d = tempfile.mkdtemp(prefix="hv_c07_")
        try:
            path = os.path.join(d, "x." + inp["fmt"])
            g = build_obj(GenotypesVCF, path, inp)
            try:
                g.write()
                make_index(path, inp["fmt"], index_of(inp))
                file = {"ok": pysam_dump(path)}
            except Exception as e:  # noqa
                file = {"err": err_kind(e), "cls": type(e).__name__, "msg": str(e)[:160]}
                return {"file": file, "back": {"err": file["err"]}, "rback": None}

            def read(region):
                try:
                    r = GenotypesVCF(Path(path), log=getLogger("hv", "CRITICAL"))
                    r._prephased = bool(inp.get("rpre", False))
                    r.read(region=region)
                    return {"ok": dump_obj(r)}
                except Exception as e:  # noqa
                    return {"err": err_kind(e), "cls": type(e).__name__, "msg": str(e)[:160]}

            back = read(None)
            rback = read(inp["region"]) if inp.get("region") is not None else None
            return {"file": file, "back": back, "rback": rback}
        finally:
            shutil.rmtree(d, ignore_errors=True)

    def encode(self, inp, obs):
        E = Enc()
        g = E.geno_in(inp)
        region = inp.get("region")
        rterm = "None" if region is None else f"(Some {L.z(E.i(('chrom', region)))})"
        rback = "(Err 0)"
        if "file" not in obs:
            file = back = f"(Err {oerr(obs)})"
        else:
            vc = lambda c: f"({L.opt(c[0], L.z)}, {L.opt(c[1], L.z)}, {L.b(c[2])})"
            rec = lambda r: f"({E.variant(r[0])}, {L.lst(r[1], vc)})"
            file = L.res(obs["file"], lambda f: f"(mkvf {L.lst(f['samples'], E.s)} {L.lst(f['recs'], rec)})")
            back = E.rgeno(obs["back"])
            if obs.get("rback") is not None:
                rback = E.rgeno(obs["rback"])
        return (f"(mkvc {g} {FMT_TERM[inp['fmt']]} {IDX_TERM[index_of(inp)]} {L.b(inp.get('wpre', False))} "
                f"{L.b(inp.get('rpre', False))} {file} {back} {rterm} {rback})")

    def nontrivial(self, inp, obs):
        return nontrivial_matrix(inp)

    def classes(self, inp, obs):
        out = (features(inp) + [f"fmt={inp['fmt']}", f"index={index_of(inp) or 'none'}",
                                f"file={inp['fmt']}+{index_of(inp) or 'noindex'}"]
               + (["writer-prephased"] if inp.get("wpre") else []) + (["reader-prephased"] if inp.get("rpre") else []))
        if inp.get("region") is not None:
            out.append("region-with-index" if index_of(inp) else "region-without-index")
        return out

    def shrink(self, inp):
        if inp["fmt"] != "vcf" and not index_of(inp):
            yield dict(inp, fmt="vcf")
        if inp.get("region") is not None:
            yield dict(inp, region=None)
        for key in ("wpre", "rpre"):
            if inp.get(key):
                yield dict(inp, **{key: False})
        for c in shrink_matrix(inp, keep_one_sample=bool(inp["samples"])):
            if index_of(inp) and not sorted_for_index(c):
                continue
            if c.get("region") is not None and c["region"] not in {v[1] for v in c["variants"]}:
                c = dict(c, region=None)
            yield c

    def mutate(self, inp, rng):
        for fmt, idx in FORMATS:
            if idx is None or sorted_for_index(inp):
                yield dict(inp, fmt=fmt, index=idx)
        if inp["samples"]:
            yield dict(inp, samples=[], rows=[[] for _ in inp["rows"]])
        yield dict(inp, variants=[], rows=[], region=None)

    def signature(self, inp, obs):
        sh = shape_class(inp)
        if not isinstance(obs, dict) or "back" not in obs:
            return f"vcf: interpreter crash/timeout in write+read; {sh}"
        if "err" in obs["back"]:
            which = "write" if "err" in obs["file"] else "read"
            return f"vcf: {which} raised {obs['back'].get('cls') or obs['file'].get('cls')}; {sh}"
        b = obs["back"]["ok"]
        if inp["variants"] and not b["variants"]:
            return f"vcf: read of a file {'with' if index_of(inp) else 'without'} index returned no variants; {sh}"
        return f"vcf: read-back differs from what was written; {sh}"


# ----------------------------------------------------------------------------
# the names as text


PRINTABLE = [chr(c) for c in range(33, 127)]
NAME_RESERVED = ["IID", "#IID", "FID", "#FID", "#IIDx", "CHROM", "#CHROM", "##x", "NA", "None", "nan", "0", "-9", "GT",
                 "ID", "POS", "sample", "."]
CONTIG_FIRST = "0123456789ABCDEFGHIJKLMNOPQRSTUVWXYZabcdefghijklmnopqrstuvwxyz"
CONTIG_REST = CONTIG_FIRST + "._-*:+|~@"
BASES = "ACGTN"
SYMBOLIC = ["*", "<DEL>", "<INS>", "<CN2>", "<NON_REF>", "<DUP:TANDEM>"]


def rand_str(rng, alphabet, lo, hi):
    k = int(rng.integers(lo, hi + 1))
    return "".join(alphabet[int(i)] for i in rng.integers(0, len(alphabet), size=k))


def gen_name(rng, maxlen=None, forbid=()):
    """A sample name / variant ID: one of the unusual-but-legal families."""
    fam = int(rng.integers(0, 12))
    if fam == 0:
        s = rand_str(rng, "0123456789", 1, 8)                         # digits only
    elif fam == 1:
        s = rand_str(rng, "_ab1", 1, 6) if rng.random() < 0.7 else "_" * int(rng.integers(1, 4))
    elif fam == 2:
        s = rand_str(rng, ".ab1", 2, 6) if rng.random() < 0.7 else "." * int(rng.integers(2, 4))
    elif fam == 3:
        s = rand_str(rng, "abcdefghij0123456789_", 60, 300)            # very long
    elif fam == 4:
        a, b = rand_str(rng, "ab1", 0, 3), rand_str(rng, "ab1#", 0, 3)
        s = a + "#" + b                                                # '#' inside or in front
    elif fam == 5:
        s = NAME_RESERVED[int(rng.integers(0, len(NAME_RESERVED)))]
    elif fam == 6:
        s = '"' + rand_str(rng, 'ab1"', 0, 3)                          # begins with a double quote
    elif fam == 7:
        s = rand_str(rng, ["é", "名", "ß", "a", "1", "β"], 1, 5)   # non-ASCII letters
    elif fam in (8, 9):
        s = rand_str(rng, PRINTABLE, 1, 12)                            # any printable ASCII
    else:
        s = "s" + rand_str(rng, "0123456789", 1, 3)                    # ordinary
    if maxlen is not None:
        if len(s) > maxlen or (fam == 3 and rng.random() < 0.6):
            s = (s * (maxlen // max(len(s), 1) + 1))[:maxlen]          # exactly the width of the field
    if s in forbid or not s:
        s = "x" + s.replace(".", "d")
    return s[:maxlen] if maxlen is not None else s


def gen_contig(rng):
    r = rng.random()
    if r < 0.3:
        return str(int(rng.integers(1, 23)))
    if r < 0.45:
        return "chr" + str(int(rng.integers(1, 23)))
    if r < 0.55:
        return rand_str(rng, CONTIG_FIRST, 1, 1) + rand_str(rng, CONTIG_REST, 9, 9)     # exactly 10 characters
    return rand_str(rng, CONTIG_FIRST, 1, 1) + rand_str(rng, CONTIG_REST, 0, 8)


def gen_alleles(rng):
    na = int(rng.choice([2, 2, 2, 3, 4, 6]))
    ref = rand_str(rng, BASES, 1, 1) if rng.random() < 0.6 else rand_str(rng, BASES + "acgtn", 2, 8)
    if rng.random() < 0.05:
        ref = rand_str(rng, BASES, 100, 250)
    out = [ref]
    while len(out) < na:
        r = rng.random()
        a = SYMBOLIC[int(rng.integers(0, len(SYMBOLIC)))] if r < 0.15 else rand_str(rng, BASES + "acgtn", 1, 10)
        if a not in out:
            out.append(a)
    return out


def gen_text_case(rng):
    target = str(rng.choice(["pgen", "pgen", "vcf", "vcf.gz", "bcf"]))
    n = int(rng.choice([0, 1, 2, 3, 4])) if rng.random() < 0.9 else 6
    p = int(rng.choice([0, 1, 2, 3])) if rng.random() < 0.9 else 5
    if target == "pgen" and n == 0 and p > 0:
        n = 1                                   # refused by the writer: nothing to read (pgen relation)
    samples = []
    while len(samples) < n:
        s = gen_name(rng)
        if s not in samples:
            samples.append(s)
    variants, calls = [], []
    ids = []
    for j in range(p):
        vid = gen_name(rng, maxlen=50, forbid=(".",))
        while vid in ids:
            vid = gen_name(rng, maxlen=50, forbid=(".",))
        if any(ch in vid for ch in " \t"):
            vid = vid.replace(" ", "_")
        ids.append(vid)
        alleles = gen_alleles(rng)
        pos = int(rng.integers(1, 1000)) if rng.random() < 0.8 else int(rng.choice([1, 2 ** 31 - 2, 10 ** 9, 536870912, 99999999]))
        pos = min(pos, 2 ** 31 - len(alleles[0]))     # htslib: the last base of REF lies at or below 2^31 - 1
        variants.append([vid, gen_contig(rng), pos, alleles])
        row = []
        for s in range(n):
            a = None if rng.random() < 0.15 else int(rng.integers(0, len(alleles)))
            b = None if rng.random() < 0.15 else int(rng.integers(0, len(alleles)))
            if target == "pgen" and (a is None) != (b is None):
                a = b = None                     # PGEN cannot hold a half-missing call
            row.append([a, b, bool(rng.random() < 0.5)])
        calls.append(row)
    return {"target": target, "samples": samples, "variants": variants, "calls": calls}


def text_to_obj_input(inp):
    """the text case as an input of build_obj (rows variant-major, 3 planes)"""
    rows = [[[255 if c[0] is None else c[0], 255 if c[1] is None else c[1], 1 if c[2] else 0] for c in row]
            for row in inp["calls"]]
    return {"samples": inp["samples"], "variants": inp["variants"], "rows": rows, "planes": 3}


def pysam_view(path):
    d = pysam_dump(path)
    return {"samples": d["samples"], "recs": d["recs"]}


class Text(Relation):
    name = "text"
    coq_module = "C07_Check"
    coq_check = "check_text"
    coq_case_type = "tcase"
    coq_model = "model_text"
    coq_imports = ["BpText", "C07_Text", "C07_Files", "C07_Model"]
    budget = {"quick": 140, "thorough": 2500}
    max_cases_per_shard = 60
    max_chars_per_shard = 60_000
    anchors = [
        ("haptools/data/genotypes.py", "GenotypesPLINK.write_samples"),
        ("haptools/data/genotypes.py", "GenotypesPLINK.write_variants"),
        ("haptools/data/genotypes.py", "GenotypesPLINK.read_samples"),
        ("haptools/data/genotypes.py", "GenotypesPLINK._iterate_variants"),
        ("haptools/data/genotypes.py", "GenotypesPLINK._variant_arr"),
        ("haptools/data/genotypes.py", "GenotypesVCF.write"),
        ("haptools/data/genotypes.py", "GenotypesVCF._variant_arr"),
    ]

    def generate(self, rng, n, tier):
        return [gen_text_case(rng) for _ in range(n)]

    def exhaustive(self, tier):
        # every reserved / boundary name once as the only sample and once as the only variant ID, per target
        out = []
        names = NAME_RESERVED + ["123", "_", "a.b", "a#b", "#a", '"q', 'q"r', '"', "a b", "x" * 300, "é名"]
        for target in ("pgen", "vcf", "bcf"):
            for nm in names:
                out.append({"target": target, "samples": [nm, "zz"], "variants": [["v1", "1", 10, ["A", "C"]]],
                            "calls": [[[0, 1, True], [None, None, False]]]})
                if nm != "." and " " not in nm:
                    out.append({"target": target, "samples": ["s"], "variants": [[nm[:50], "1", 10, ["A", "C"]], ["zz", "1", 20, ["G", "T"]]],
                                "calls": [[[0, 1, True]], [[1, 1, False]]]})
        return out

    def run_impl(self, inp):
        from pathlib import Path
        from haptools.data import GenotypesVCF, GenotypesPLINK
        from haptools.logging import getLogger

        d = tempfile.mkdtemp(prefix="hv_c07_")
        try:
            target = inp["target"]
            cls = GenotypesPLINK if target == "pgen" else GenotypesVCF
            path = os.path.join(d, "x." + target)
            oi = text_to_obj_input(inp)
            g = build_obj(cls, path, oi)
            # what the object holds before anything is written (the record type cuts long strings)
            held = [[str(v["id"]), str(v["chrom"]), int(v["pos"]), [str(a) for a in v["alleles"]]] for v in g.variants]
            out = {"held": held}
            try:
                g.write()
            except Exception as e:  # noqa
                out["write_err"] = {"err": err_kind(e), "cls": type(e).__name__, "msg": str(e)[:160]}
                return out
            rd = lambda p: open(p, "rb").read().decode("utf-8")
            if target == "pgen":
                out["text1"] = rd(os.path.join(d, "x.psam"))
                out["text2"] = rd(os.path.join(d, "x.pvar"))
            else:
                if target == "vcf":
                    out["text1"] = rd(path)
                elif target == "vcf.gz":
                    out["text1"] = gzip.decompress(open(path, "rb").read()).decode("utf-8")
                try:
                    out["view"] = {"ok": pysam_view(path)}
                except Exception as e:  # noqa
                    out["view"] = {"err": err_kind(e), "cls": type(e).__name__, "msg": str(e)[:160]}
            try:
                r = cls(Path(path), log=getLogger("hv", "CRITICAL"))
                r.read()
                out["back"] = {"ok": dump_obj(r)}
            except Exception as e:  # noqa
                out["back"] = {"err": err_kind(e), "cls": type(e).__name__, "msg": str(e)[:160]}
            return out
        finally:
            shutil.rmtree(d, ignore_errors=True)

    @staticmethod
    def tv(v):
        return f"(mktv {L.chars(v[0])} {L.chars(v[1])} {L.z(v[2])} {L.lst(v[3], L.chars)})"

    def encode(self, inp, obs):
        vc = lambda c: f"({L.opt(c[0], L.z)}, {L.opt(c[1], L.z)}, {L.b(c[2])})"
        rec = lambda vr: f"({self.tv(vr[0])}, {L.lst(vr[1], vc)})"
        tfile = lambda samples, recs: f"(mktf {L.lst(samples, L.chars)} {L.lst(recs, rec)})"
        f = tfile(inp["samples"], list(zip(inp["variants"], inp["calls"])))
        target = {"pgen": 0, "vcf": 1, "vcf.gz": 1, "bcf": 2}[inp["target"]]
        none = "(Err 0)"
        if not isinstance(obs, dict) or "held" not in obs:
            k = oerr(obs)
            return f"(mktc {target} false {f} (Err {k}) (Err {k}) (Err {k}) (Err {k}))"
        if obs["held"] != inp["variants"]:
            # the generator must only produce what the record type holds unchanged
            return f"(mktc {target} false {f} (Err 97) (Err 97) (Err 97) (Err 97))"
        if "write_err" in obs:
            k = obs["write_err"]["err"]
            return f"(mktc {target} false {f} (Err {k}) (Err {k}) (Err {k}) (Err {k}))"
        t1 = f"(Ok {L.chars(obs['text1'])})" if "text1" in obs else none
        t2 = f"(Ok {L.chars(obs['text2'])})" if "text2" in obs else none
        view = none
        if "view" in obs:
            view = L.res(obs["view"], lambda v: tfile(v["samples"], v["recs"]))
        if "err" in obs["back"]:
            back = f"(Err {L.z(obs['back']['err'])})"
        else:
            b = obs["back"]["ok"]
            call = lambda c: f"({L.z(c[0])}, {L.z(c[1])}, {L.z(c[2])})"
            back = (f"(Ok (mktb {L.lst(b['samples'], L.chars)} {L.lst(b['variants'], self.tv)} "
                    f"{L.lst(b['rows'], lambda r: L.lst(r, call))}))")
        return f"(mktc {target} false {f} {t1} {t2} {view} {back})"

    def nontrivial(self, inp, obs):
        names = list(inp["samples"]) + [v[0] for v in inp["variants"]] + [v[1] for v in inp["variants"]]
        return any(not nm.isalnum() or not nm.isascii() for nm in names)

    def classes(self, inp, obs):
        out = [f"target={inp['target']}", shape_class(inp)]
        names = list(inp["samples"]) + [v[0] for v in inp["variants"]]
        if any(nm.isdigit() for nm in names):
            out.append("name:digits-only")
        if any("_" in nm for nm in names):
            out.append("name:underscore")
        if any("." in nm for nm in names):
            out.append("name:dot")
        if any("#" in nm for nm in names):
            out.append("name:hash")
        if any(nm.startswith('"') for nm in names):
            out.append("name:leading-quote")
        if any(nm in NAME_RESERVED for nm in names):
            out.append("name:reserved-word")
        if any(len(nm) >= 60 for nm in inp["samples"]):
            out.append("name:very-long-sample")
        if any(len(v[0]) == 50 for v in inp["variants"]):
            out.append("name:id-50-chars")
        if any(len(v[1]) == 10 for v in inp["variants"]):
            out.append("name:contig-10-chars")
        if any(not nm.isascii() for nm in names):
            out.append("name:non-ascii")
        if any(a.startswith("<") or a == "*" for v in inp["variants"] for a in v[3]):
            out.append("allele:symbolic")
        if any(len(a) >= 100 for v in inp["variants"] for a in v[3]):
            out.append("allele:very-long")
        if any(v[2] > 10 ** 8 for v in inp["variants"]):
            out.append("pos:large")
        return out

    def shrink(self, inp):
        n, p = len(inp["samples"]), len(inp["variants"])
        for j in range(p):
            yield dict(inp, variants=inp["variants"][:j] + inp["variants"][j + 1:], calls=inp["calls"][:j] + inp["calls"][j + 1:])
        for s in range(n):
            if not (inp["target"] == "pgen" and n == 1 and p):
                yield dict(inp, samples=inp["samples"][:s] + inp["samples"][s + 1:],
                           calls=[r[:s] + r[s + 1:] for r in inp["calls"]])
        for s in range(n):
            nm = inp["samples"][s]
            for new in (f"s{s}", nm[:len(nm) // 2], nm[1:]):
                if new and new != nm and new not in inp["samples"]:
                    yield dict(inp, samples=inp["samples"][:s] + [new] + inp["samples"][s + 1:])
        for j in range(p):
            v = inp["variants"][j]
            for new in ([f"v{j}", v[1], v[2], v[3]], [v[0], "1", v[2], v[3]], [v[0], v[1], 10 + j, v[3]],
                        [v[0], v[1], v[2], ["A", "C"][:max(2, 0)] + ["G", "T", "N", "AA", "CC", "GG"][:len(v[3]) - 2]],
                        [v[0][:len(v[0]) // 2], v[1], v[2], v[3]]):
                if new != v and new[0]:
                    yield dict(inp, variants=inp["variants"][:j] + [new] + inp["variants"][j + 1:])
        if inp["target"] in ("vcf.gz", "bcf"):
            yield dict(inp, target="vcf")

    def mutate(self, inp, rng):
        for target in ("pgen", "vcf", "vcf.gz", "bcf"):
            if target != inp["target"]:
                c = dict(inp, target=target)
                if target == "pgen":
                    if not c["samples"] and c["variants"]:
                        continue
                    c["calls"] = [[[None, None, x[2]] if (x[0] is None) != (x[1] is None) else x for x in r] for r in c["calls"]]
                yield c

    def signature(self, inp, obs):
        t = "PGEN (.psam/.pvar)" if inp["target"] == "pgen" else inp["target"]
        names = list(inp["samples"]) + [v[0] for v in inp["variants"]]
        q = any(nm.startswith('"') for nm in names)
        if not isinstance(obs, dict) or "held" not in obs:
            return f"text: interpreter crash/timeout writing or reading {t}"
        if "write_err" in obs:
            return f"text: writing {t} raised {obs['write_err'].get('cls')}; leading-quote={q}"
        sym = any(a.startswith("<") for v in inp["variants"] for a in v[3])
        if "err" in obs.get("back", {}):
            return (f"text: reading {t} raised {obs['back'].get('cls')}; leading-quote={q} symbolic-allele={sym} "
                    f"{shape_class(inp)}")
        b = obs["back"]["ok"]
        what = []
        if b["samples"] != inp["samples"]:
            what.append("samples")
        if b["variants"] != inp["variants"]:
            what.append("variants")
        return f"text: {'/'.join(what) or 'calls'} read back from {t} differ; leading-quote={q}"


RELATIONS = [Pgen(), Vcf(), Text()]

LEVEL_TEXT = (
    "Coq theorems, for every matrix size (0 samples or 0 variants included), every allele/missing/phase pattern in the "
    "property's domain and every write and read chunk size >= 1, about a Gallina model of GenotypesPLINK.write/read and "
    "GenotypesVCF.write/Genotypes.read at the library boundary (chunking irrelevance, the writer's allele-count "
    "precondition, PGEN and VCF round trips, independence of the VCF read from format and index, the shapes without "
    "entries, the refusal of half-missing calls by PGEN) under stated contracts of pgenlib, pysam/cyvcf2 and htslib, "
    "and about a character-level model of the .psam/.pvar/.vcf text (every list of sample names, every variant's ID, "
    "contig, position and alleles, every GT token is read back as written). The models are tied to /repo on every "
    "run: the calls haptools makes to pgenlib.PgenWriter are recorded and compared, the written files are read "
    "independently with pgenlib and pysam and as text, and the object haptools reads back is compared with the model "
    "and checked against the property inside Coq."
)
LEVEL_NOTE = (
    "Partial: the binary encodings of htslib (bgzip, BCF) and pgenlib are contracts (Section hypotheses, each "
    "validated against the real library on every run), not theorems; the text of .psam/.pvar/.vcf is modelled down to "
    "characters. A call missing in one allele only cannot be stored in PGEN and variants without samples neither: both "
    "are refusals in the model and outside the round-trip demand for PGEN (see assumptions)."
)
TECHNIQUE = ("Coq proof by induction on chunked lists, token lists and decimal numerals + vm_compute-evaluated "
             "correspondence against haptools, pgenlib, pysam, cyvcf2 and the written text")
