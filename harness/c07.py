"""C07 - genotypes written to VCF/BCF or PGEN read back unchanged.

Relations
  pgen : GenotypesPLINK.write (chunk cw) with a recorder around pgenlib.PgenWriter,
         then GenotypesPLINK.read (chunk cr) by haptools
  vcf  : GenotypesVCF.write to .vcf / .vcf.gz (+-tbi) / .bcf (+-csi), the file
         inspected with pysam.VariantFile directly, then Genotypes.read by haptools
"""
import os
import shutil
import tempfile

import numpy as np

from . import coqlit as L
from .core import Relation, err_kind

PROP = "C07"
CLAIMED = True
COQ_MODULES = ["C07_Check", "C07_Proofs"]
PROPERTY_MODULE = "C07_Property"
ALLOWED_AXIOMS = []
RULE = (
    "matrices of 1-6 samples x 0-7 variants on 1-3 contigs, 2-5 alleles per variant, codes drawn from an arbitrary "
    "non-empty subset of each variant's alleles (so unobserved middle alleles and single-allele columns occur), "
    "missing calls in any pattern (half-missing for VCF), phased/unphased/mixed, 2- and 3-plane arrays, the _prephased "
    "attribute set on the writing or reading object in about 10% of the cases; chunk sizes "
    "None,1..p+1 independently for write and read; .vcf, .vcf.gz, .bcf with and without index. Non-trivial = at least "
    "one variant and one call that is heterozygous or missing. Distinct = distinct canonical JSON."
)
TRUSTED = [
    "pgenlib: a batch is accepted iff every declared allele count <= allele_ct_limit and every call is missing in both "
    "alleles or has both codes < its allele count; a stored call reads back with the same alleles, unordered when "
    "heterozygous and unphased (Section variable pload, contract pload_contract; exercised on every run)",
    "pysam/cyvcf2: a GT tuple and phased flag written with pysam read back unchanged with cyvcf2, missing = -1 "
    "(Section variable vload, contract vload_contract; exercised on every run, the file is also read with pysam)",
    "harness transposes haptools' sample-major array to the model's variant-major rows (numpy.transpose)",
    "strings are interned to integers per case (they are only compared)",
]
ASSUMPTIONS = [
    "domain of the theorems and of holds: >= 1 sample, every variant has 2..255 alleles, every allele index is within "
    "the variant's allele list or 255 (missing), chunk sizes >= 1 or None",
    "PGEN: a call missing in one allele only is outside the domain (pgenlib rejects it with RuntimeError); "
    "the check compares the exception kind (agree) and does not count it as a violation",
]

ALPH = ["A", "C", "G", "T", "AC", "GT", "ACG", "TTA", "CA", "G"]

# Switch for the integrator: pgenlib cannot store a call that is missing in one allele only
# (GenotypesPLINK.write raises RuntimeError). False = such inputs are outside the domain that holds
# checks (agree still compares the exception kind); True = holds demands the round trip for them too,
# the failures then carry "half-missing=True" in their signature (candidate known finding).
STRICT_PGEN_HALF_MISSING = False


# ----------------------------------------------------------------------------
# building / dumping haptools objects


def build_obj(cls, path, inp, **kw):
    """A haptools Genotypes* object holding the input matrix (rows are variant-major)."""
    from pathlib import Path
    from haptools.logging import getLogger

    g = cls(Path(path), log=getLogger("hv", "CRITICAL"), **kw)
    g.samples = tuple(inp["samples"])
    g.variants = np.array(
        [(v[0], v[1], v[2], tuple(v[3])) for v in inp["variants"]],
        dtype=g.variants.dtype,
    )
    n, p, k = len(inp["samples"]), len(inp["variants"]), inp.get("planes", 3)
    arr = np.array(inp["rows"], dtype=np.uint8).reshape((p, n, 3))[:, :, :k]
    g.data = np.ascontiguousarray(arr.transpose((1, 0, 2)))
    g._prephased = bool(inp.get("wpre", False))
    return g


def dump_obj(r):
    """Observable state of a haptools Genotypes* object (rows variant-major)."""
    data = r.data
    shape = [int(x) for x in data.shape]
    rows = []
    if data.ndim == 3:
        rows = np.asarray(data).astype(np.int64).transpose((1, 0, 2)).tolist()
    vs = []
    names = r.variants.dtype.names
    for v in r.variants:
        al = [str(a) for a in v["alleles"]] if "alleles" in names else []
        vs.append([str(v["id"]), str(v["chrom"]), int(v["pos"]), al])
    return {"samples": [str(s) for s in r.samples], "variants": vs, "rows": rows, "shape": shape}


# ----------------------------------------------------------------------------
# Gallina literals


class Enc:
    """Per-case interning of strings + geno literals."""

    def __init__(self):
        self.i = L.Interner()

    def s(self, x):
        return L.z(self.i(("s", x)))

    def variant(self, v):
        al = list(v[3])
        return (f"(mkvar {L.z(self.i(('id', v[0])))} {L.z(self.i(('chrom', v[1])))} {L.z(v[2])} "
                f"{L.lst(al, lambda a: L.z(self.i(('al', a))))} {L.z(len(al[0]) if al else 0)})")

    def call(self, c):
        ph = c[2] if len(c) > 2 else 1
        return f"({L.z(c[0])}, {L.z(c[1])}, {L.z(ph)})"

    def geno(self, samples, variants, rows, shape):
        return (f"(mkg {L.lst(samples, self.s)} {L.lst(variants, self.variant)} "
                f"{L.lst(rows, lambda r: L.lst(r, self.call))} {L.zl(shape)})")

    def geno_in(self, inp):
        n, p, k = len(inp["samples"]), len(inp["variants"]), inp.get("planes", 3)
        rows = inp["rows"] if k >= 3 else [[c[:2] for c in r] for r in inp["rows"]]   # 2 planes: no phase plane
        return self.geno(inp["samples"], inp["variants"], rows, [n, p, k])

    def geno_obs(self, o):
        return self.geno(o["samples"], o["variants"], o["rows"], o["shape"])

    def rgeno(self, x):
        return L.res(x, self.geno_obs)


def oerr(obs):
    """error kind of a run the worker could not finish (crash / timeout / uncaught)"""
    return int(obs.get("kind", 99)) if isinstance(obs, dict) else 99


# ----------------------------------------------------------------------------
# generators


def gen_matrix(rng, half_ok, pmax=7, nmax=6, pmin=0):
    n = int(rng.integers(1, nmax + 1))
    p = int(rng.integers(pmin, pmax + 1))
    if rng.random() < 0.06:
        p = 0
    samples = [f"s{j}" for j in rng.permutation(9)[:n].tolist()]
    contigs = [str(c) for c in sorted(rng.choice([1, 2, 3, 7, 10], size=int(rng.integers(1, 4)), replace=False).tolist())]
    if rng.random() < 0.2:
        contigs = ["chr" + c for c in contigs]
    cidx = sorted(rng.integers(0, len(contigs), size=p).tolist())
    ids = [f"v{j}" for j in rng.permutation(20)[:p].tolist()]
    variants, rows = [], []
    pos = 0
    mode = rng.choice(["phased", "unphased", "mixed"])
    missmode = rng.choice(["none", "some", "some", "many"])
    for j in range(p):
        if j and cidx[j] != cidx[j - 1]:
            pos = 0
        pos += int(rng.integers(0 if j and cidx[j] == cidx[j - 1] and rng.random() < 0.1 else 1, 40))
        pos = max(pos, 1)
        na = int(rng.choice([2, 2, 2, 3, 3, 4, 5]))
        al = rng.permutation(len(ALPH))[:na].tolist()
        alleles = []
        for a in al:
            s = ALPH[a]
            while s in alleles:
                s = s + "T"
            alleles.append(s)
        if rng.random() < 0.8:
            alleles[0] = alleles[0][0] if alleles[0][0] not in alleles[1:] else alleles[0]
        # the alleles that are actually observed: any non-empty subset
        k = int(rng.integers(1, na + 1))
        seen = sorted(rng.choice(na, size=k, replace=False).tolist())
        row = []
        for s in range(n):
            a, b = int(rng.choice(seen)), int(rng.choice(seen))
            ph = 1 if mode == "phased" else 0 if mode == "unphased" else int(rng.integers(0, 2))
            r = rng.random()
            pm = {"none": 0.0, "some": 0.15, "many": 0.6}[missmode]
            if r < pm:
                if half_ok and rng.random() < 0.3:
                    if rng.random() < 0.5:
                        a = 255
                    else:
                        b = 255
                else:
                    a = b = 255
            row.append([a, b, ph])
        variants.append([ids[j], contigs[cidx[j]], pos, alleles])
        rows.append(row)
    planes = 2 if (mode == "phased" and rng.random() < 0.3) else 3
    if planes == 2:
        rows = [[[c[0], c[1], 1] for c in r] for r in rows]
    return {"samples": samples, "variants": variants, "rows": rows, "planes": planes}


def chunk_choice(rng, p):
    r = rng.random()
    if r < 0.2:
        return None
    return int(rng.integers(1, p + 3))


def features(inp):
    out = []
    p = len(inp["variants"])
    if p == 0:
        out.append("p=0")
    half = full = gap = False
    for v, row in zip(inp["variants"], inp["rows"]):
        na = len(v[3])
        vals = set()
        for c in row:
            if (c[0] == 255) != (c[1] == 255):
                half = True
            elif c[0] == 255:
                full = True
            vals |= {c[0], c[1]}
        nm = vals - {255}
        if nm and max(nm) + 1 > len(nm):
            gap = True      # some allele index below the largest observed one is carried by nobody
    if half:
        out.append("half-missing")
    if full:
        out.append("missing")
    if gap:
        out.append("unobserved-lower-allele")
    if any(255 in {c[0], c[1]} and len(v[3]) == 2 for v, row in zip(inp["variants"], inp["rows"]) for c in row):
        out.append("missing-on-biallelic")
    if any(c[0] != c[1] and c[2] == 0 for row in inp["rows"] for c in row):
        out.append("unphased-het")
    if any(c[0] != c[1] and c[2] == 1 for row in inp["rows"] for c in row):
        out.append("phased-het")
    if inp.get("planes", 3) == 2:
        out.append("2-planes")
    if len({v[1] for v in inp["variants"]}) > 1:
        out.append("multi-contig")
    if any(len(v[3]) > 2 for v in inp["variants"]):
        out.append("multiallelic")
    return out


def nontrivial_matrix(inp):
    return bool(inp["variants"]) and any(c[0] != c[1] or c[0] == 255 for row in inp["rows"] for c in row)


def shrink_matrix(inp):
    p, n = len(inp["variants"]), len(inp["samples"])
    for j in range(p):
        yield dict(inp, variants=inp["variants"][:j] + inp["variants"][j + 1:], rows=inp["rows"][:j] + inp["rows"][j + 1:])
    if n > 1:
        for s in range(n):
            yield dict(inp, samples=inp["samples"][:s] + inp["samples"][s + 1:],
                       rows=[r[:s] + r[s + 1:] for r in inp["rows"]])
    for j in range(p):
        for s in range(n):
            c = inp["rows"][j][s]
            for new in ([0, 0, 1], [c[0], c[0], c[2]], [c[0], c[1], 1]):
                if new != c and not (new[0] == 255):
                    rows = [list(map(list, r)) for r in inp["rows"]]
                    rows[j][s] = new
                    yield dict(inp, rows=rows)
    for j in range(p):
        v = inp["variants"][j]
        mx = max([x for c in inp["rows"][j] for x in c[:2] if x != 255] + [1])
        if len(v[3]) > mx + 1:
            vs = list(inp["variants"])
            vs[j] = [v[0], v[1], v[2], v[3][:mx + 1]]
            yield dict(inp, variants=vs)


# ----------------------------------------------------------------------------
# recorder around pgenlib.PgenWriter


class WriterRecorder:
    def __init__(self):
        import pgenlib

        self.pgenlib = pgenlib
        self.real = pgenlib.PgenWriter
        self.limit = 0
        self.batches = []
        self.unobserved = None
        rec = self

        class W:
            def __init__(self, *a, **kw):
                if a or set(kw) - {"filename", "sample_ct", "variant_ct", "allele_ct_limit", "nonref_flags",
                                   "hardcall_phase_present"}:
                    rec.unobserved = "PgenWriter called with unexpected arguments"
                rec.limit = int(kw.get("allele_ct_limit", 2))
                rec.sample_ct = int(kw.get("sample_ct", 0))
                self.w = rec.real(*a, **kw)

            def __enter__(self):
                self.w.__enter__()
                return self

            def __exit__(self, *a):
                return self.w.__exit__(*a)

            def close(self):
                return self.w.close()

            def append_alleles_batch(self, arr, all_phased=False, allele_cts=None):
                if not all_phased or allele_cts is None:
                    rec.unobserved = "append_alleles_batch without all_phased/allele_cts"
                rec.batches.append({"codes": np.array(arr).tolist(), "cts": [int(x) for x in (allele_cts if allele_cts is not None else [])],
                                    "phase": None})
                return self.w.append_alleles_batch(arr, all_phased=all_phased, allele_cts=allele_cts)

            def append_partially_phased_batch(self, arr, phase, allele_cts=None):
                if allele_cts is None:
                    rec.unobserved = "append_partially_phased_batch without allele_cts"
                rec.batches.append({"codes": np.array(arr).tolist(), "cts": [int(x) for x in (allele_cts if allele_cts is not None else [])],
                                    "phase": np.array(phase).astype(np.int64).tolist()})
                return self.w.append_partially_phased_batch(arr, phase, allele_cts=allele_cts)

            def __getattr__(self, name):
                rec.unobserved = f"PgenWriter.{name} used"
                return getattr(self.w, name)

        pgenlib.PgenWriter = W

    def close(self):
        self.pgenlib.PgenWriter = self.real


def batch_term(b):
    pairs = lambda row: L.lst([(row[i], row[i + 1]) for i in range(0, len(row) - 1, 2)], lambda xy: f"({L.z(xy[0])}, {L.z(xy[1])})")
    ph = "None" if b["phase"] is None else f"(Some {L.lst(b['phase'], L.zl)})"
    return f"(mkb {L.lst(b['codes'], pairs)} {L.zl(b['cts'])} {ph})"


class Pgen(Relation):
    name = "pgen"
    coq_module = "C07_Check"
    coq_check = "check_pgen"
    coq_case_type = "pcase"
    coq_model = "model_pgen"
    coq_imports = ["C07_Model"]
    budget = {"quick": 350, "thorough": 5000}
    anchors = [
        ("haptools/data/genotypes.py", "GenotypesPLINK.write"),
        ("haptools/data/genotypes.py", "GenotypesPLINK._num_unique_alleles"),
        ("haptools/data/genotypes.py", "GenotypesPLINK.write_variants"),
        ("haptools/data/genotypes.py", "GenotypesPLINK.write_samples"),
        ("haptools/data/genotypes.py", "GenotypesPLINK.read"),
        ("haptools/data/genotypes.py", "GenotypesPLINK.read_variants"),
        ("haptools/data/genotypes.py", "GenotypesPLINK.read_samples"),
        ("haptools/data/genotypes.py", "GenotypesPLINK._iterate_variants"),
    ]

    def generate(self, rng, n, tier):
        out = []
        for i in range(n):
            m = gen_matrix(rng, half_ok=(rng.random() < 0.08))
            p = len(m["variants"])
            m["cw"] = chunk_choice(rng, p)
            m["cr"] = chunk_choice(rng, p)
            if rng.random() < 0.02:
                m["cw" if rng.random() < 0.5 else "cr"] = 0      # malformed: chunk_size = 0
            m["wpre"] = bool(rng.random() < 0.1)                 # _prephased on the writing object
            m["rpre"] = bool(rng.random() < 0.12)                # _prephased on the reading object
            out.append(m)
        return out

    def exhaustive(self, tier):
        # all chunk sizes 1..p+1 (and None) independently for write and read, p <= 5
        rng = np.random.default_rng(77)
        out = []
        for p in range(0, 6):
            m = None
            while m is None or len(m["variants"]) != p:
                m = gen_matrix(rng, half_ok=False, pmax=p, pmin=p, nmax=3)
            for cw in [None] + list(range(1, p + 2)):
                for cr in [None] + list(range(1, p + 2)):
                    out.append(dict(m, cw=cw, cr=cr))
        return out

    def run_impl(self, inp):
        from haptools.data import GenotypesPLINK
        from haptools.logging import getLogger

        d = tempfile.mkdtemp(prefix="hv_c07_")
        try:
            path = os.path.join(d, "x.pgen")
            g = build_obj(GenotypesPLINK, path, inp, chunk_size=inp["cw"])
            rec = WriterRecorder()
            try:
                g.write()
                calls = {"ok": {"limit": rec.limit, "batches": rec.batches}}
            except Exception as e:  # noqa
                calls = {"err": err_kind(e), "cls": type(e).__name__, "msg": str(e)[:160]}
            finally:
                rec.close()
            if rec.unobserved:
                return {"unobserved": rec.unobserved}
            if "err" in calls:
                return {"calls": calls, "back": {"err": calls["err"]}}
            try:
                from pathlib import Path

                r = GenotypesPLINK(Path(path), log=getLogger("hv", "CRITICAL"), chunk_size=inp["cr"])
                r._prephased = bool(inp.get("rpre", False))
                r.read()
                back = {"ok": dump_obj(r)}
            except Exception as e:  # noqa
                back = {"err": err_kind(e), "cls": type(e).__name__, "msg": str(e)[:160]}
            return {"calls": calls, "back": back}
        finally:
            shutil.rmtree(d, ignore_errors=True)

    def encode(self, inp, obs):
        E = Enc()
        g = E.geno_in(inp)
        if "unobserved" in obs:
            calls, back = "(Err 97)", "(Err 97)"
        elif "calls" not in obs:
            calls = back = f"(Err {oerr(obs)})"
        else:
            calls = L.res(obs["calls"], lambda c: f"({L.z(c['limit'])}, {L.lst(c['batches'], batch_term)})")
            back = E.rgeno(obs["back"])
        return (f"(mkpc {g} {L.opt(inp['cw'], L.z)} {L.opt(inp['cr'], L.z)} {L.b(STRICT_PGEN_HALF_MISSING)} "
                f"{L.b(inp.get('wpre', False))} {L.b(inp.get('rpre', False))} {calls} {back})")

    def nontrivial(self, inp, obs):
        return nontrivial_matrix(inp)

    def classes(self, inp, obs):
        p = len(inp["variants"])
        out = features(inp)
        for key in ("cw", "cr"):
            c = inp[key]
            out.append(f"{key}=" + ("None" if c is None else "0" if c == 0 else "1" if c == 1 else "p" if c == p else ">p" if c > p else "mid"))
        if inp.get("wpre"):
            out.append("writer-prephased")
        if inp.get("rpre"):
            out.append("reader-prephased")
        if isinstance(obs, dict) and "calls" in obs and "err" in obs["calls"]:
            out.append(f"write-err{obs['calls']['err']}")
        if isinstance(obs, dict) and "__crash__" in obs:
            out.append("crash")
        return out

    def shrink(self, inp):
        for key in ("cw", "cr"):
            if inp[key] is not None:
                yield dict(inp, **{key: None})
        for key in ("wpre", "rpre"):
            if inp.get(key):
                yield dict(inp, **{key: False})
        yield from shrink_matrix(inp)

    def mutate(self, inp, rng):
        p = len(inp["variants"])
        for cw in (None, 1, p, p + 1):
            for cr in (None, 1, p, p + 1):
                yield dict(inp, cw=cw, cr=cr)

    def signature(self, inp, obs):
        f = features(inp)
        if not isinstance(obs, dict) or "calls" not in obs:
            what = "interpreter crash/timeout in write+read"
        elif "err" in obs["calls"]:
            what = f"GenotypesPLINK.write raised {obs['calls'].get('cls')}"
        elif "err" in obs["back"]:
            what = f"GenotypesPLINK.read raised {obs['back'].get('cls')}"
        else:
            what = "PGEN read-back differs from what was written"
        return (f"pgen: {what}; missing-call={'missing' in f or 'half-missing' in f} "
                f"unobserved-lower-allele={'unobserved-lower-allele' in f} half-missing={'half-missing' in f}")


def pysam_dump(path):
    import pysam

    with pysam.VariantFile(path) as vf:
        samples = [str(s) for s in vf.header.samples]
        recs = []
        for rec in vf:
            calls = []
            for s in samples:
                c = rec.samples[s]
                gt = c["GT"]
                calls.append([None if x is None else int(x) for x in gt] + [bool(c.phased)])
            recs.append([[str(rec.id), str(rec.contig), int(rec.pos), [str(a) for a in rec.alleles]], calls])
    return {"samples": samples, "recs": recs}


def sorted_for_index(inp):
    seen, last, lastc = set(), 0, None
    for v in inp["variants"]:
        if v[1] != lastc:
            if v[1] in seen:
                return False
            seen.add(v[1])
            lastc, last = v[1], 0
        if v[2] < last:
            return False
        last = v[2]
    return True


class Vcf(Relation):
    name = "vcf"
    coq_module = "C07_Check"
    coq_check = "check_vcf"
    coq_case_type = "vcase"
    coq_model = "model_vcf"
    coq_imports = ["C07_Model"]
    budget = {"quick": 300, "thorough": 4000}
    anchors = [
        ("haptools/data/genotypes.py", "GenotypesVCF.write"),
        ("haptools/data/genotypes.py", "GenotypesVCF._variant_arr"),
        ("haptools/data/genotypes.py", "Genotypes.read"),
        ("haptools/data/genotypes.py", "Genotypes._iterate"),
        ("haptools/data/genotypes.py", "Genotypes._vcf_iter"),
        ("haptools/data/genotypes.py", "Genotypes._return_data"),
        ("haptools/data/genotypes.py", "Genotypes.__iter__"),
    ]

    def generate(self, rng, n, tier):
        out = []
        for i in range(n):
            m = gen_matrix(rng, half_ok=True)
            m["fmt"] = str(rng.choice(["vcf", "vcf.gz", "vcf.gz", "bcf", "bcf"]))
            m["index"] = bool(m["fmt"] != "vcf" and m["variants"] and sorted_for_index(m) and rng.random() < 0.5)
            m["wpre"] = bool(rng.random() < 0.1)
            m["rpre"] = bool(rng.random() < 0.12)
            out.append(m)
        return out

    def run_impl(self, inp):
        import pysam
        from pathlib import Path
        from haptools.data import GenotypesVCF
        from haptools.logging import getLogger

        d = tempfile.mkdtemp(prefix="hv_c07_")
        try:
            path = os.path.join(d, "x." + inp["fmt"])
            g = build_obj(GenotypesVCF, path, inp)
            try:
                g.write()
                if inp["index"]:
                    pysam.tabix_index(path, preset="bcf" if inp["fmt"] == "bcf" else "vcf", force=True)
                file = {"ok": pysam_dump(path)}
            except Exception as e:  # noqa
                file = {"err": err_kind(e), "cls": type(e).__name__, "msg": str(e)[:160]}
                return {"file": file, "back": {"err": file["err"]}}
            try:
                r = GenotypesVCF(Path(path), log=getLogger("hv", "CRITICAL"))
                r._prephased = bool(inp.get("rpre", False))
                r.read()
                back = {"ok": dump_obj(r)}
            except Exception as e:  # noqa
                back = {"err": err_kind(e), "cls": type(e).__name__, "msg": str(e)[:160]}
            return {"file": file, "back": back}
        finally:
            shutil.rmtree(d, ignore_errors=True)

    def encode(self, inp, obs):
        E = Enc()
        g = E.geno_in(inp)
        if "file" not in obs:
            file = back = f"(Err {oerr(obs)})"
        else:
            vc = lambda c: f"({L.opt(c[0], L.z)}, {L.opt(c[1], L.z)}, {L.b(c[2])})"
            rec = lambda r: f"({E.variant(r[0])}, {L.lst(r[1], vc)})"
            file = L.res(obs["file"], lambda f: f"(mkvf {L.lst(f['samples'], E.s)} {L.lst(f['recs'], rec)})")
            back = E.rgeno(obs["back"])
        return (f"(mkvc {g} {L.b(inp['index'])} {L.b(inp.get('wpre', False))} {L.b(inp.get('rpre', False))} "
                f"{file} {back})")

    def nontrivial(self, inp, obs):
        return nontrivial_matrix(inp)

    def classes(self, inp, obs):
        return (features(inp) + [f"fmt={inp['fmt']}", f"index={'y' if inp['index'] else 'n'}"]
                + (["writer-prephased"] if inp.get("wpre") else []) + (["reader-prephased"] if inp.get("rpre") else []))

    def shrink(self, inp):
        if inp["fmt"] != "vcf" and not inp["index"]:
            yield dict(inp, fmt="vcf")
        for key in ("wpre", "rpre"):
            if inp.get(key):
                yield dict(inp, **{key: False})
        for c in shrink_matrix(inp):
            if not inp["index"] or (c["variants"] and sorted_for_index(c)):
                yield c

    def mutate(self, inp, rng):
        for fmt in ("vcf", "vcf.gz", "bcf"):
            yield dict(inp, fmt=fmt, index=False)
            if fmt != "vcf" and inp["variants"] and sorted_for_index(inp):
                yield dict(inp, fmt=fmt, index=True)

    def signature(self, inp, obs):
        if not isinstance(obs, dict) or "back" not in obs:
            return "vcf: interpreter crash/timeout in write+read"
        if "err" in obs["back"]:
            return f"vcf: write/read raised {obs['back'].get('cls') or obs['file'].get('cls')}"
        b = obs["back"]["ok"]
        if inp["variants"] and not b["variants"]:
            return f"vcf: read of a file {'with' if inp['index'] else 'without'} index returned no variants"
        return "vcf: read-back differs from what was written"


RELATIONS = [Pgen(), Vcf()]

LEVEL_TEXT = (
    "Coq theorems, for every matrix size, every allele/missing/phase pattern in the property's domain and every write and "
    "read chunk size >= 1, about a Gallina model of GenotypesPLINK.write/read and GenotypesVCF.write/Genotypes.read at the "
    "library boundary (chunking irrelevance, the writer's allele-count precondition, PGEN and VCF round trips under stated "
    "contracts of pgenlib and pysam/cyvcf2). The model is tied to /repo on every run: the calls haptools makes to "
    "pgenlib.PgenWriter are recorded and compared, the written files are inspected with pysam, and the object haptools "
    "reads back is compared with the model and checked against the property inside Coq."
)
LEVEL_NOTE = (
    "Partial: byte-level behaviour of htslib (pysam, cyvcf2) and pgenlib is a contract (Section hypotheses exercised against "
    "the real libraries on every run), not a theorem; compression/index independence is established by the correspondence "
    "run over .vcf/.vcf.gz/.bcf with and without index, the model being format-agnostic. A call missing in one allele only "
    "cannot be stored in PGEN (pgenlib raises RuntimeError); it is outside the checked domain for PGEN."
)
TECHNIQUE = "Coq proof by induction on chunked lists + vm_compute-evaluated correspondence against haptools, pgenlib, pysam and cyvcf2"
