"""C07 - genotypes written to VCF/BCF or PGEN read back unchanged.

Relations
  pgen : GenotypesPLINK.write (chunk cw) with a recorder around pgenlib.PgenWriter, the written
         files read with pgenlib.PvarReader/PgenReader directly, then GenotypesPLINK.read
         (chunk cr) by haptools; shapes n x p, n x 0, 0 x p, 0 x 0
  vcf  : GenotypesVCF.write to .vcf / .vcf.gz (none, .tbi, .csi) / .bcf (none, .csi), the file
         inspected with pysam.VariantFile directly, then Genotypes.read by haptools without a
         region and with a whole contig as region; the same shapes
  every relation carries a width-boundary stream (allele indices around 127|128 and up to 254, 256+ and 65536+
         samples / variants, positions around 2^31 - 1)
  vcf_hist : a path with a past: a sequence of operations on ONE path - write (GenotypesVCF.write), index
         (.tbi / .csi), set the index's modification time later / earlier than the file's, remove the index,
         read - ending with a read without a region; an earlier write of a different matrix (fewer / more
         variants or samples, other contigs) leaves its index beside the file the last write produced.  The
         matrix read back must be the one last written.  (pgen: about 12% of the cases write one or two
         other matrices to the same three files first.)
  text : the names as characters: the .psam / .pvar text (PGEN) or the VCF text (.vcf, .vcf.gz
         decompressed) resp. pysam's view (.bcf) of samples, IDs, contigs, positions, alleles
         and GTs, and what haptools reads back; unusual but legal names
"""
import gzip
import os
import shutil
import tempfile

import numpy as np

from . import coqlit as L
from .core import Relation, err_kind

PROP = "C07"
CLAIMED = True
COQ_MODULES = ["C07_Check", "C07_ProofsText", "C07_Proofs", "C07_ProofsWide", "C07_Hist", "C07_ProofsHist"]
PROPERTY_MODULE = "C07_Property"
ALLOWED_AXIOMS = []
RULE = (
    "matrices of 0-6 samples x 0-7 variants (the shapes n x 0, 0 x p and 0 x 0 in about 15% of the cases) on 1-3 "
    "contigs, 2-5 alleles per variant and, in about 6% of the matrices and in a fixed stream present in every run, a "
    "repeat-like variant with 129, 130, 200, 254 or 255 alleles (ALT by formula) whose observed indices lie on both sides "
    "of 127|128 and reach 200, 253 and 254, the largest index beside the missing value 255 (256 alleles as a refusal "
    "outside the domain); codes drawn from an arbitrary non-empty subset of each variant's alleles (so "
    "unobserved middle alleles and single-allele columns occur), missing calls in any pattern (calls missing in one "
    "allele only for VCF, and in 8% of the PGEN cases to observe the refusal), phased/unphased/mixed, 2- and 3-plane "
    "arrays, the _prephased attribute set on the writing or reading object in about 10% of the cases; chunk sizes "
    "None,1..p+1 independently for write and read; .vcf, .vcf.gz without index / with .tbi / with .csi, .bcf without "
    "index / with .csi, read without a region and with a contig as region; names as text: sample names, variant IDs, "
    "contigs and alleles over printable ASCII and some non-ASCII letters - digits only, underscores, dots, '#' inside "
    "and in front, reserved words (IID, #IID, FID, CHROM, NA, None), a leading double quote, names of 60-300 "
    "characters, IDs of exactly 50 and contigs of exactly 10 characters, symbolic and long alleles, ALT columns of "
    "up to 254 alleles, positions up to 2^31-1. Width-boundary stream in every run (pgen and vcf): 127, 128, 255, 256, "
    "257 or 300 samples x 1-2 variants and as many variants x 1-2 samples with chunk sizes 127, 128, 255, 256, p-1, p, "
    "p+1, 1000 or 1001 samples x 1 variant and as many variants x 1 sample, one matrix with 32767..65537 samples and (pgen; vcf in the thorough tier) one with as many variants "
    "(thorough: all of these sizes), positions 32767|32768, 65535|65536, 2^24+1, 2^29-1|2^29, 2^31-4..2^31-1 inside "
    "the domain and 2^31, 2^31+1, 2^32-2, 2^32-1, 0 as refusals outside it (about 5% of the random matrices also carry "
    "one such position). "
    "Histories on one path (vcf_hist; pgen in about 12% of the cases): one to three earlier writes of another matrix "
    "to the same path - fewer / more variants (mostly a prefix of the matrix under test), fewer / more samples, other "
    "contigs, other calls, no variants, an unrelated matrix - each indexed (.tbi / .csi beside .vcf.gz, .csi beside "
    ".bcf) with probability 0.8 and read with probability 0.35, then the write under test without re-indexing (the "
    "stale index stays), then the index's modification time set later (30%) or earlier (20%) than the file's, or the "
    "file indexed again (10%), or the index removed (8%), then the read without a region; plain .vcf paths with "
    "earlier writes and reads only; two cases per run whose stale index declares 127|128, 255|256|257, 300 or "
    "1000|1001 records against a file with the neighbouring count. "
    "Non-trivial = at least one variant and one call that is heterozygous or missing (pgen, vcf); at least one "
    "name outside [A-Za-z0-9] (text); vcf_hist: the last matrix written is non-trivial and differs from an earlier one. Distinct = distinct canonical JSON."
)
TRUSTED = [
    "pgenlib.PgenWriter accepts a batch iff every declared allele count <= allele_ct_limit and every call is missing "
    "in both alleles or has both codes < its allele count (Section variable paccept; clauses paccept_complete / "
    "paccept_sound; checked on every run: contracts_pgen evaluates the precondition on the batches of every write "
    "that succeeded, and the model, which rejects exactly the other batches, is compared with the outcome)",
    "pgenlib.PgenReader: a stored call reads back with the same alleles, unordered when heterozygous and unphased "
    "(Section variable pload, contract pload_contract; validated directly on every run: the files haptools wrote are "
    "read with pgenlib.PvarReader/PgenReader, not through haptools, and every call is checked against the contract "
    "(pload_okb) and against the concrete instance pload_std; sample/variant/allele counts likewise)",
    "pysam/cyvcf2: a GT tuple and phased flag written with pysam read back unchanged with cyvcf2, missing = -1 "
    "(Section variable vload, contract vload_contract; exercised on every run, the file is also read with pysam; for "
    ".vcf/.vcf.gz the text of the GT tokens is observed and its parsing is a theorem)",
    "htslib: iterating a reader without a region yields every record whatever the format (.vcf, .vcf.gz, .bcf) and "
    "whether or not a .tbi/.csi lies beside the file; a region query without an index fails (record htslib with "
    "contracts hts_iter_contract / hts_region_contract; exercised on every run over all seven format/index "
    "combinations, region queries included)",
    "a path with a past (C07_Hist.disk / step): GenotypesVCF.write replaces the data file and touches nothing else "
    "(an index lying beside it stays), pysam.tabix_index(force=True) replaces the index by one of the file as it is "
    "now, and what that index declares is the number of records of the file it was built from, reported by cyvcf2 "
    "as VCF(path).num_records (observed at the end of every history and compared with the model's index_records: "
    "hc_claim); iterating without a region yields the records of the data file whatever the index declares and "
    "whether it is older or newer than the file (hts_iter_contract on the disk at the end of the history; htslib "
    "only prints a warning for an index older than the file)",
    "pysam writes a record as the tab-separated line CHROM POS ID REF ALT(comma-joined) QUAL FILTER INFO [GT ...] "
    "after ## lines and the #CHROM line (observed as text on every run for .pvar, .vcf, .vcf.gz; .bcf is binary: "
    "there pysam's view of the fields is compared)",
    "harness transposes haptools' sample-major array to the model's variant-major rows (numpy.transpose)",
    "pgen/vcf relations: strings are interned to integers per case (they are only compared); text relation: strings "
    "are lists of code points",
    "pysam converts start = pos - 1 and stop = pos + len(REF) - 1 (numpy uint32 arithmetic, wrapping modulo 2^32) to C "
    "ints and raises OverflowError beyond 2^31 - 1; pgenlib.PvarReader refuses position 2^31 - 1 and more than 254 ALT "
    "alleles with RuntimeError (C07_Model.write_guard; compared with the implementation on every run through the "
    "refusals of the boundary stream)",
    "harness: long regular lists in the case literals are written with zrange / rle / vrun (decoders in C07_Model.v, "
    "specified by C07_zrange_spec / C07_rle_spec / C07_vrun_spec); irregular lists are written in full",
]
ASSUMPTIONS = [
    "domain of the round-trip theorems and of holds: every variant has 2..255 alleles (with a 256th allele the index "
    "255 would be the missing value: C07_allele_limit_tight), every allele index is within "
    "the variant's allele list or 255 (missing), positions 1..2^31-1 with the last base of REF at or below 2^31-1 "
    "(PGEN: position below 2^31-1), chunk sizes >= 1 or None; any number of samples and variants, 0 "
    "included (an array without entries must come back as an array without entries, samples and variants unchanged)",
    "names (text relation and theorems): non-empty strings without tab, line feed, carriage return; variant IDs of at "
    "most 50 and contig names of at most 10 characters (longer ones are already cut when put into haptools' numpy "
    "record type, before anything is written), alleles without a comma, positions 1..2^31-2 with the last base of REF "
    "at or below 2^31-1 (htslib/pgenlib limits; beyond them write raises OverflowError/RuntimeError: modelled as "
    "write_guard, theorems C07_vcf_refused_beyond / C07_pgen_refused_beyond / C07_pgen_refused_by_pvar, compared by "
    "agree; holds demands nothing there: pos_domb), "
    "ID not '.' (VCF's missing value), contigs and alleles over the characters the VCF specification allows",
    "histories (vcf_hist): the demand is on the read that follows the LAST write of a path: it returns that matrix, "
    "whatever was written to the path before and whatever index lies beside the file, up to date or not, older or "
    "newer than the file (the property's 'does not depend on ... the presence of an index when no region is "
    "requested': an index of the right name beside the file is present, whatever it was built from). Nothing is "
    "demanded of region reads served from an index that was not built from the file, and no warning about the age of "
    "an index is demanded or forbidden. Every matrix of a history lies in the domain above, so that no write is "
    "refused half-way",
    "PGEN, variants without samples: the format cannot hold them (pgenlib's writer crashes for sample_ct = 0); "
    "GenotypesPLINK.write refuses with ValueError, which holds accepts; an interpreter crash is not accepted",
    "PGEN, a call missing in one allele only (e.g. 1/.): outside what the property demands of PGEN. Argument: the "
    "PGEN format has no representation for a half-missing hard call (plink2 itself refuses to import one unless told "
    "how to change it: --vcf-half-call), haptools' own documentation of the format (docs/formats/genotypes.rst, an "
    "anchor of this property) tells users to convert with --vcf-half-call m, and where a property of this suite means "
    "half-missing calls it says so (C13: 'missing in one or both alleles, half-missing') whereas C07 speaks of "
    "'missing calls' of a matrix that is written to either format. No repair can make such a call round-trip through "
    "PGEN. GenotypesPLINK.write fails for exactly the matrices that contain at least one call with exactly one allele "
    "equal to 255 (RuntimeError from pgenlib, after the .psam/.pvar were written); the model has this refusal "
    "(theorem C07_pgen_half_missing_refused) and agree compares it on every run, so a change that starts to store "
    "such calls differently is noticed; through VCF/BCF these calls are in the domain and must round-trip",
]

ALPH = ["A", "C", "G", "T", "AC", "GT", "ACG", "TTA", "CA", "G"]

# ----------------------------------------------------------------------------
# building / dumping haptools objects


_FROZEN = False


def freeze_once():
    """haptools calls gc.collect() after every chunk it writes or reads; in a forked worker a full collection walks
    everything the harness holds at that moment (all generated inputs, the very large ones included: 0.1-0.5 s
    each).  gc.freeze() takes the objects that exist at the start of the worker out of the collector's reach."""
    global _FROZEN
    if not _FROZEN:
        import gc

        gc.collect()
        gc.freeze()
        _FROZEN = True


def build_obj(cls, path, inp, **kw):
    """A haptools Genotypes* object holding the input matrix (rows are variant-major)."""
    from pathlib import Path
    from haptools.logging import getLogger

    g = cls(Path(path), log=getLogger("hv", "CRITICAL"), **kw)
    g.samples = tuple(inp["samples"])
    g.variants = np.array(
        [(v[0], v[1], v[2], tuple(v[3])) for v in inp["variants"]],
        dtype=g.variants.dtype,
    )
    n, p, k = len(inp["samples"]), len(inp["variants"]), inp.get("planes", 3)
    arr = np.array(inp["rows"], dtype=np.uint8).reshape((p, n, 3))[:, :, :k]
    g.data = np.ascontiguousarray(arr.transpose((1, 0, 2)))
    g._prephased = bool(inp.get("wpre", False))
    return g


def dump_obj(r):
    """Observable state of a haptools Genotypes* object (rows variant-major)."""
    data = r.data
    shape = [int(x) for x in data.shape]
    rows = []
    if data.ndim == 3:
        rows = np.asarray(data).astype(np.int64).transpose((1, 0, 2)).tolist()
    vs = []
    names = r.variants.dtype.names
    for v in r.variants:
        al = [str(a) for a in v["alleles"]] if "alleles" in names else []
        vs.append([str(v["id"]), str(v["chrom"]), int(v["pos"]), al])
    return {"samples": [str(s) for s in r.samples], "variants": vs, "rows": rows, "shape": shape}


# ----------------------------------------------------------------------------
# Gallina literals


# compact literals: long regular lists are not spelled out (Coq parses ~12 k chars/s).  The three
# decoders zrange / rle / vrun are defined in C07_Model.v (specified in C07_ProofsWide.v); a list that is
# not regular is written in full, so nothing depends on the regularity.


def zl_compact(ints):
    """list of ints -> Gallina list Z; ascending runs of 8 or more become (zrange a n)"""
    ints = [int(x) for x in ints]
    parts, lit, i = [], [], 0
    while i < len(ints):
        j = i
        while j + 1 < len(ints) and ints[j + 1] == ints[j] + 1:
            j += 1
        if j + 1 - i >= 8:
            if lit:
                parts.append(L.zl(lit))
                lit = []
            parts.append(f"zrange {L.z(ints[i])} {j + 1 - i}")
        else:
            lit += ints[i:j + 1]
        i = j + 1
    if lit or not parts:
        parts.append(L.zl(lit))
    return parts[0] if len(parts) == 1 and parts[0].startswith("[") else "(" + " ++ ".join(parts) + ")"


def seq_compact(terms):
    """list of rendered elements -> Gallina list; long lists with few distinct neighbours become (rle ...)"""
    n = len(terms)
    if n >= 24:
        runs = []
        for t in terms:
            if runs and runs[-1][1] == t:
                runs[-1][0] += 1
            else:
                runs.append([1, t])
        if 3 * len(runs) <= n:
            return "(rle " + L.lst(runs, lambda r: f"({r[0]}, {r[1]})") + ")"
    return L.lst(terms)


class Enc:
    """Per-case interning of strings + geno literals."""

    def __init__(self):
        self.i = L.Interner()

    def s(self, x):
        return L.z(self.i(("s", x)))

    def samples(self, names):
        return zl_compact([self.i(("s", x)) for x in names])

    def alleles(self, al):
        return zl_compact([self.i(("al", a)) for a in al])

    def variant(self, v):
        al = list(v[3])
        return (f"(mkvar {L.z(self.i(('id', v[0])))} {L.z(self.i(('chrom', v[1])))} {L.z(v[2])} "
                f"{self.alleles(al)} {L.z(len(al[0]) if al else 0)})")

    def variants(self, vs):
        """list of variants; 4 or more at regular distances on one contig with consecutive IDs and the
        same alleles become (vrun ...)"""
        if len(vs) < 24:
            return L.lst(vs, self.variant)
        keys = [(self.i(("id", v[0])), self.i(("chrom", v[1])), int(v[2]), tuple(v[3])) for v in vs]
        parts, lit, i = [], [], 0
        while i < len(vs):
            j = i
            step = keys[i + 1][2] - keys[i][2] if i + 1 < len(vs) else 0
            while (j + 1 < len(vs) and keys[j + 1][0] == keys[j][0] + 1 and keys[j + 1][1] == keys[i][1]
                   and keys[j + 1][3] == keys[i][3] and keys[j + 1][2] - keys[j][2] == step):
                j += 1
            if j + 1 - i >= 4:
                if lit:
                    parts.append(L.lst(lit, self.variant))
                    lit = []
                al = list(vs[i][3])
                parts.append(f"vrun {L.z(keys[i][0])} {L.z(keys[i][1])} {L.z(keys[i][2])} {L.z(step)} "
                             f"{self.alleles(al)} {L.z(len(al[0]) if al else 0)} {j + 1 - i}")
            else:
                lit += vs[i:j + 1]
            i = j + 1
        if lit or not parts:
            parts.append(L.lst(lit, self.variant))
        return parts[0] if len(parts) == 1 and parts[0].startswith("[") else "(" + " ++ ".join(parts) + ")"

    def call(self, c):
        ph = c[2] if len(c) > 2 else 1
        return f"({L.z(c[0])}, {L.z(c[1])}, {L.z(ph)})"

    def rows(self, rows):
        return seq_compact([seq_compact([self.call(c) for c in r]) for r in rows])

    def geno(self, samples, variants, rows, shape):
        return f"(mkg {self.samples(samples)} {self.variants(variants)} {self.rows(rows)} {L.zl(shape)})"

    def geno_in(self, inp):
        n, p, k = len(inp["samples"]), len(inp["variants"]), inp.get("planes", 3)
        rows = inp["rows"] if k >= 3 else [[c[:2] for c in r] for r in inp["rows"]]   # 2 planes: no phase plane
        return self.geno(inp["samples"], inp["variants"], rows, [n, p, k])

    def geno_obs(self, o):
        return self.geno(o["samples"], o["variants"], o["rows"], o["shape"])

    def rgeno(self, x):
        return L.res(x, self.geno_obs)


def oerr(obs):
    """error kind of a run the worker could not finish (crash / timeout / uncaught)"""
    return int(obs.get("kind", 99)) if isinstance(obs, dict) else 99


# ----------------------------------------------------------------------------
# generators


INT_MAX = 2 ** 31 - 1
# allele counts of the rare "many alleles" class: indices on both sides of 127|128 and up to the largest one a
# uint8 matrix with 255 = missing can hold (254, for a variant with 255 alleles; pgenlib and htslib both take it)
MANY_ALLELES = [129, 130, 200, 254, 255]
# with a 256th allele the index 255 is the missing value and pgenlib refuses the variant: outside the domain
MANY_ALLELES_BEYOND = [256]
INDEX_BOUNDARY = [0, 1, 126, 127, 128, 129, 200, 253, 254, 255]
# positions straddling the widths a position may be squeezed through (int16/uint16, float32's 2^24, the
# 2^29 of a .tbi index, int32); the last base of REF may lie at 2^31 - 1 at most (PGEN: position < 2^31 - 1)
POS_BOUNDARY = [32767, 32768, 65535, 65536, 16777217, 2 ** 29 - 1, 2 ** 29, 2 ** 31 - 4, 2 ** 31 - 3, 2 ** 31 - 2, 2 ** 31 - 1]
# refused by write (OverflowError from pysam): beyond int32, and 0 (the uint32 start wraps)
POS_BEYOND = [2 ** 31, 2 ** 31 + 1, 2 ** 32 - 2, 2 ** 32 - 1, 0]


def many_alleles(na):
    """REF A and na - 1 ALT alleles by formula: A followed by the base-4 numeral of the index over ACGT"""
    out = ["A"]
    for i in range(1, na):
        d, k = "", i
        while k:
            d = "ACGT"[k % 4] + d
            k //= 4
        out.append("A" + d)
    return out


def gen_matrix(rng, half_ok, pmax=7, nmax=6, pmin=0, wide=0.06, bigpos=0.0, beyond=False):
    """wide: probability that one variant of the matrix has 129..255 alleles (beyond: also 256) with
    indices around 127|128 and up to the largest observed; bigpos: probability that one variant lies at a
    boundary position (beyond: also positions write refuses)"""
    n = int(rng.integers(1, nmax + 1))
    p = int(rng.integers(pmin, pmax + 1))
    if rng.random() < 0.06:
        p = 0
    samples = [f"s{j}" for j in rng.permutation(9)[:n].tolist()]
    contigs = [str(c) for c in sorted(rng.choice([1, 2, 3, 7, 10], size=int(rng.integers(1, 4)), replace=False).tolist())]
    if rng.random() < 0.2:
        contigs = ["chr" + c for c in contigs]
    cidx = sorted(rng.integers(0, len(contigs), size=p).tolist())
    ids = [f"v{j}" for j in rng.permutation(20)[:p].tolist()]
    variants, rows = [], []
    pos = 0
    mode = rng.choice(["phased", "unphased", "mixed"])
    missmode = rng.choice(["none", "some", "some", "many"])
    jmany = int(rng.integers(0, p)) if p and rng.random() < wide else -1
    namany = int(rng.choice(MANY_ALLELES + (MANY_ALLELES_BEYOND if beyond and rng.random() < 0.3 else [])))
    for j in range(p):
        if j and cidx[j] != cidx[j - 1]:
            pos = 0
        pos += int(rng.integers(0 if j and cidx[j] == cidx[j - 1] and rng.random() < 0.1 else 1, 40))
        pos = max(pos, 1)
        na = int(rng.choice([2, 2, 2, 3, 3, 4, 5]))
        al = rng.permutation(len(ALPH))[:na].tolist()
        alleles = []
        for a in al:
            s = ALPH[a]
            while s in alleles:
                s = s + "T"
            alleles.append(s)
        if rng.random() < 0.8:
            alleles[0] = alleles[0][0] if alleles[0][0] not in alleles[1:] else alleles[0]
        # the alleles that are actually observed: any non-empty subset
        k = int(rng.integers(1, na + 1))
        seen = sorted(rng.choice(na, size=k, replace=False).tolist())
        if j == jmany:
            na, alleles = namany, many_alleles(namany)
            cand = sorted({x for x in INDEX_BOUNDARY + [na - 2, na - 1] if x < na})
            k = int(rng.integers(1, len(cand) + 1))
            seen = sorted(rng.choice(cand, size=k, replace=False).tolist())
            if rng.random() < 0.5:
                seen = sorted(set(seen) | {int(rng.integers(0, na))})
        row = []
        for s in range(n):
            a, b = int(rng.choice(seen)), int(rng.choice(seen))
            ph = 1 if mode == "phased" else 0 if mode == "unphased" else int(rng.integers(0, 2))
            r = rng.random()
            pm = {"none": 0.0, "some": 0.15, "many": 0.6}[missmode]
            if r < pm:
                if half_ok and rng.random() < 0.3:
                    if rng.random() < 0.5:
                        a = 255
                    else:
                        b = 255
                else:
                    a = b = 255
            row.append([a, b, ph])
        variants.append([ids[j], contigs[cidx[j]], pos, alleles])
        rows.append(row)
    if p and rng.random() < bigpos:
        val = int(rng.choice(POS_BOUNDARY + (POS_BEYOND if beyond and rng.random() < 0.4 else [])))
        # the last variant of the matrix (the largest position of its contig), position 0 on the first one
        j = 0 if val == 0 else p - 1
        if val >= variants[j][2] or val == 0:
            variants[j] = [variants[j][0], variants[j][1], val, variants[j][3]]
    planes = 2 if (mode == "phased" and rng.random() < 0.3) else 3
    if planes == 2:
        rows = [[[c[0], c[1], 1] for c in r] for r in rows]
    return {"samples": samples, "variants": variants, "rows": rows, "planes": planes}


SIZE_BOUNDARY = [127, 128, 255, 256, 257, 300]
SIZE_HUGE = [32767, 32768, 65535, 65536, 65537]


def rand_calls(rng, n, na, mode, runs=False):
    """n calls over na alleles; runs: long stretches of equal calls (for very long rows)"""
    out = []
    while len(out) < n:
        a, b = int(rng.integers(0, na)), int(rng.integers(0, na))
        if rng.random() < 0.1:
            a = b = 255
        ph = 1 if mode == "phased" else 0 if mode == "unphased" else int(rng.integers(0, 2))
        k = int(rng.integers(1, max(2, n // 6))) if runs else 1
        out += [[a, b, ph]] * k
    return [list(c) for c in out[:n]]


def boundary_matrices(rng, tier, beyond=True, huge_variants=True):
    """The width-boundary stream, present in every run whatever the seed: allele counts and indices around
    127|128 and 253|254|255|256, numbers of samples and of variants around 127|128 and 255|256|257 (thorough:
    32767|32768, 65535|65536|65537), positions around 2^15, 2^16, 2^24, 2^29 and 2^31 - 1 | 2^31, 2^32 - 1."""
    out = []
    mode = lambda: str(rng.choice(["phased", "unphased", "mixed"]))
    # many alleles: every boundary index observed
    nas = MANY_ALLELES if tier == "thorough" else [255, int(rng.choice(MANY_ALLELES[:-1]))]
    for na in nas + (MANY_ALLELES_BEYOND if beyond else []):
        idx = sorted({x for x in INDEX_BOUNDARY + [na - 2, na - 1] if x < na})
        rng.shuffle(idx)
        if len(idx) % 2:
            idx.append(idx[0])
        md = mode()
        row = [[idx[i], idx[i + 1], 1 if md == "phased" else 0 if md == "unphased" else int(rng.integers(0, 2))]
               for i in range(0, len(idx), 2)]
        row.append([255, 255, 0])
        out.append({"samples": [f"s{j}" for j in range(len(row))], "variants": [["rep1", "1", 100, many_alleles(na)]],
                    "rows": [row], "planes": 3})
    # many samples / many variants
    sizes = SIZE_BOUNDARY if tier == "thorough" else [int(x) for x in rng.choice(SIZE_BOUNDARY, size=2, replace=False)]
    for n in sizes:
        p, md = int(rng.integers(1, 3)), mode()
        out.append({"samples": [f"s{j}" for j in range(n)],
                    "variants": [[f"v{j}", "1", 10 + 5 * j, ["A", "C", "G"]] for j in range(p)],
                    "rows": [rand_calls(rng, n, 3, md) for _ in range(p)], "planes": 3})
    sizes = SIZE_BOUNDARY if tier == "thorough" else [int(x) for x in rng.choice(SIZE_BOUNDARY, size=2, replace=False)]
    for p in sizes:
        n, md = int(rng.integers(1, 3)), mode()
        vs = [[f"v{j}", "1" if j < p // 2 else "2", 10 + 3 * j, ["A", "C"] if j % 50 else ["G", "T", "GA"]] for j in range(p)]
        out.append({"samples": [f"s{j}" for j in range(n)], "variants": vs,
                    "rows": [rand_calls(rng, n, len(v[3]), md) for v in vs], "planes": 3})
    # 1000|1001: where numpy starts to summarise an array it prints
    for n in ([1000, 1001] if tier == "thorough" else [int(rng.choice([1000, 1001]))]):
        md = mode()
        out.append({"samples": [f"s{j}" for j in range(n)], "variants": [["v0", "1", 10, ["A", "C", "G"]]],
                    "rows": [rand_calls(rng, n, 3, md, runs=True)], "planes": 3})
        p = 2001 - n if tier != "thorough" else n
        calls = rand_calls(rng, p, 2, md, runs=True)
        out.append({"samples": ["s0"], "variants": [[f"v{j}", "1", 10 + 7 * j, ["A", "C"]] for j in range(p)],
                    "rows": [[c] for c in calls], "planes": 3})
    # very many samples / variants (the calls in stretches, so that the literals stay short)
    for n in (SIZE_HUGE if tier == "thorough" else [int(rng.choice(SIZE_HUGE))]):
        md = mode()
        out.append({"samples": [f"s{j}" for j in range(n)], "variants": [["v0", "1", 10, ["A", "C", "G"]]],
                    "rows": [rand_calls(rng, n, 3, md, runs=True)], "planes": 3})
    for p in (SIZE_HUGE if tier == "thorough" else [int(rng.choice(SIZE_HUGE))] if huge_variants else []):
        md = mode()
        calls = rand_calls(rng, p, 2, md, runs=True)
        out.append({"samples": ["s0"], "variants": [[f"v{j}", "1", 10 + 7 * j, ["A", "C"]] for j in range(p)],
                    "rows": [[c] for c in calls], "planes": 3})
    # positions
    poss = POS_BOUNDARY + (POS_BEYOND if beyond else [])
    if tier != "thorough":
        poss = [2 ** 31 - 1, 2 ** 31 - 2] + [int(x) for x in rng.choice(poss, size=2, replace=False)]
    for pos in poss:
        ref = str(rng.choice(["A", "A", "AT", "ACG"]))
        md = mode()
        vs = [["v0", "1", 5, ["A", "C"]], ["v1", "1", pos, [ref, "C", "G"]]]
        if pos == 0:
            vs = vs[::-1]
        out.append({"samples": ["s0", "s1"], "variants": vs, "rows": [rand_calls(rng, 2, len(v[3]), md) for v in vs],
                    "planes": 3})
    return out


def widen(inp):
    """boundary-directed variants of a matrix (escalated search): the alleles of the first variant replaced by a
    list of 130 resp. 255 with the observed indices moved to both sides of 127|128 resp. up to 254; the last
    position moved to 2^31 - 2"""
    if not inp["variants"]:
        return
    for na, remap in ((130, {0: 127, 1: 128, 2: 129, 3: 126}), (255, {0: 254, 1: 128, 2: 253, 3: 200})):
        v = inp["variants"][0]
        row = [[remap.get(c[0], c[0]), remap.get(c[1], c[1]), c[2]] for c in inp["rows"][0]]
        yield dict(inp, variants=[[v[0], v[1], v[2], many_alleles(na)]] + inp["variants"][1:], rows=[row] + inp["rows"][1:])
    v = inp["variants"][-1]
    if v[2] < 2 ** 31 - 2 and len(v[3][0]) == 1 and index_of(inp) != "tbi":
        yield dict(inp, variants=inp["variants"][:-1] + [[v[0], v[1], 2 ** 31 - 2, v[3]]])


def chunk_choice(rng, p):
    r = rng.random()
    if r < 0.2:
        return None
    return int(rng.integers(1, p + 3))


def with_empty_shapes(rng, m):
    """About 9% of the matrices lose all their samples (0 x p, and 0 x 0 when there were no variants)."""
    if rng.random() < 0.09:
        m = dict(m, samples=[], rows=[[] for _ in m["rows"]])
    return m


def shape_class(inp):
    n, p = len(inp["samples"]), len(inp["variants"])
    return "shape=" + ("0x0" if not n and not p else "0xp" if not n else "nx0" if not p else "nxp")


def features(inp):
    out = [shape_class(inp)]
    p = len(inp["variants"])
    if p == 0:
        out.append("p=0")
    half = full = gap = False
    for v, row in zip(inp["variants"], inp["rows"]):
        na = len(v[3])
        vals = set()
        for c in row:
            if (c[0] == 255) != (c[1] == 255):
                half = True
            elif c[0] == 255:
                full = True
            vals |= {c[0], c[1]}
        nm = vals - {255}
        if nm and max(nm) + 1 > len(nm):
            gap = True      # some allele index below the largest observed one is carried by nobody
    if half:
        out.append("half-missing")
    if full:
        out.append("missing")
    if gap:
        out.append("unobserved-lower-allele")
    if any(255 in {c[0], c[1]} and len(v[3]) == 2 for v, row in zip(inp["variants"], inp["rows"]) for c in row):
        out.append("missing-on-biallelic")
    if any(c[0] != c[1] and c[2] == 0 for row in inp["rows"] for c in row):
        out.append("unphased-het")
    if any(c[0] != c[1] and c[2] == 1 for row in inp["rows"] for c in row):
        out.append("phased-het")
    if inp.get("planes", 3) == 2:
        out.append("2-planes")
    if len({v[1] for v in inp["variants"]}) > 1:
        out.append("multi-contig")
    if any(len(v[3]) > 2 for v in inp["variants"]):
        out.append("multiallelic")
    # widths
    nas = [len(v[3]) for v in inp["variants"]]
    if any(na >= 129 for na in nas):
        out.append("alleles>=129")
    if any(na == 255 for na in nas):
        out.append("alleles=255")
    if any(na > 255 for na in nas):
        out.append("alleles>255(outside-domain)")
    idx = {x for v, row in zip(inp["variants"], inp["rows"]) if len(v[3]) <= 255 for c in row for x in c[:2] if x != 255}
    if any(x >= 128 for x in idx):
        out.append("index>=128")
    if idx & {126, 127} and idx & {128, 129}:
        out.append("index-straddles-127|128")
    if 254 in idx:
        out.append("index=254")
    n, p = len(inp["samples"]), len(inp["variants"])
    for what, k in (("samples", n), ("variants", p)):
        for lo in (128, 256, 32768, 65536):
            if k >= lo:
                w = f"{what}>={lo}"
        if k >= 128:
            out.append(w)
    ends = [v[2] + len(v[3][0]) - 1 for v in inp["variants"]]
    if any(v[2] == 0 or e > INT_MAX for v, e in zip(inp["variants"], ends)):
        out.append("pos:refused(outside-domain)")
    elif any(v[2] >= 32767 for v in inp["variants"]):
        out.append("pos:boundary")
        if any(e == INT_MAX for e in ends):
            out.append("pos:last-base-at-2^31-1")
    return out


def nontrivial_matrix(inp):
    return bool(inp["variants"]) and any(c[0] != c[1] or c[0] == 255 for row in inp["rows"] for c in row)


def shrink_matrix(inp, keep_one_sample=True):
    p, n = len(inp["variants"]), len(inp["samples"])
    # large matrices: halves, quarters, ... first (the candidates are built lazily; core takes the first 60)
    if p > 12:
        k = p // 2
        while k >= 1:
            for a in range(0, p, k):
                yield dict(inp, variants=inp["variants"][a:a + k], rows=inp["rows"][a:a + k])
            if p // k > 8:
                break
            k //= 2
        # ... or one half less
        yield dict(inp, variants=inp["variants"][:p - p // 2], rows=inp["rows"][:p - p // 2])
    if n > 12:
        k = n // 2
        while k >= 1:
            for a in range(0, n, k):
                yield dict(inp, samples=inp["samples"][a:a + k], rows=[r[a:a + k] for r in inp["rows"]])
            if n // k > 8:
                break
            k //= 2
    if p > 40 or n > 40:
        return
    for j in range(p):
        yield dict(inp, variants=inp["variants"][:j] + inp["variants"][j + 1:], rows=inp["rows"][:j] + inp["rows"][j + 1:])
    if n > (1 if keep_one_sample else 0):
        for s in range(n):
            yield dict(inp, samples=inp["samples"][:s] + inp["samples"][s + 1:],
                       rows=[r[:s] + r[s + 1:] for r in inp["rows"]])
    for j in range(p):
        for s in range(n):
            c = inp["rows"][j][s]
            for new in ([0, 0, 1], [c[0], c[0], c[2]], [c[0], c[1], 1]):
                if new != c and not (new[0] == 255):
                    rows = [list(map(list, r)) for r in inp["rows"]]
                    rows[j][s] = new
                    yield dict(inp, rows=rows)
    for j in range(p):
        v = inp["variants"][j]
        mx = max([x for c in inp["rows"][j] for x in c[:2] if x != 255] + [1])
        if len(v[3]) > mx + 1:
            vs = list(inp["variants"])
            vs[j] = [v[0], v[1], v[2], v[3][:mx + 1]]
            yield dict(inp, variants=vs)


# ----------------------------------------------------------------------------
# recorder around pgenlib.PgenWriter


class WriterRecorder:
    def __init__(self):
        import pgenlib

        self.pgenlib = pgenlib
        self.real = pgenlib.PgenWriter
        self.limit = 0
        self.batches = []
        self.unobserved = None
        rec = self

        class W:
            def __init__(self, *a, **kw):
                if a or set(kw) - {"filename", "sample_ct", "variant_ct", "allele_ct_limit", "nonref_flags",
                                   "hardcall_phase_present"}:
                    rec.unobserved = "PgenWriter called with unexpected arguments"
                rec.limit = int(kw.get("allele_ct_limit", 2))
                rec.sample_ct = int(kw.get("sample_ct", 0))
                self.w = rec.real(*a, **kw)

            def __enter__(self):
                self.w.__enter__()
                return self

            def __exit__(self, *a):
                return self.w.__exit__(*a)

            def close(self):
                return self.w.close()

            def append_alleles_batch(self, arr, all_phased=False, allele_cts=None):
                if not all_phased or allele_cts is None:
                    rec.unobserved = "append_alleles_batch without all_phased/allele_cts"
                rec.batches.append({"codes": np.array(arr).tolist(), "cts": [int(x) for x in (allele_cts if allele_cts is not None else [])],
                                    "phase": None})
                return self.w.append_alleles_batch(arr, all_phased=all_phased, allele_cts=allele_cts)

            def append_partially_phased_batch(self, arr, phase, allele_cts=None):
                if allele_cts is None:
                    rec.unobserved = "append_partially_phased_batch without allele_cts"
                rec.batches.append({"codes": np.array(arr).tolist(), "cts": [int(x) for x in (allele_cts if allele_cts is not None else [])],
                                    "phase": np.array(phase).astype(np.int64).tolist()})
                return self.w.append_partially_phased_batch(arr, phase, allele_cts=allele_cts)

            def __getattr__(self, name):
                rec.unobserved = f"PgenWriter.{name} used"
                return getattr(self.w, name)

        pgenlib.PgenWriter = W

    def close(self):
        self.pgenlib.PgenWriter = self.real


def batch_term(b):
    pairs = lambda row: seq_compact([f"({L.z(row[i])}, {L.z(row[i + 1])})" for i in range(0, len(row) - 1, 2)])
    ph = "None"
    if b["phase"] is not None:
        ph = "(Some " + seq_compact([seq_compact([L.z(x) for x in r]) for r in b["phase"]]) + ")"
    return f"(mkb {seq_compact([pairs(r) for r in b['codes']])} {seq_compact([L.z(c) for c in b['cts']])} {ph})"


def pgenlib_dump(path):
    """The written files as pgenlib itself reports them (not through haptools)."""
    import pgenlib

    pv = pgenlib.PvarReader(bytes(os.path.splitext(path)[0] + ".pvar", "utf8"))
    p = int(pv.get_variant_ct())
    cts = [int(pv.get_allele_ct(i)) for i in range(p)]
    calls = []
    with pgenlib.PgenReader(bytes(path, "utf8"), pvar=pv) as r:
        n = int(r.get_raw_sample_ct())
        pp = int(r.get_variant_ct())
        for i in range(pp):
            a = np.empty(2 * n, dtype=np.int32)
            ph = np.empty(n, dtype=np.uint8)
            r.read_alleles_and_phasepresent(i, a, ph)
            calls.append([[int(a[2 * j]), int(a[2 * j + 1]), int(ph[j])] for j in range(n)])
    return {"n": n, "p": pp, "pvar_p": p, "cts": cts, "calls": calls}


def praw_term(r):
    if r is None:
        return "(Err 0)"
    if "err" in r:
        return f"(Err {L.z(r['err'])})"
    r = r["ok"]
    if r["pvar_p"] != r["p"]:
        return "(Err 97)"
    sc = lambda c: f"({L.z(c[0])}, {L.z(c[1])}, {L.z(c[2])})"
    calls = seq_compact([seq_compact([sc(c) for c in row]) for row in r["calls"]])
    return f"(Ok (mkpr {L.z(r['n'])} {L.z(r['p'])} {seq_compact([L.z(c) for c in r['cts']])} {calls}))"


def pgen_prior(rng, m):
    """one or two other matrices written to the same .pgen / .pvar / .psam before the write under test (matrices
    PGEN can hold: a sample, no half-missing call, positions and allele counts inside the domain)"""
    out = []
    for _ in range(int(rng.choice([1, 1, 2]))):
        a = None
        while a is None:
            how = str(rng.choice(["fewer-variants", "more-variants", "fewer-samples", "more-samples", "other-contigs",
                                  "other-calls", "independent", "no-variants"]))
            a = related_matrix(rng, m, how, half_ok=False)
            if a is not None and (not a["samples"] or any(v[2] < 1 or v[2] + len(v[3][0]) - 1 >= 2 ** 31 - 1 or len(v[3]) > 255
                                                         for v in a["variants"])
                                  or any((c[0] == 255) != (c[1] == 255) for r in a["rows"] for c in r)):
                a = None
        out.append({"m": a, "cw": chunk_choice(rng, len(a["variants"])), "read": bool(rng.random() < 0.4)})
    return out


class Pgen(Relation):
    name = "pgen"
    coq_module = "C07_Check"
    coq_check = "check_pgen"
    coq_case_type = "pcase"
    coq_model = "model_pgen"
    coq_imports = ["C07_Model"]
    budget = {"quick": 300, "thorough": 5000}
    anchors = [
        ("haptools/data/genotypes.py", "GenotypesPLINK.write"),
        ("haptools/data/genotypes.py", "GenotypesPLINK._num_unique_alleles"),
        ("haptools/data/genotypes.py", "GenotypesPLINK.write_variants"),
        ("haptools/data/genotypes.py", "GenotypesPLINK.write_samples"),
        ("haptools/data/genotypes.py", "GenotypesPLINK.read"),
        ("haptools/data/genotypes.py", "GenotypesPLINK.read_variants"),
        ("haptools/data/genotypes.py", "GenotypesPLINK.read_samples"),
        ("haptools/data/genotypes.py", "GenotypesPLINK._iterate_variants"),
    ]

    def generate(self, rng, n, tier):
        out = []
        for i in range(n):
            m = gen_matrix(rng, half_ok=(rng.random() < 0.08), bigpos=0.05, beyond=True)
            m = with_empty_shapes(rng, m)
            p = len(m["variants"])
            m["cw"] = chunk_choice(rng, p)
            m["cr"] = chunk_choice(rng, p)
            if rng.random() < 0.02:
                m["cw" if rng.random() < 0.5 else "cr"] = 0      # malformed: chunk_size = 0
            m["wpre"] = bool(rng.random() < 0.1)                 # _prephased on the writing object
            m["rpre"] = bool(rng.random() < 0.12)                # _prephased on the reading object
            if rng.random() < 0.12:
                m["prior"] = pgen_prior(rng, m)
            out.append(m)
        for m in boundary_matrices(rng, tier):
            p = len(m["variants"])
            near = [None, 1, 127, 128, 255, 256, p - 1, p, p + 1]
            m["cw"], m["cr"] = [near[int(i)] for i in rng.integers(0, len(near), size=2)]
            if p > 2000:
                m["cw"] = m["cr"] = None
            m["cw"] = None if m["cw"] == 0 else m["cw"]
            m["cr"] = None if m["cr"] == 0 else m["cr"]
            m["wpre"] = m["rpre"] = False
            out.append(m)
        return out

    def exhaustive(self, tier):
        # all chunk sizes 1..p+1 (and None) independently for write and read, p <= 5
        rng = np.random.default_rng(77)
        out = []
        for p in range(0, 6):
            m = None
            while m is None or len(m["variants"]) != p:
                m = gen_matrix(rng, half_ok=False, pmax=p, pmin=p, nmax=3)
            for cw in [None] + list(range(1, p + 2)):
                for cr in [None] + list(range(1, p + 2)):
                    out.append(dict(m, cw=cw, cr=cr))
        # every shape without entries x every chunk setting
        for n, p in ((0, 0), (0, 1), (0, 3), (1, 0), (3, 0)):
            m = None
            while m is None or len(m["variants"]) != p:
                m = gen_matrix(rng, half_ok=False, pmax=p, pmin=p, nmax=3)
            if n == 0:
                m = dict(m, samples=[], rows=[[] for _ in m["rows"]])
            for cw in (None, 1, p + 1):
                for cr in (None, 1, p + 1):
                    for wpre, rpre in ((False, False), (True, False), (False, True)):
                        out.append(dict(m, cw=cw, cr=cr, wpre=wpre, rpre=rpre))
        # the width-boundary matrices (no very large ones) under both attributes
        for m in boundary_matrices(rng, "quick"):
            if len(m["samples"]) > 1000 or len(m["variants"]) > 1000:
                continue
            for wpre, rpre in ((False, False), (True, False), (False, True)):
                out.append(dict(m, cw=None, cr=2, wpre=wpre, rpre=rpre))
        return out

    def run_impl(self, inp):
        from pathlib import Path
        from haptools.data import GenotypesPLINK
        from haptools.logging import getLogger

        freeze_once()
        d = tempfile.mkdtemp(prefix="hv_c07_")
        try:
            path = os.path.join(d, "x.pgen")
            # what earlier writes to the same path (.pgen, .pvar, .psam) left on disk
            for pr in inp.get("prior") or []:
                build_obj(GenotypesPLINK, path, pr["m"], chunk_size=pr.get("cw")).write()
                if pr.get("read"):
                    GenotypesPLINK(Path(path), log=getLogger("hv", "CRITICAL"), chunk_size=pr.get("cw")).read()
            g = build_obj(GenotypesPLINK, path, inp, chunk_size=inp["cw"])
            rec = WriterRecorder()
            try:
                g.write()
                calls = {"ok": {"limit": rec.limit, "batches": rec.batches}}
            except Exception as e:  # noqa
                calls = {"err": err_kind(e), "cls": type(e).__name__, "msg": str(e)[:160]}
            finally:
                rec.close()
            if rec.unobserved:
                return {"unobserved": rec.unobserved}
            if "err" in calls:
                return {"calls": calls, "raw": None, "back": {"err": calls["err"]}}
            raw = None
            if inp["variants"]:
                # the independent reading of what haptools wrote, with pgenlib alone
                try:
                    raw = {"ok": pgenlib_dump(path)}
                except Exception as e:  # noqa
                    raw = {"err": err_kind(e), "cls": type(e).__name__, "msg": str(e)[:160]}
            try:
                from pathlib import Path

                r = GenotypesPLINK(Path(path), log=getLogger("hv", "CRITICAL"), chunk_size=inp["cr"])
                r._prephased = bool(inp.get("rpre", False))
                r.read()
                back = {"ok": dump_obj(r)}
            except Exception as e:  # noqa
                back = {"err": err_kind(e), "cls": type(e).__name__, "msg": str(e)[:160]}
            return {"calls": calls, "raw": raw, "back": back}
        finally:
            shutil.rmtree(d, ignore_errors=True)

    def encode(self, inp, obs):
        E = Enc()
        g = E.geno_in(inp)
        raw = "(Err 0)"
        if "unobserved" in obs:
            calls, back = "(Err 97)", "(Err 97)"
        elif "calls" not in obs:
            calls = back = f"(Err {oerr(obs)})"
        else:
            calls = L.res(obs["calls"], lambda c: f"({L.z(c['limit'])}, {L.lst(c['batches'], batch_term)})")
            back = E.rgeno(obs["back"])
            raw = praw_term(obs.get("raw"))
        return (f"(mkpc {g} {L.opt(inp['cw'], L.z)} {L.opt(inp['cr'], L.z)} "
                f"{L.b(inp.get('wpre', False))} {L.b(inp.get('rpre', False))} {calls} {raw} {back})")

    def nontrivial(self, inp, obs):
        return nontrivial_matrix(inp)

    def classes(self, inp, obs):
        p = len(inp["variants"])
        out = features(inp)
        for key in ("cw", "cr"):
            c = inp[key]
            out.append(f"{key}=" + ("None" if c is None else "0" if c == 0 else "1" if c == 1 else "p" if c == p else ">p" if c > p else "mid"))
        if inp.get("wpre"):
            out.append("writer-prephased")
        if inp.get("rpre"):
            out.append("reader-prephased")
        for pr in inp.get("prior") or []:
            out.append("earlier-write-to-the-path")
            for what in ("variants", "samples"):
                if len(pr["m"][what]) != len(inp[what]):
                    out.append(f"earlier-write:{'fewer' if len(pr['m'][what]) < len(inp[what]) else 'more'}-{what}")
            if pr.get("read"):
                out.append("earlier-read")
        if isinstance(obs, dict) and "calls" in obs and "err" in obs["calls"]:
            out.append(f"write-err{obs['calls']['err']}")
        if isinstance(obs, dict) and obs.get("raw") and "ok" in obs["raw"]:
            out.append("read-with-pgenlib-directly")
        if isinstance(obs, dict) and "__crash__" in obs:
            out.append("crash")
        return out

    def shrink(self, inp):
        pri = inp.get("prior") or []
        if pri:
            yield {k: v for k, v in inp.items() if k != "prior"}
            for i in range(len(pri)):
                if len(pri) > 1:
                    yield dict(inp, prior=pri[:i] + pri[i + 1:])
                for c in shrink_matrix(pri[i]["m"]):
                    yield dict(inp, prior=pri[:i] + [dict(pri[i], m=plain_matrix(c))] + pri[i + 1:])
        for key in ("cw", "cr"):
            if inp[key] is not None:
                yield dict(inp, **{key: None})
        for key in ("wpre", "rpre"):
            if inp.get(key):
                yield dict(inp, **{key: False})
        yield from shrink_matrix(inp, keep_one_sample=bool(inp["samples"]))

    def mutate(self, inp, rng):
        p = len(inp["variants"])
        for cw in (None, 1, p, p + 1):
            for cr in (None, 1, p, p + 1):
                yield dict(inp, cw=cw, cr=cr)
        if inp["samples"]:
            yield dict(inp, samples=[], rows=[[] for _ in inp["rows"]])
        yield dict(inp, variants=[], rows=[])
        yield from widen(inp)

    def signature(self, inp, obs):
        f = features(inp)
        if not isinstance(obs, dict) or "calls" not in obs:
            what = "interpreter crash/timeout in write+read"
        elif "err" in obs["calls"]:
            what = f"GenotypesPLINK.write raised {obs['calls'].get('cls')}"
        elif "err" in obs["back"]:
            what = f"GenotypesPLINK.read raised {obs['back'].get('cls')}"
        else:
            what = "PGEN read-back differs from what was written"
        past = " after another matrix had been written to the same path;" if inp.get("prior") else ""
        return (f"pgen: {what};{past} {shape_class(inp)} missing-call={'missing' in f or 'half-missing' in f} "
                f"unobserved-lower-allele={'unobserved-lower-allele' in f} half-missing={'half-missing' in f}")


def pysam_dump(path):
    import pysam

    with pysam.VariantFile(path) as vf:
        samples = [str(s) for s in vf.header.samples]
        recs = []
        for rec in vf:
            calls = []
            for s in samples:
                c = rec.samples[s]
                gt = c["GT"]
                calls.append([None if x is None else int(x) for x in gt] + [bool(c.phased)])
            recs.append([[str(rec.id), str(rec.contig), int(rec.pos), [str(a) for a in rec.alleles]], calls])
    return {"samples": samples, "recs": recs}


def sorted_for_index(inp):
    seen, last, lastc = set(), 0, None
    for v in inp["variants"]:
        if v[1] != lastc:
            if v[1] in seen:
                return False
            seen.add(v[1])
            lastc, last = v[1], 0
        if v[2] < last:
            return False
        last = v[2]
    return True


def index_ok(inp, idx):
    """can pysam.tabix_index build this index for the file: records sorted; a .tbi holds ends up to 2^29"""
    if idx is None:
        return True
    if not sorted_for_index(inp):
        return False
    if idx == "tbi" and any(v[2] + len(v[3][0]) - 1 >= 2 ** 29 - 1 for v in inp["variants"]):
        return False
    return True


FORMATS = [("vcf", None), ("vcf.gz", None), ("vcf.gz", "tbi"), ("vcf.gz", "csi"), ("bcf", None), ("bcf", "csi")]
FMT_TERM = {"vcf": "F_vcf", "vcf.gz": "F_vcfgz", "bcf": "F_bcf"}
IDX_TERM = {None: "I_none", "tbi": "I_tbi", "csi": "I_csi"}


def make_index(path, fmt, index):
    import pysam

    if index is None:
        return
    if fmt == "bcf":
        pysam.tabix_index(path, preset="bcf", force=True)
    else:
        pysam.tabix_index(path, preset="vcf", force=True, csi=(index == "csi"))
    want = path + "." + index
    if not os.path.exists(want):
        raise RuntimeError(f"index {want} was not created")


def index_of(inp):
    """the index of a vcf input (older corpus files have a boolean)"""
    idx = inp.get("index")
    if idx is True:
        return "csi" if inp["fmt"] == "bcf" else "tbi"
    return idx or None


class Vcf(Relation):
    name = "vcf"
    coq_module = "C07_Check"
    coq_check = "check_vcf"
    coq_case_type = "vcase"
    coq_model = "model_vcf"
    coq_imports = ["C07_Model"]
    budget = {"quick": 260, "thorough": 4000}
    anchors = [
        ("haptools/data/genotypes.py", "GenotypesVCF.write"),
        ("haptools/data/genotypes.py", "GenotypesVCF._variant_arr"),
        ("haptools/data/genotypes.py", "Genotypes.read"),
        ("haptools/data/genotypes.py", "Genotypes._iterate"),
        ("haptools/data/genotypes.py", "Genotypes._vcf_iter"),
        ("haptools/data/genotypes.py", "Genotypes._return_data"),
        ("haptools/data/genotypes.py", "Genotypes.__iter__"),
    ]

    def generate(self, rng, n, tier):
        out = []
        for i in range(n):
            m = gen_matrix(rng, half_ok=True, bigpos=0.05, beyond=True)
            m = with_empty_shapes(rng, m)
            fmt, idx = FORMATS[int(rng.integers(0, len(FORMATS)))]
            if idx == "tbi" and not index_ok(m, idx):
                idx = "csi"
            if not index_ok(m, idx):
                idx = None
            m["fmt"], m["index"] = fmt, idx
            m["wpre"] = bool(rng.random() < 0.1)
            m["rpre"] = bool(rng.random() < 0.12)
            # a contig requested as region afterwards (needs an index to be served)
            m["region"] = None
            if m["variants"] and rng.random() < 0.6:
                m["region"] = m["variants"][int(rng.integers(0, len(m["variants"])))][1]
            out.append(m)
        # (tens of thousands of variants: in the quick tier through PGEN only, whose reader and writer keep
        # per-variant index and count arrays of fixed width)
        for m in boundary_matrices(rng, tier, huge_variants=False):
            fmt, idx = FORMATS[int(rng.integers(0, len(FORMATS)))]
            if idx == "tbi" and not index_ok(m, idx):
                idx = "csi"
            m["fmt"], m["index"] = fmt, idx
            m["wpre"] = m["rpre"] = False
            m["region"] = m["variants"][-1][1] if rng.random() < 0.5 else None
            out.append(m)
        return out

    def exhaustive(self, tier):
        # one matrix of every shape in every format / index combination, with and without region
        rng = np.random.default_rng(78)
        out = []
        for n, p in ((2, 3), (1, 1), (2, 0), (0, 2), (0, 0)):
            m = None
            while m is None or len(m["variants"]) != p or not sorted_for_index(m):
                m = gen_matrix(rng, half_ok=True, pmax=p, pmin=p, nmax=3)
            if n == 0:
                m = dict(m, samples=[], rows=[[] for _ in m["rows"]])
            for fmt, idx in FORMATS:
                for region in ([None] + sorted({v[1] for v in m["variants"]})):
                    out.append(dict(m, fmt=fmt, index=idx, wpre=False, rpre=False, region=region))
        # the width-boundary matrices (no very large ones) in every format / index combination
        for m in boundary_matrices(rng, "quick"):
            if len(m["samples"]) > 1000 or len(m["variants"]) > 1000:
                continue
            for fmt, idx in FORMATS:
                if index_ok(m, idx):
                    out.append(dict(m, fmt=fmt, index=idx, wpre=False, rpre=False, region=None))
        # 300 contigs with one variant each
        vs = [[f"v{j}", f"c{j}", 10 + j, ["A", "C"]] for j in range(300)]
        m = {"samples": ["s0", "s1"], "variants": vs, "rows": [rand_calls(rng, 2, 2, "mixed") for _ in vs], "planes": 3}
        for fmt, idx in (("vcf", None), ("bcf", None), ("vcf.gz", "csi")):
            out.append(dict(m, fmt=fmt, index=idx, wpre=False, rpre=False, region="c299" if idx else None))
        return out

    def run_impl(self, inp):
        from pathlib import Path
        from haptools.data import GenotypesVCF
        from haptools.logging import getLogger

        freeze_once()
        d = tempfile.mkdtemp(prefix="hv_c07_")
        try:
            path = os.path.join(d, "x." + inp["fmt"])
            g = build_obj(GenotypesVCF, path, inp)
            try:
                g.write()
                make_index(path, inp["fmt"], index_of(inp))
                file = {"ok": pysam_dump(path)}
            except Exception as e:  # noqa
                file = {"err": err_kind(e), "cls": type(e).__name__, "msg": str(e)[:160]}
                return {"file": file, "back": {"err": file["err"]}, "rback": None}

            def read(region):
                try:
                    r = GenotypesVCF(Path(path), log=getLogger("hv", "CRITICAL"))
                    r._prephased = bool(inp.get("rpre", False))
                    r.read(region=region)
                    return {"ok": dump_obj(r)}
                except Exception as e:  # noqa
                    return {"err": err_kind(e), "cls": type(e).__name__, "msg": str(e)[:160]}

            back = read(None)
            rback = read(inp["region"]) if inp.get("region") is not None else None
            return {"file": file, "back": back, "rback": rback}
        finally:
            shutil.rmtree(d, ignore_errors=True)

    def encode(self, inp, obs):
        E = Enc()
        g = E.geno_in(inp)
        region = inp.get("region")
        rterm = "None" if region is None else f"(Some {L.z(E.i(('chrom', region)))})"
        rback = "(Err 0)"
        if "file" not in obs:
            file = back = f"(Err {oerr(obs)})"
        else:
            vc = lambda c: f"({L.opt(c[0], L.z)}, {L.opt(c[1], L.z)}, {L.b(c[2])})"

            def recs(rs):
                if len(rs) < 24:
                    return L.lst(rs, lambda r: f"({E.variant(r[0])}, {seq_compact([vc(c) for c in r[1]])})")
                return (f"(combine {E.variants([r[0] for r in rs])} "
                        f"{seq_compact([seq_compact([vc(c) for c in r[1]]) for r in rs])})")

            file = L.res(obs["file"], lambda f: f"(mkvf {E.samples(f['samples'])} {recs(f['recs'])})")
            back = E.rgeno(obs["back"])
            if obs.get("rback") is not None:
                rback = E.rgeno(obs["rback"])
        return (f"(mkvc {g} {FMT_TERM[inp['fmt']]} {IDX_TERM[index_of(inp)]} {L.b(inp.get('wpre', False))} "
                f"{L.b(inp.get('rpre', False))} {file} {back} {rterm} {rback})")

    def nontrivial(self, inp, obs):
        return nontrivial_matrix(inp)

    def classes(self, inp, obs):
        out = (features(inp) + [f"fmt={inp['fmt']}", f"index={index_of(inp) or 'none'}",
                                f"file={inp['fmt']}+{index_of(inp) or 'noindex'}"]
               + (["writer-prephased"] if inp.get("wpre") else []) + (["reader-prephased"] if inp.get("rpre") else []))
        if inp.get("region") is not None:
            out.append("region-with-index" if index_of(inp) else "region-without-index")
        return out

    def shrink(self, inp):
        if inp["fmt"] != "vcf" and not index_of(inp):
            yield dict(inp, fmt="vcf")
        if inp.get("region") is not None:
            yield dict(inp, region=None)
        for key in ("wpre", "rpre"):
            if inp.get(key):
                yield dict(inp, **{key: False})
        for c in shrink_matrix(inp, keep_one_sample=bool(inp["samples"])):
            if not index_ok(c, index_of(inp)):
                continue
            if c.get("region") is not None and c["region"] not in {v[1] for v in c["variants"]}:
                c = dict(c, region=None)
            yield c

    def mutate(self, inp, rng):
        for fmt, idx in FORMATS:
            if index_ok(inp, idx):
                yield dict(inp, fmt=fmt, index=idx)
        if inp["samples"]:
            yield dict(inp, samples=[], rows=[[] for _ in inp["rows"]])
        yield dict(inp, variants=[], rows=[], region=None)
        yield from widen(inp)

    def signature(self, inp, obs):
        sh = shape_class(inp)
        if not isinstance(obs, dict) or "back" not in obs:
            return f"vcf: interpreter crash/timeout in write+read; {sh}"
        if "err" in obs["back"]:
            which = "write" if "err" in obs["file"] else "read"
            return f"vcf: {which} raised {obs['back'].get('cls') or obs['file'].get('cls')}; {sh}"
        b = obs["back"]["ok"]
        if inp["variants"] and not b["variants"]:
            return f"vcf: read of a file {'with' if index_of(inp) else 'without'} index returned no variants; {sh}"
        return f"vcf: read-back differs from what was written; {sh}"


# ----------------------------------------------------------------------------
# a path with a past: what an earlier write left on disk


HOW_PRIOR = ["fewer-variants", "more-variants", "fewer-samples", "more-samples", "other-contigs", "other-calls",
             "independent", "no-variants"]


def plain_matrix(m):
    return {k: m[k] for k in ("samples", "variants", "rows", "planes")}


def related_matrix(rng, m, how, half_ok=True):
    """A matrix that differs from m in the named way (an earlier content of the same path)."""
    n, p = len(m["samples"]), len(m["variants"])
    mode = str(rng.choice(["phased", "unphased", "mixed"]))
    if how == "fewer-variants" and p >= 1:
        k = int(rng.integers(0, p))
        a = int(rng.integers(0, p - k + 1)) if rng.random() < 0.3 else 0      # mostly a prefix
        return dict(plain_matrix(m), variants=m["variants"][a:a + k], rows=m["rows"][a:a + k])
    if how == "more-variants" and n >= 1:
        extra = int(rng.integers(1, 5))
        last = m["variants"][-1] if p else ["v0", "1", 0, ["A", "C"]]
        if last[2] >= 2 ** 28:
            return None
        vs = [[f"w{j}", last[1], last[2] + 3 * (j + 1), ["A", "C", "G"][:int(rng.integers(2, 4))]]
              for j in range(extra)]
        return dict(plain_matrix(m), variants=m["variants"] + vs,
                    rows=m["rows"] + [rand_calls(rng, n, len(v[3]), mode) for v in vs], planes=3)
    if how == "fewer-samples" and n >= 2:
        k = int(rng.integers(1, n))
        return dict(plain_matrix(m), samples=m["samples"][:k], rows=[r[:k] for r in m["rows"]])
    if how == "more-samples" and n >= 1:
        extra = int(rng.integers(1, 4))
        return dict(plain_matrix(m), samples=m["samples"] + [f"t{j}" for j in range(extra)],
                    rows=[r + rand_calls(rng, extra, len(v[3]), mode) for v, r in zip(m["variants"], m["rows"])], planes=3)
    if how == "other-contigs" and p >= 1:
        ren = {}
        for v in m["variants"]:
            ren.setdefault(v[1], ["X", "Y", "MT", "chrUn"][len(ren) % 4])
        return dict(plain_matrix(m), variants=[[v[0], ren[v[1]], v[2], v[3]] for v in m["variants"]])
    if how == "other-calls" and n >= 1 and p >= 1:
        return dict(plain_matrix(m), rows=[rand_calls(rng, n, len(v[3]), mode) for v in m["variants"]], planes=3)
    if how == "no-variants":
        return dict(plain_matrix(m), variants=[], rows=[])
    if how == "independent":
        return plain_matrix(gen_matrix(rng, half_ok=half_ok, wide=0.0))
    return None


def gen_history(rng, final, fmt, kind, half_ok=True):
    """Operations on one path that end with the write of `final`; then what is done to the index."""
    ops = []
    for _ in range(int(rng.choice([1, 1, 1, 2, 2, 3]))):
        a = None
        while a is None:
            a = related_matrix(rng, final, str(rng.choice(HOW_PRIOR)), half_ok)
        ops.append({"op": "write", "m": a})
        if kind is not None and index_ok(a, kind) and rng.random() < 0.8:
            ops.append({"op": "index", "kind": kind})
            if rng.random() < 0.08:
                ops.append({"op": "unindex"})
        if rng.random() < 0.35:
            ops.append({"op": "read"})
    ops.append({"op": "write", "m": plain_matrix(final)})
    r = rng.random()
    if kind is not None:
        if r < 0.3:
            ops.append({"op": "touch", "newer": True})       # the stale index looks up to date
        elif r < 0.5:
            ops.append({"op": "touch", "newer": False})
        elif r < 0.6 and index_ok(final, kind):
            ops.append({"op": "index", "kind": kind})        # indexed again
            if rng.random() < 0.4:
                ops.append({"op": "touch", "newer": False})  # ... but the fresh index looks old
        elif r < 0.68:
            ops.append({"op": "unindex"})
    return ops


def count_matrix(n, p, rng, first=10):
    """n samples x p variants at regular distances (short literal)"""
    mode = str(rng.choice(["phased", "unphased", "mixed"]))
    calls = [rand_calls(rng, p, 2, mode, runs=True) for _ in range(n)]
    return {"samples": [f"s{j}" for j in range(n)],
            "variants": [[f"v{j}", "1", first + 7 * j, ["A", "C"]] for j in range(p)],
            "rows": [[calls[i][j] for i in range(n)] for j in range(p)], "planes": 3}


# record counts of the earlier (indexed) and of the last write: on both sides of the widths a count may be
# squeezed through (and of numpy's print summarisation)
COUNT_BOUNDARY = [(127, 128), (128, 127), (255, 256), (256, 255), (256, 257), (255, 300), (1000, 1001), (1001, 1000)]


def final_write(ops):
    w = [o for o in ops if o["op"] == "write"]
    return w[-1]["m"] if w else None


def index_state(ops):
    """(index present in the end, number of records it was built from, newer than the file, stale)"""
    present, recs, newer, stale, cur = False, None, False, False, None
    for o in ops:
        if o["op"] == "write":
            newer, stale, cur = False, present, o["m"]
        elif o["op"] == "index":
            present, recs, newer, stale = True, len(cur["variants"]), True, False
        elif o["op"] == "touch" and present:
            newer = bool(o["newer"])
        elif o["op"] == "unindex":
            present, recs, stale = False, None, False
    return present, recs, newer, stale


def index_claim(path):
    """what the index beside the file declares: cyvcf2's VCF(path).num_records; None without an index"""
    if not any(os.path.exists(path + ext) for ext in (".tbi", ".csi")):
        return None
    from cyvcf2 import VCF

    try:
        return int(VCF(path).num_records)
    except Exception:  # noqa
        return -1


class VcfHist(Relation):
    name = "vcf_hist"
    coq_module = "C07_Hist"
    coq_check = "check_hist"
    coq_case_type = "hcase"
    coq_model = "model_hist"
    coq_imports = ["C07_Model", "C07_Check"]
    budget = {"quick": 110, "thorough": 2500}
    anchors = Vcf.anchors

    def generate(self, rng, n, tier):
        out = []
        for i in range(n):
            m = gen_matrix(rng, half_ok=True, bigpos=0.03, beyond=False)
            m = with_empty_shapes(rng, m)
            fmt, kind = [("vcf.gz", "tbi"), ("vcf.gz", "csi"), ("bcf", "csi"), ("vcf", None)][int(rng.choice([0, 0, 1, 2, 2, 3]))]
            if kind == "tbi" and not index_ok(m, kind):
                kind = "csi"
            out.append({"fmt": fmt, "ops": gen_history(rng, m, fmt, kind)})
        # the width-boundary stream: the count the stale index declares against the count of the file
        pairs = COUNT_BOUNDARY if tier == "thorough" else [COUNT_BOUNDARY[int(i)] for i in rng.choice(len(COUNT_BOUNDARY), size=2, replace=False)]
        for ka, kb in pairs:
            fmt, kind = [("vcf.gz", "tbi"), ("vcf.gz", "csi"), ("bcf", "csi")][int(rng.integers(0, 3))]
            ops = [{"op": "write", "m": count_matrix(1, ka, rng)}, {"op": "index", "kind": kind},
                   {"op": "write", "m": count_matrix(int(rng.integers(1, 3)), kb, rng, first=int(rng.integers(1, 30)))}]
            if rng.random() < 0.5:
                ops.append({"op": "touch", "newer": True})
            out.append({"fmt": fmt, "ops": ops})
        return out

    def exhaustive(self, tier):
        # one small earlier matrix against last writes of every shape, every index kind, everything that can be
        # done to the index afterwards
        rng = np.random.default_rng(79)
        a = {"samples": ["s0", "s1"], "variants": [["v0", "1", 10, ["A", "C"]], ["v1", "2", 5, ["G", "T", "GA"]]],
             "rows": [[[0, 1, 0], [1, 1, 1]], [[2, 0, 1], [255, 255, 0]]], "planes": 3}
        finals = []
        for n, p in ((2, 3), (1, 1), (3, 2), (2, 0), (0, 2), (0, 0)):
            m = None
            while m is None or len(m["variants"]) != p or not sorted_for_index(m):
                m = gen_matrix(rng, half_ok=True, pmax=p, pmin=p, nmax=3, wide=0.0)
            m = dict(m, samples=m["samples"][:n] if n else [], rows=[r[:n] for r in m["rows"]])
            while len(m["samples"]) < n:
                m["samples"].append(f"u{len(m['samples'])}")
                m["rows"] = [r + rand_calls(rng, 1, len(v[3]), "mixed") for v, r in zip(m["variants"], m["rows"])]
            finals.append(plain_matrix(m))
        out = []
        for b in finals:
            for fmt, kind in (("vcf.gz", "tbi"), ("vcf.gz", "csi"), ("bcf", "csi")):
                for after in ([], [{"op": "touch", "newer": True}], [{"op": "touch", "newer": False}],
                              [{"op": "index", "kind": kind}], [{"op": "unindex"}]):
                    for first in ([a], [b, a], [a, b]):
                        ops = []
                        for x in first:
                            ops += [{"op": "write", "m": x}, {"op": "index", "kind": kind}, {"op": "read"}]
                        out.append({"fmt": fmt, "ops": ops + [{"op": "write", "m": b}] + after})
            out.append({"fmt": "vcf", "ops": [{"op": "write", "m": a}, {"op": "read"}, {"op": "write", "m": b}]})
        return out

    def run_impl(self, inp):
        from pathlib import Path
        from haptools.data import GenotypesVCF
        from haptools.logging import getLogger

        freeze_once()
        d = tempfile.mkdtemp(prefix="hv_c07_")
        try:
            fmt = inp["fmt"]
            path = os.path.join(d, "x." + fmt)

            def read():
                r = GenotypesVCF(Path(path), log=getLogger("hv", "CRITICAL"))
                r.read()
                return r

            for i, o in enumerate(inp["ops"]):
                try:
                    if o["op"] == "write":
                        build_obj(GenotypesVCF, path, o["m"]).write()
                    elif o["op"] == "index":
                        make_index(path, fmt, o["kind"])
                    elif o["op"] == "touch":
                        t = os.stat(path).st_mtime
                        for ext in (".tbi", ".csi"):
                            if os.path.exists(path + ext):
                                os.utime(path + ext, (t + (10 if o["newer"] else -10),) * 2)
                    elif o["op"] == "unindex":
                        for ext in (".tbi", ".csi"):
                            if os.path.exists(path + ext):
                                os.unlink(path + ext)
                    elif o["op"] == "read":
                        read()
                    else:
                        return {"unobserved": f"unknown operation {o['op']}"}
                except Exception as e:  # noqa
                    err = {"err": err_kind(e), "cls": type(e).__name__, "msg": str(e)[:160], "op": i, "what": o["op"]}
                    if o["op"] in ("index", "touch", "unindex"):
                        return {"unobserved": f"{o['op']} failed: {err['cls']} {err['msg']}"}   # harness trouble
                    return {"file": err, "claim": None, "back": err}
            try:
                file = {"ok": pysam_dump(path)}
            except Exception as e:  # noqa
                file = {"err": err_kind(e), "cls": type(e).__name__, "msg": str(e)[:160]}
            claim = index_claim(path)
            try:
                back = {"ok": dump_obj(read())}
            except Exception as e:  # noqa
                back = {"err": err_kind(e), "cls": type(e).__name__, "msg": str(e)[:160], "what": "read"}
            return {"file": file, "claim": claim, "back": back}
        finally:
            shutil.rmtree(d, ignore_errors=True)

    def encode(self, inp, obs):
        E = Enc()

        def op(o):
            if o["op"] == "write":
                return f"OpWrite {E.geno_in(o['m'])}"
            if o["op"] == "index":
                return f"OpIndex {IDX_TERM[o['kind']]}"
            if o["op"] == "touch":
                return f"OpTouch {L.b(o['newer'])}"
            return "OpUnindex" if o["op"] == "unindex" else "OpRead"

        ops = L.lst(inp["ops"], op)
        claim = "None"
        if "unobserved" in obs:
            file = back = "(Err 97)"
        elif "file" not in obs:
            file = back = f"(Err {oerr(obs)})"
        else:
            vc = lambda c: f"({L.opt(c[0], L.z)}, {L.opt(c[1], L.z)}, {L.b(c[2])})"

            def recs(rs):
                if len(rs) < 24:
                    return L.lst(rs, lambda r: f"({E.variant(r[0])}, {seq_compact([vc(c) for c in r[1]])})")
                return (f"(combine {E.variants([r[0] for r in rs])} "
                        f"{seq_compact([seq_compact([vc(c) for c in r[1]]) for r in rs])})")

            file = L.res(obs["file"], lambda f: f"(mkvf {E.samples(f['samples'])} {recs(f['recs'])})")
            back = E.rgeno(obs["back"])
            claim = L.opt(obs.get("claim"), L.z)
        return f"(mkhc {FMT_TERM[inp['fmt']]} {ops} {file} {claim} {back})"

    def nontrivial(self, inp, obs):
        b = final_write(inp["ops"])
        ws = [o["m"] for o in inp["ops"] if o["op"] == "write"]
        return b is not None and nontrivial_matrix(b) and any(w != b for w in ws[:-1])

    def classes(self, inp, obs):
        ops = inp["ops"]
        b = final_write(ops)
        out = [f"fmt={inp['fmt']}"] + (features(b) if b else [])
        ws = [o["m"] for o in ops if o["op"] == "write"]
        out.append(f"writes={len(ws)}")
        for a in ws[:-1]:
            for what, f in (("variants", lambda m: len(m["variants"])), ("samples", lambda m: len(m["samples"]))):
                if f(a) != f(b):
                    out.append(f"earlier-write:{'fewer' if f(a) < f(b) else 'more'}-{what}")
            if {v[1] for v in a["variants"]} - {v[1] for v in b["variants"]}:
                out.append("earlier-write:other-contigs")
            if a["samples"] == b["samples"] and a["variants"] == b["variants"] and a["rows"] != b["rows"]:
                out.append("earlier-write:same-shape-other-calls")
        present, recs, newer, stale = index_state(ops)
        kinds = {o["kind"] for o in ops if o["op"] == "index"}
        if present and stale:
            out.append("stale-index:" + "/".join(sorted(kinds)))
            out.append("stale-index:" + ("newer-than-file" if newer else "older-than-file"))
            p = len(b["variants"])
            out.append("stale-index-declares:" + ("fewer" if recs < p else "more" if recs > p else "as-many") + "-records")
            if max(recs, p) >= 128:
                out.append("record-count-boundary")
        elif present:
            out.append("index:fresh" + ("" if newer else "-but-older-than-file"))
        elif kinds:
            out.append("index:removed")
        else:
            out.append("index:never")
        if any(o["op"] == "read" for o in ops):
            out.append("earlier-read")
        return sorted(set(out))

    def shrink(self, inp):
        ops = inp["ops"]
        last = max(i for i, o in enumerate(ops) if o["op"] == "write")
        kinds = [o["kind"] for o in ops if o["op"] == "index"]

        def valid(cand):
            # an index can only be built over a file that exists, is sorted and (tbi) below 2^29
            cur = None
            for o in cand:
                if o["op"] == "write":
                    cur = o["m"]
                elif o["op"] == "index" and (cur is None or not index_ok(cur, o["kind"])):
                    return False
            return cand and cand[0]["op"] == "write"

        for i in range(len(ops)):
            if i != last:
                cand = ops[:i] + ops[i + 1:]
                if valid(cand):
                    yield dict(inp, ops=cand)
        for i, o in enumerate(ops):
            if o["op"] == "write":
                for c in shrink_matrix(o["m"], keep_one_sample=bool(o["m"]["samples"])):
                    cand = ops[:i] + [{"op": "write", "m": plain_matrix(c)}] + ops[i + 1:]
                    if valid(cand):
                        yield dict(inp, ops=cand)
        if inp["fmt"] == "bcf" and "tbi" not in kinds:
            yield dict(inp, fmt="vcf.gz")

    def mutate(self, inp, rng):
        ops = inp["ops"]
        last = max(i for i, o in enumerate(ops) if o["op"] == "write")
        kind = "csi" if inp["fmt"] == "bcf" else "tbi"
        if inp["fmt"] != "vcf":
            # index every earlier write; drop what was done to the index after the last one
            cand = []
            for i, o in enumerate(ops[:last]):
                cand.append(o)
                if o["op"] == "write" and index_ok(o["m"], kind):
                    cand.append({"op": "index", "kind": kind})
            cand = [o for j, o in enumerate(cand) if not (o["op"] == "index" and j and cand[j - 1]["op"] == "index")]
            yield dict(inp, ops=cand + [ops[last]])
            yield dict(inp, ops=cand + [ops[last], {"op": "touch", "newer": True}])
        b = ops[last]["m"]
        for how in HOW_PRIOR:
            a = related_matrix(rng, b, how)
            if a is not None and inp["fmt"] != "vcf" and index_ok(a, kind):
                yield dict(inp, ops=[{"op": "write", "m": a}, {"op": "index", "kind": kind}, {"op": "read"}, ops[last]])

    def signature(self, inp, obs):
        b = final_write(inp["ops"])
        present, recs, newer, stale = index_state(inp["ops"])
        st = ("a stale index beside the file" if present and stale else "a fresh index" if present else "no index")
        sh = shape_class(b) if b else "no-write"
        if not isinstance(obs, dict) or "back" not in obs:
            return f"vcf_hist: interpreter crash/timeout in a write/read sequence on one path; {sh}"
        if "err" in obs["back"]:
            return f"vcf_hist: {obs['back'].get('what', 'write')} raised {obs['back'].get('cls')} on a path written before, {st}; {sh}"
        o = obs["back"]["ok"]
        if len(o["variants"]) < len(b["variants"]) and o["variants"] == b["variants"][:len(o["variants"])]:
            return f"vcf_hist: read after a second write to the same path returned only the first variants, {st}; {sh}"
        return f"vcf_hist: read after a second write to the same path differs from what was last written, {st}; {sh}"


# ----------------------------------------------------------------------------
# the names as text


PRINTABLE = [chr(c) for c in range(33, 127)]
NAME_RESERVED = ["IID", "#IID", "FID", "#FID", "#IIDx", "CHROM", "#CHROM", "##x", "NA", "None", "nan", "0", "-9", "GT",
                 "ID", "POS", "sample", "."]
CONTIG_FIRST = "0123456789ABCDEFGHIJKLMNOPQRSTUVWXYZabcdefghijklmnopqrstuvwxyz"
CONTIG_REST = CONTIG_FIRST + "._-*:+|~@"
BASES = "ACGTN"
SYMBOLIC = ["*", "<DEL>", "<INS>", "<CN2>", "<NON_REF>", "<DUP:TANDEM>"]


def rand_str(rng, alphabet, lo, hi):
    k = int(rng.integers(lo, hi + 1))
    return "".join(alphabet[int(i)] for i in rng.integers(0, len(alphabet), size=k))


def gen_name(rng, maxlen=None, forbid=()):
    """A sample name / variant ID: one of the unusual-but-legal families."""
    fam = int(rng.integers(0, 12))
    if fam == 0:
        s = rand_str(rng, "0123456789", 1, 8)                         # digits only
    elif fam == 1:
        s = rand_str(rng, "_ab1", 1, 6) if rng.random() < 0.7 else "_" * int(rng.integers(1, 4))
    elif fam == 2:
        s = rand_str(rng, ".ab1", 2, 6) if rng.random() < 0.7 else "." * int(rng.integers(2, 4))
    elif fam == 3:
        s = rand_str(rng, "abcdefghij0123456789_", 60, 300)            # very long
    elif fam == 4:
        a, b = rand_str(rng, "ab1", 0, 3), rand_str(rng, "ab1#", 0, 3)
        s = a + "#" + b                                                # '#' inside or in front
    elif fam == 5:
        s = NAME_RESERVED[int(rng.integers(0, len(NAME_RESERVED)))]
    elif fam == 6:
        s = '"' + rand_str(rng, 'ab1"', 0, 3)                          # begins with a double quote
    elif fam == 7:
        s = rand_str(rng, ["é", "名", "ß", "a", "1", "β"], 1, 5)   # non-ASCII letters
    elif fam in (8, 9):
        s = rand_str(rng, PRINTABLE, 1, 12)                            # any printable ASCII
    else:
        s = "s" + rand_str(rng, "0123456789", 1, 3)                    # ordinary
    if maxlen is not None:
        if len(s) > maxlen or (fam == 3 and rng.random() < 0.6):
            s = (s * (maxlen // max(len(s), 1) + 1))[:maxlen]          # exactly the width of the field
    if s in forbid or not s:
        s = "x" + s.replace(".", "d")
    return s[:maxlen] if maxlen is not None else s


def gen_contig(rng):
    r = rng.random()
    if r < 0.3:
        return str(int(rng.integers(1, 23)))
    if r < 0.45:
        return "chr" + str(int(rng.integers(1, 23)))
    if r < 0.55:
        return rand_str(rng, CONTIG_FIRST, 1, 1) + rand_str(rng, CONTIG_REST, 9, 9)     # exactly 10 characters
    return rand_str(rng, CONTIG_FIRST, 1, 1) + rand_str(rng, CONTIG_REST, 0, 8)


def gen_alleles(rng):
    na = int(rng.choice([2, 2, 2, 3, 4, 6]))
    ref = rand_str(rng, BASES, 1, 1) if rng.random() < 0.6 else rand_str(rng, BASES + "acgtn", 2, 8)
    if rng.random() < 0.05:
        ref = rand_str(rng, BASES, 100, 250)
    out = [ref]
    while len(out) < na:
        r = rng.random()
        a = SYMBOLIC[int(rng.integers(0, len(SYMBOLIC)))] if r < 0.15 else rand_str(rng, BASES + "acgtn", 1, 10)
        if a not in out:
            out.append(a)
    return out


def gen_text_case(rng, many=0.025):
    target = str(rng.choice(["pgen", "pgen", "vcf", "vcf.gz", "bcf"]))
    n = int(rng.choice([0, 1, 2, 3, 4])) if rng.random() < 0.9 else 6
    p = int(rng.choice([0, 1, 2, 3])) if rng.random() < 0.9 else 5
    if target == "pgen" and n == 0 and p > 0:
        n = 1                                   # refused by the writer: nothing to read (pgen relation)
    samples = []
    while len(samples) < n:
        s = gen_name(rng)
        if s not in samples:
            samples.append(s)
    variants, calls = [], []
    ids = []
    for j in range(p):
        vid = gen_name(rng, maxlen=50, forbid=(".",))
        while vid in ids:
            vid = gen_name(rng, maxlen=50, forbid=(".",))
        if any(ch in vid for ch in " \t"):
            vid = vid.replace(" ", "_")
        ids.append(vid)
        alleles = gen_alleles(rng)
        wide = rng.random() < many
        if wide:
            # a repeat-like variant with 129..255 alleles: ALT is a list of up to 254 comma-separated strings
            alleles = many_alleles(int(rng.choice(MANY_ALLELES)))
        pos = (int(rng.integers(1, 1000)) if rng.random() < 0.8 else
               int(rng.choice([1, 2 ** 31 - 2, 10 ** 9, 536870912, 99999999] + POS_BOUNDARY)))
        pos = min(pos, 2 ** 31 - len(alleles[0]))     # htslib: the last base of REF lies at or below 2^31 - 1
        if target == "pgen":
            pos = min(pos, 2 ** 31 - 2)               # pgenlib's .pvar reader refuses 2^31 - 1
        variants.append([vid, gen_contig(rng), pos, alleles])
        row = []
        bnd = [x for x in INDEX_BOUNDARY + [len(alleles) - 1] if x < len(alleles)]
        for s in range(n):
            a = None if rng.random() < 0.15 else int(rng.integers(0, len(alleles)))
            b = None if rng.random() < 0.15 else int(rng.integers(0, len(alleles)))
            if wide and a is not None and b is not None:
                a, b = int(rng.choice(bnd)), int(rng.choice(bnd))
            if target == "pgen" and (a is None) != (b is None):
                a = b = None                     # PGEN cannot hold a half-missing call
            row.append([a, b, bool(rng.random() < 0.5)])
        calls.append(row)
    return {"target": target, "samples": samples, "variants": variants, "calls": calls}


def text_to_obj_input(inp):
    """the text case as an input of build_obj (rows variant-major, 3 planes)"""
    rows = [[[255 if c[0] is None else c[0], 255 if c[1] is None else c[1], 1 if c[2] else 0] for c in row]
            for row in inp["calls"]]
    return {"samples": inp["samples"], "variants": inp["variants"], "rows": rows, "planes": 3}


def pysam_view(path):
    d = pysam_dump(path)
    return {"samples": d["samples"], "recs": d["recs"]}


class Text(Relation):
    name = "text"
    coq_module = "C07_Check"
    coq_check = "check_text"
    coq_case_type = "tcase"
    coq_model = "model_text"
    coq_imports = ["BpText", "C07_Text", "C07_Files", "C07_Model"]
    budget = {"quick": 140, "thorough": 2500}
    max_cases_per_shard = 60
    max_chars_per_shard = 60_000
    anchors = [
        ("haptools/data/genotypes.py", "GenotypesPLINK.write_samples"),
        ("haptools/data/genotypes.py", "GenotypesPLINK.write_variants"),
        ("haptools/data/genotypes.py", "GenotypesPLINK.read_samples"),
        ("haptools/data/genotypes.py", "GenotypesPLINK._iterate_variants"),
        ("haptools/data/genotypes.py", "GenotypesPLINK._variant_arr"),
        ("haptools/data/genotypes.py", "GenotypesVCF.write"),
        ("haptools/data/genotypes.py", "GenotypesVCF._variant_arr"),
    ]

    def generate(self, rng, n, tier):
        out = [gen_text_case(rng) for _ in range(n)]
        # in every run: the long ALT column of a variant with many alleles, for a text and a binary target
        for target in (["pgen", "vcf", "vcf.gz", "bcf"] if tier == "thorough" else
                       [str(rng.choice(["pgen", "vcf", "vcf.gz"])), "bcf"]):
            c = None
            while c is None or c["target"] != target or not c["variants"] or not c["samples"]:
                c = gen_text_case(rng, many=1.0)
            c["variants"], c["calls"] = c["variants"][:1], c["calls"][:1]
            out.append(c)
        return out

    def exhaustive(self, tier):
        # every reserved / boundary name once as the only sample and once as the only variant ID, per target
        out = []
        names = NAME_RESERVED + ["123", "_", "a.b", "a#b", "#a", '"q', 'q"r', '"', "a b", "x" * 300, "é名"]
        for target in ("pgen", "vcf", "bcf"):
            for nm in names:
                out.append({"target": target, "samples": [nm, "zz"], "variants": [["v1", "1", 10, ["A", "C"]]],
                            "calls": [[[0, 1, True], [None, None, False]]]})
                if nm != "." and " " not in nm:
                    out.append({"target": target, "samples": ["s"], "variants": [[nm[:50], "1", 10, ["A", "C"]], ["zz", "1", 20, ["G", "T"]]],
                                "calls": [[[0, 1, True]], [[1, 1, False]]]})
        return out

    def run_impl(self, inp):
        from pathlib import Path
        from haptools.data import GenotypesVCF, GenotypesPLINK
        from haptools.logging import getLogger

        freeze_once()
        d = tempfile.mkdtemp(prefix="hv_c07_")
        try:
            target = inp["target"]
            cls = GenotypesPLINK if target == "pgen" else GenotypesVCF
            path = os.path.join(d, "x." + target)
            oi = text_to_obj_input(inp)
            g = build_obj(cls, path, oi)
            # what the object holds before anything is written (the record type cuts long strings)
            held = [[str(v["id"]), str(v["chrom"]), int(v["pos"]), [str(a) for a in v["alleles"]]] for v in g.variants]
            out = {"held": held}
            try:
                g.write()
            except Exception as e:  # noqa
                out["write_err"] = {"err": err_kind(e), "cls": type(e).__name__, "msg": str(e)[:160]}
                return out
            rd = lambda p: open(p, "rb").read().decode("utf-8")
            if target == "pgen":
                out["text1"] = rd(os.path.join(d, "x.psam"))
                out["text2"] = rd(os.path.join(d, "x.pvar"))
            else:
                if target == "vcf":
                    out["text1"] = rd(path)
                elif target == "vcf.gz":
                    out["text1"] = gzip.decompress(open(path, "rb").read()).decode("utf-8")
                try:
                    out["view"] = {"ok": pysam_view(path)}
                except Exception as e:  # noqa
                    out["view"] = {"err": err_kind(e), "cls": type(e).__name__, "msg": str(e)[:160]}
            try:
                r = cls(Path(path), log=getLogger("hv", "CRITICAL"))
                r.read()
                out["back"] = {"ok": dump_obj(r)}
            except Exception as e:  # noqa
                out["back"] = {"err": err_kind(e), "cls": type(e).__name__, "msg": str(e)[:160]}
            return out
        finally:
            shutil.rmtree(d, ignore_errors=True)

    @staticmethod
    def tv(v):
        return f"(mktv {L.chars(v[0])} {L.chars(v[1])} {L.z(v[2])} {L.lst(v[3], L.chars)})"

    def encode(self, inp, obs):
        vc = lambda c: f"({L.opt(c[0], L.z)}, {L.opt(c[1], L.z)}, {L.b(c[2])})"
        rec = lambda vr: f"({self.tv(vr[0])}, {L.lst(vr[1], vc)})"
        tfile = lambda samples, recs: f"(mktf {L.lst(samples, L.chars)} {L.lst(recs, rec)})"
        f = tfile(inp["samples"], list(zip(inp["variants"], inp["calls"])))
        target = {"pgen": 0, "vcf": 1, "vcf.gz": 1, "bcf": 2}[inp["target"]]
        none = "(Err 0)"
        if not isinstance(obs, dict) or "held" not in obs:
            k = oerr(obs)
            return f"(mktc {target} false {f} (Err {k}) (Err {k}) (Err {k}) (Err {k}))"
        if obs["held"] != inp["variants"]:
            # the generator must only produce what the record type holds unchanged
            return f"(mktc {target} false {f} (Err 97) (Err 97) (Err 97) (Err 97))"
        if "write_err" in obs:
            k = obs["write_err"]["err"]
            return f"(mktc {target} false {f} (Err {k}) (Err {k}) (Err {k}) (Err {k}))"
        t1 = f"(Ok {L.chars(obs['text1'])})" if "text1" in obs else none
        t2 = f"(Ok {L.chars(obs['text2'])})" if "text2" in obs else none
        view = none
        if "view" in obs:
            view = L.res(obs["view"], lambda v: tfile(v["samples"], v["recs"]))
        if "err" in obs["back"]:
            back = f"(Err {L.z(obs['back']['err'])})"
        else:
            b = obs["back"]["ok"]
            call = lambda c: f"({L.z(c[0])}, {L.z(c[1])}, {L.z(c[2])})"
            back = (f"(Ok (mktb {L.lst(b['samples'], L.chars)} {L.lst(b['variants'], self.tv)} "
                    f"{L.lst(b['rows'], lambda r: L.lst(r, call))}))")
        return f"(mktc {target} false {f} {t1} {t2} {view} {back})"

    def nontrivial(self, inp, obs):
        names = list(inp["samples"]) + [v[0] for v in inp["variants"]] + [v[1] for v in inp["variants"]]
        return any(not nm.isalnum() or not nm.isascii() for nm in names)

    def classes(self, inp, obs):
        out = [f"target={inp['target']}", shape_class(inp)]
        names = list(inp["samples"]) + [v[0] for v in inp["variants"]]
        if any(nm.isdigit() for nm in names):
            out.append("name:digits-only")
        if any("_" in nm for nm in names):
            out.append("name:underscore")
        if any("." in nm for nm in names):
            out.append("name:dot")
        if any("#" in nm for nm in names):
            out.append("name:hash")
        if any(nm.startswith('"') for nm in names):
            out.append("name:leading-quote")
        if any(nm in NAME_RESERVED for nm in names):
            out.append("name:reserved-word")
        if any(len(nm) >= 60 for nm in inp["samples"]):
            out.append("name:very-long-sample")
        if any(len(v[0]) == 50 for v in inp["variants"]):
            out.append("name:id-50-chars")
        if any(len(v[1]) == 10 for v in inp["variants"]):
            out.append("name:contig-10-chars")
        if any(not nm.isascii() for nm in names):
            out.append("name:non-ascii")
        if any(a.startswith("<") or a == "*" for v in inp["variants"] for a in v[3]):
            out.append("allele:symbolic")
        if any(len(a) >= 100 for v in inp["variants"] for a in v[3]):
            out.append("allele:very-long")
        if any(v[2] > 10 ** 8 for v in inp["variants"]):
            out.append("pos:large")
        if any(v[2] + len(v[3][0]) - 1 == INT_MAX for v in inp["variants"]):
            out.append("pos:last-base-at-2^31-1")
        if any(len(v[3]) >= 129 for v in inp["variants"]):
            out.append("alleles>=129")
        if any(x is not None and x >= 128 for r in inp["calls"] for c in r for x in c[:2]):
            out.append("index>=128")
        return out

    def shrink(self, inp):
        n, p = len(inp["samples"]), len(inp["variants"])
        for j in range(p):
            yield dict(inp, variants=inp["variants"][:j] + inp["variants"][j + 1:], calls=inp["calls"][:j] + inp["calls"][j + 1:])
        for s in range(n):
            if not (inp["target"] == "pgen" and n == 1 and p):
                yield dict(inp, samples=inp["samples"][:s] + inp["samples"][s + 1:],
                           calls=[r[:s] + r[s + 1:] for r in inp["calls"]])
        for s in range(n):
            nm = inp["samples"][s]
            for new in (f"s{s}", nm[:len(nm) // 2], nm[1:]):
                if new and new != nm and new not in inp["samples"]:
                    yield dict(inp, samples=inp["samples"][:s] + [new] + inp["samples"][s + 1:])
        for j in range(p):
            v = inp["variants"][j]
            for new in ([f"v{j}", v[1], v[2], v[3]], [v[0], "1", v[2], v[3]], [v[0], v[1], 10 + j, v[3]],
                        [v[0], v[1], v[2], ["A", "C"][:max(2, 0)] + ["G", "T", "N", "AA", "CC", "GG"][:len(v[3]) - 2]],
                        [v[0][:len(v[0]) // 2], v[1], v[2], v[3]]):
                if new != v and new[0]:
                    yield dict(inp, variants=inp["variants"][:j] + [new] + inp["variants"][j + 1:])
        if inp["target"] in ("vcf.gz", "bcf"):
            yield dict(inp, target="vcf")

    def mutate(self, inp, rng):
        for target in ("pgen", "vcf", "vcf.gz", "bcf"):
            if target != inp["target"]:
                c = dict(inp, target=target)
                if target == "pgen":
                    if not c["samples"] and c["variants"]:
                        continue
                    c["calls"] = [[[None, None, x[2]] if (x[0] is None) != (x[1] is None) else x for x in r] for r in c["calls"]]
                yield c

    def signature(self, inp, obs):
        t = "PGEN (.psam/.pvar)" if inp["target"] == "pgen" else inp["target"]
        names = list(inp["samples"]) + [v[0] for v in inp["variants"]]
        q = any(nm.startswith('"') for nm in names)
        if not isinstance(obs, dict) or "held" not in obs:
            return f"text: interpreter crash/timeout writing or reading {t}"
        if "write_err" in obs:
            return f"text: writing {t} raised {obs['write_err'].get('cls')}; leading-quote={q}"
        sym = any(a.startswith("<") for v in inp["variants"] for a in v[3])
        if "err" in obs.get("back", {}):
            return (f"text: reading {t} raised {obs['back'].get('cls')}; leading-quote={q} symbolic-allele={sym} "
                    f"{shape_class(inp)}")
        b = obs["back"]["ok"]
        what = []
        if b["samples"] != inp["samples"]:
            what.append("samples")
        if b["variants"] != inp["variants"]:
            what.append("variants")
        return f"text: {'/'.join(what) or 'calls'} read back from {t} differ; leading-quote={q}"


RELATIONS = [Pgen(), Vcf(), VcfHist(), Text()]

LEVEL_TEXT = (
    "Coq theorems, for every matrix size (0 samples or 0 variants included), every allele/missing/phase pattern in the "
    "property's domain and every write and read chunk size >= 1, about a Gallina model of GenotypesPLINK.write/read and "
    "GenotypesVCF.write/Genotypes.read at the library boundary (chunking irrelevance, the writer's allele-count "
    "precondition, PGEN and VCF round trips, independence of the VCF read from format and index, the shapes without "
    "entries, the refusal of half-missing calls by PGEN) under stated contracts of pgenlib, pysam/cyvcf2 and htslib, "
    "and about a character-level model of the .psam/.pvar/.vcf text (every list of sample names, every variant's ID, "
    "contig, position and alleles, every GT token is read back as written); every allele index 0..254 goes through both "
    "codecs unchanged and any writer that turns an index below 255 into '.' breaks the round trip; positions and allele "
    "counts the formats cannot hold are refused before anything is stored (and nothing else is); what holds = true "
    "means for every setting of the _prephased attributes; on a path with a past (any sequence of writes, indexings, "
    "changes of the index's age, removals of the index and reads) the read returns the round trip of the matrix last "
    "written: the reader provably ignores what a sibling index declares, while a reader that takes the record count "
    "from the index is refuted by an index left from an earlier write. The models are tied to /repo on every "
    "run: the calls haptools makes to pgenlib.PgenWriter are recorded and compared, the written files are read "
    "independently with pgenlib and pysam and as text, and the object haptools reads back is compared with the model "
    "and checked against the property inside Coq."
)
LEVEL_NOTE = (
    "Partial: the binary encodings of htslib (bgzip, BCF) and pgenlib are contracts (Section hypotheses, each "
    "validated against the real library on every run), not theorems; the text of .psam/.pvar/.vcf is modelled down to "
    "characters. A call missing in one allele only cannot be stored in PGEN and variants without samples neither: both "
    "are refusals in the model and outside the round-trip demand for PGEN (see assumptions)."
)
TECHNIQUE = ("Coq proof by induction on chunked lists, token lists and decimal numerals + vm_compute-evaluated "
             "correspondence against haptools, pgenlib, pysam, cyvcf2 and the written text")
